package desync

// Replay for the UnTarIndex completeness obligation (C07): a cancellation that arrives while UnTar
// waits, at an element boundary of the archive, for the next chunk must not be taken for the end of
// the archive. The schedule is fixed with a delay in the feeder (inserted into a scratch copy of
// untar.go through the overlay: it constrains the goroutine schedule only): the feeder has requested
// chunk 1 but not yet handed its result channel to the assembler when the context is cancelled.

import (
	"bytes"
	"context"
	"fmt"
	"os"
	"sync"
	"testing"
	"time"
)

var zzF15Delay = 400 * time.Millisecond

// zzVerifReplayDelay is called from the scratch copy of untar.go at the scheduled point.
func zzVerifReplayDelay() { time.Sleep(zzF15Delay) }

type zzF15FS struct {
	mu      sync.Mutex
	created []string
	fileA   chan struct{}
}

func (f *zzF15FS) note(s string) {
	f.mu.Lock()
	f.created = append(f.created, s)
	f.mu.Unlock()
}
func (f *zzF15FS) CreateDir(n NodeDirectory) error { f.note("dir:" + n.Name); return nil }
func (f *zzF15FS) CreateFile(n NodeFile) error {
	var b bytes.Buffer
	b.ReadFrom(n.Data)
	f.note("file:" + n.Name)
	if n.Name == "a" {
		close(f.fileA)
	}
	return nil
}
func (f *zzF15FS) CreateSymlink(n NodeSymlink) error { f.note("symlink:" + n.Name); return nil }
func (f *zzF15FS) CreateDevice(n NodeDevice) error   { f.note("device:" + n.Name); return nil }

type zzF15Store struct{ chunks map[ChunkID][]byte }

func (s zzF15Store) GetChunk(id ChunkID) (*Chunk, error) {
	b, ok := s.chunks[id]
	if !ok {
		return nil, ChunkMissing{id}
	}
	return NewChunk(b), nil
}
func (s zzF15Store) HasChunk(id ChunkID) (bool, error) { _, ok := s.chunks[id]; return ok, nil }
func (s zzF15Store) Close() error                      { return nil }
func (s zzF15Store) String() string                    { return "zzF15Store" }

func TestZZReplayUnTarIndexCancelAtBoundary(t *testing.T) {
	// archive: directory with two files a and b; the first chunk ends exactly after a's payload
	var buf bytes.Buffer
	enc := NewFormatEncoder(&buf)
	entry := func(mode os.FileMode) FormatEntry {
		return FormatEntry{FormatHeader: FormatHeader{Size: 64, Type: CaFormatEntry}, FeatureFlags: TarFeatureFlags, Mode: mode, MTime: time.Unix(1, 0)}
	}
	file := func(name, content string) {
		enc.Encode(FormatFilename{FormatHeader: FormatHeader{Size: uint64(16 + len(name) + 1), Type: CaFormatFilename}, Name: name})
		enc.Encode(entry(0644))
		enc.Encode(FormatPayload{FormatHeader: FormatHeader{Size: uint64(16 + len(content)), Type: CaFormatPayload}, Data: bytes.NewReader([]byte(content))})
	}
	enc.Encode(entry(os.ModeDir | 0755))
	file("a", "content of a")
	split := buf.Len()
	file("b", "content of b")
	enc.Encode(FormatGoodbye{FormatHeader: FormatHeader{Size: 16 + 24, Type: CaFormatGoodbye}, Items: []FormatGoodbyeItem{{Offset: uint64(buf.Len()), Size: 16 + 24, Hash: CaFormatGoodbyeTailMarker}}})
	stream := buf.Bytes()
	parts := [][]byte{stream[:split], stream[split:]}
	store := zzF15Store{chunks: map[ChunkID][]byte{}}
	var idx Index
	var start uint64
	for _, p := range parts {
		id := Digest.Sum(p)
		store.chunks[id] = p
		idx.Chunks = append(idx.Chunks, IndexChunk{ID: id, Start: start, Size: uint64(len(p))})
		start += uint64(len(p))
	}
	fs := &zzF15FS{fileA: make(chan struct{})}
	ctx, cancel := context.WithCancel(context.Background())
	defer cancel()
	go func() {
		<-fs.fileA
		time.Sleep(zzF15Delay / 2) // UnTar is now waiting for the header of the next element
		cancel()
	}()
	err := UnTarIndex(ctx, fs, idx, store, 1, NewProgressBar(""))
	fs.mu.Lock()
	created := fmt.Sprint(fs.created)
	sawB := false
	for _, c := range fs.created {
		if c == "file:b" {
			sawB = true
		}
	}
	fs.mu.Unlock()
	t.Logf("UnTarIndex returned %v; created %s", err, created)
	if err == nil && !sawB {
		fmt.Println("REPLAY-CONFIRMED: UnTarIndex reported success after a cancellation although file b of the archive was never unpacked; created:", created)
	}
}
