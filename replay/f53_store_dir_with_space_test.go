package main

import (
	"context"
	"encoding/json"
	"io/ioutil"
	"os"
	"path/filepath"
	"strings"
	"testing"

	"github.com/folbricht/desync"
	"github.com/spf13/pflag"
	"github.com/stretchr/testify/require"
)

// Demonstration for property C20 (local stores: layout chosen by the store's compression option, a client
// configured for one format never writes, sees or prunes the other format's files).
//
// The store is configured as uncompressed in the config file ("store-options": {"<dir>": {"uncompressed": true}}).
// Every command that opens the store must therefore work on the suffix-less raw files only. The directory name
// contains a space, which is all it takes.

// point the global config at a config file declaring the given store location uncompressed
func demoC20Config(t *testing.T, store string) func() {
	oldCfg, oldFile := cfg, cfgFile
	cfg = Config{}
	b, err := json.Marshal(map[string]interface{}{
		"store-options": map[string]interface{}{
			store: map[string]interface{}{"uncompressed": true},
		},
	})
	require.NoError(t, err)
	f, err := ioutil.TempFile("", "demoC20-config")
	require.NoError(t, err)
	_, err = f.Write(b)
	require.NoError(t, err)
	f.Close()
	cfgFile = f.Name()
	initConfig()
	return func() {
		os.Remove(f.Name())
		cfg, cfgFile = oldCfg, oldFile
	}
}

// all regular files below dir, relative names
func demoC20Files(t *testing.T, dir string) []string {
	var names []string
	err := filepath.Walk(dir, func(p string, info os.FileInfo, err error) error {
		if err != nil {
			return err
		}
		if !info.IsDir() {
			names = append(names, filepath.Base(p))
		}
		return nil
	})
	require.NoError(t, err)
	return names
}

func demoC20(t *testing.T, dirName string) {
	base, err := ioutil.TempDir("", "demoC20")
	require.NoError(t, err)
	defer os.RemoveAll(base)
	store := filepath.Join(base, dirName)
	require.NoError(t, os.Mkdir(store, 0755))
	defer demoC20Config(t, store)()
	stderr = ioutil.Discard

	// 0. verify and pull look the options up with the plain location: for them the store is uncompressed
	opt, err := cfg.GetStoreOptionsFor(store)
	require.NoError(t, err)
	require.True(t, opt.Uncompressed, "test setup: config entry does not match the store")

	// 1. What every other command gets when it opens the store
	var cmdOpt cmdStoreOptions
	addStoreOptions(&cmdOpt, pflag.NewFlagSet("demo", pflag.ContinueOnError))
	s, err := storeFromLocation(store, cmdOpt)
	require.NoError(t, err)
	ls, ok := s.(desync.LocalStore)
	require.True(t, ok)
	if !ls.Opt.Uncompressed {
		t.Errorf("storeFromLocation(%q): store is configured uncompressed but was opened as a compressed store", store)
	}

	// 2. chop into the store: an uncompressed store gets suffix-less files holding the raw bytes, no .cacnk
	chopCmd := newChopCommand(context.Background())
	chopCmd.SetArgs([]string{"-s", store, "testdata/blob1.caibx", "testdata/blob1"})
	chopCmd.SetOutput(ioutil.Discard)
	_, err = chopCmd.ExecuteC()
	require.NoError(t, err)
	written := demoC20Files(t, store)
	require.NotEmpty(t, written)
	var wrong int
	for _, name := range written {
		if strings.HasSuffix(name, desync.CompressedChunkExt) {
			wrong++
		}
	}
	if wrong != 0 {
		t.Errorf("chop wrote %d of %d chunk files in the compressed format (.cacnk) into a store configured uncompressed", wrong, len(written))
	}
	// ... and a client that is configured uncompressed (like 'desync verify', which is) finds them all
	un, err := desync.NewLocalStore(store, desync.StoreOptions{Uncompressed: true})
	require.NoError(t, err)
	idx, err := readCaibxFile("testdata/blob1.caibx", cmdOpt)
	require.NoError(t, err)
	var missing int
	for _, c := range idx.Chunks {
		if has, _ := un.HasChunk(c.ID); !has {
			missing++
		}
	}
	if missing != 0 {
		t.Errorf("%d of %d chunks chopped into the uncompressed store are not there in uncompressed form", missing, len(idx.Chunks))
	}

	// 3. prune: start from a clean, correctly populated uncompressed store that also holds a compressed
	// chunk (some other client's, configured for the compressed format) and an unreferenced raw chunk
	require.NoError(t, os.RemoveAll(store))
	require.NoError(t, os.Mkdir(store, 0755))
	un, err = desync.NewLocalStore(store, desync.StoreOptions{Uncompressed: true})
	require.NoError(t, err)
	co, err := desync.NewLocalStore(store, desync.StoreOptions{})
	require.NoError(t, err)
	src, err := desync.NewLocalStore("testdata/blob1.store", desync.StoreOptions{})
	require.NoError(t, err)
	for _, c := range idx.Chunks {
		chunk, err := src.GetChunk(c.ID)
		require.NoError(t, err)
		require.NoError(t, un.StoreChunk(chunk))
	}
	foreign := desync.NewChunk([]byte("a chunk of the clients that use the compressed format"))
	require.NoError(t, co.StoreChunk(foreign))
	garbage := desync.NewChunk([]byte("an uncompressed chunk no index refers to"))
	require.NoError(t, un.StoreChunk(garbage))

	pruneCmd := newPruneCommand(context.Background())
	pruneCmd.SetArgs([]string{"-s", store, "testdata/blob1.caibx", "--yes"})
	pruneCmd.SetOutput(ioutil.Discard)
	_, err = pruneCmd.ExecuteC()
	require.NoError(t, err)

	fid, gid := foreign.ID(), garbage.ID()
	if has, _ := co.HasChunk(fid); !has {
		t.Errorf("prune of a store configured uncompressed deleted the compressed chunk file %s.cacnk", fid.String())
	}
	if has, _ := un.HasChunk(gid); has {
		t.Errorf("prune of a store configured uncompressed left the unreferenced uncompressed chunk %s behind", gid.String())
	}
	for _, c := range idx.Chunks {
		if has, _ := un.HasChunk(c.ID); !has {
			t.Fatalf("prune removed the referenced chunk %s", c.ID.String())
		}
	}
}

// The trigger: a store directory whose name has a character that is escaped in URLs
func TestDemoC20StoreDirWithSpace(t *testing.T) {
	demoC20(t, "chunk store")
}

// Control: same scenario, plain directory name. Passes on both trees.
func TestDemoC20StoreDirPlain(t *testing.T) {
	demoC20(t, "chunkstore")
}
