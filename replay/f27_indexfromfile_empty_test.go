package desync

// Replay for the set-up arithmetic of IndexFromFile (C02): chunking an empty or very small file with several
// workers must not panic (division by zero in the worker count / spacing computation) and must give the
// single-stream result.

import (
	"context"
	"fmt"
	"os"
	"path/filepath"
	"testing"
)

func TestZZReplayIndexFromFileSmallInputs(t *testing.T) {
	dir := t.TempDir()
	for _, size := range []int{0, 1, 17} {
		for _, n := range []int{1, 2, 4, 16} {
			name := filepath.Join(dir, fmt.Sprintf("f%d", size))
			if err := os.WriteFile(name, make([]byte, size), 0o644); err != nil {
				t.Fatal(err)
			}
			func() {
				defer func() {
					if r := recover(); r != nil {
						fmt.Printf("REPLAY-CONFIRMED: IndexFromFile panics on a %d byte file with n=%d: %v\n", size, n, r)
					}
				}()
				idx, _, err := IndexFromFile(context.Background(), name, n, ChunkSizeMinDefault, ChunkSizeAvgDefault, ChunkSizeMaxDefault, NullProgressBar{})
				if err != nil {
					fmt.Printf("REPLAY-CONFIRMED: IndexFromFile fails on a %d byte file with n=%d: %v\n", size, n, err)
					return
				}
				if idx.Length() != int64(size) {
					fmt.Printf("REPLAY-CONFIRMED: IndexFromFile on a %d byte file with n=%d describes %d bytes\n", size, n, idx.Length())
				}
			}()
		}
	}
}
