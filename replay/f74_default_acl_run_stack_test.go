package desync

import (
	"bytes"
	"encoding/binary"
	"io"
	"os"
	"os/exec"
	"runtime"
	"runtime/debug"
	"strings"
	"testing"
)

// demoC19Stream produces, without holding it in memory, a catar stream made of
// a directory entry followed by 'n' default-ACL user entries (well-formed, 33
// bytes each: header, uid, permissions, empty 0-terminated name) and a goodbye
// element. When the last ACL element is handed out, 'atDeepest' is called, at
// that point the decoder is as deep into the stream as it gets.
type demoC19Stream struct {
	head, elem, tail []byte
	n                int
	pos              int // element being served: 0 = head, 1..n = acl, n+1 = tail
	off              int
	atDeepest        func()
	served           uint64
}

func newDemoC19Stream(n int, atDeepest func()) *demoC19Stream {
	le := func(v ...uint64) []byte {
		b := new(bytes.Buffer)
		for _, x := range v {
			binary.Write(b, binary.LittleEndian, x)
		}
		return b.Bytes()
	}
	head := le(64, CaFormatEntry, 0, uint64(FilemodeToStatMode(os.ModeDir|0755)), 0, 0, 0, 0)
	elem := append(le(33, CaFormatACLDefaultUser, 1000, 7), 0)
	tail := le(16+24, CaFormatGoodbye, 0, 16+24, CaFormatGoodbyeTailMarker)
	return &demoC19Stream{head: head, elem: elem, tail: tail, n: n, atDeepest: atDeepest}
}

func (s *demoC19Stream) size() uint64 {
	return uint64(len(s.head) + s.n*len(s.elem) + len(s.tail))
}

func (s *demoC19Stream) Read(p []byte) (int, error) {
	var cur []byte
	switch {
	case s.pos == 0:
		cur = s.head
	case s.pos <= s.n:
		cur = s.elem
	case s.pos == s.n+1:
		cur = s.tail
	default:
		return 0, io.EOF
	}
	c := copy(p, cur[s.off:])
	s.off += c
	s.served += uint64(c)
	if s.off == len(cur) {
		if s.pos == s.n && s.atDeepest != nil {
			s.atDeepest()
		}
		s.pos++
		s.off = 0
	}
	return c, nil
}

// Decodes the whole stream with the archive decoder in a fresh goroutine and
// returns the error (if any) plus the growth of stack memory in use at the time
// the last ACL element was read.
func demoC19Decode(n int) (inputSize uint64, stackGrowth uint64, err error) {
	var before, deepest runtime.MemStats
	runtime.GC()
	runtime.ReadMemStats(&before)
	s := newDemoC19Stream(n, func() { runtime.ReadMemStats(&deepest) })
	done := make(chan error)
	go func() {
		dec := NewArchiveDecoder(s)
		for {
			v, err := dec.Next()
			if err != nil || v == nil {
				done <- err
				return
			}
		}
	}()
	err = <-done
	if deepest.StackInuse > before.StackInuse {
		stackGrowth = deepest.StackInuse - before.StackInuse
	}
	return s.size(), stackGrowth, err
}

// Memory used while decoding has to stay in proportion to the input. Either the
// decoder refuses the elements (error) or it handles them, but it must not need
// a multiple of the input size in memory to get through them.
func TestDemoC19StackInProportion(t *testing.T) {
	const n = 100000 // 3.3MB of input
	size, growth, err := demoC19Decode(n)
	t.Logf("input %d bytes, decoder result: %v, stack growth while decoding: %d bytes (%.1fx input)",
		size, err, growth, float64(growth)/float64(size))
	if growth > 4*size+(1<<20) {
		t.Fatalf("decoding %d bytes of input took %d bytes of stack, %.1f times the input size",
			size, growth, float64(growth)/float64(size))
	}
}

// Same input, just more of it, in a child process since running out of stack is
// fatal and can't be recovered from. The child is limited to 256MB of stack per
// goroutine (default is 1GB) to go easy on the machine, the input is 16MB.
func TestDemoC19NoCrash(t *testing.T) {
	if os.Getenv("DEMO_C19_CHILD") == "1" {
		debug.SetMaxStack(256 << 20)
		size, growth, err := demoC19Decode(500000)
		t.Logf("child: input %d bytes, result %v, stack growth %d", size, err, growth)
		return
	}
	cmd := exec.Command(os.Args[0], "-test.run=^TestDemoC19NoCrash$", "-test.v")
	cmd.Env = append(os.Environ(), "DEMO_C19_CHILD=1")
	out, err := cmd.CombinedOutput()
	if err != nil {
		s := string(out)
		if i := strings.Index(s, "goroutine "); i > 0 && len(s) > i+600 {
			s = s[:i+600] + "\n[...]"
		}
		t.Fatalf("decoder crashed on a 16MB archive: %v\n%s", err, s)
	}
}
