package desync

import (
	"bytes"
	"io/ioutil"
	"net/http"
	"net/http/httptest"
	"os"
	"path/filepath"
	"sort"
	"testing"

	"github.com/stretchr/testify/assert"
	"github.com/stretchr/testify/require"
)

// Demonstration for property C15: an index (or chunk) server configured with an
// authorization value performs no read and no write for any request that does
// not carry exactly that value.
//
// Drop into the package directory of the desync module and run:
//   go test -mod=mod -vet=off -count=1 -run 'TestDemoC15' .

func demoC15Snapshot(t *testing.T, dir string) map[string]string {
	t.Helper()
	snap := make(map[string]string)
	err := filepath.Walk(dir, func(p string, info os.FileInfo, err error) error {
		if err != nil {
			return err
		}
		rel, _ := filepath.Rel(dir, p)
		if info.IsDir() {
			snap[rel] = "<dir>"
			return nil
		}
		b, err := ioutil.ReadFile(p)
		if err != nil {
			return err
		}
		snap[rel] = string(b)
		return nil
	})
	require.NoError(t, err)
	return snap
}

func demoC15Names(snap map[string]string) []string {
	var names []string
	for n := range snap {
		names = append(names, n)
	}
	sort.Strings(names)
	return names
}

func demoC15Do(t *testing.T, method, url, auth string, body []byte) (int, []byte) {
	t.Helper()
	var rd *bytes.Reader
	if body != nil {
		rd = bytes.NewReader(body)
	} else {
		rd = bytes.NewReader(nil)
	}
	req, err := http.NewRequest(method, url, rd)
	require.NoError(t, err)
	if auth != "" {
		req.Header.Set("Authorization", auth)
	}
	resp, err := http.DefaultClient.Do(req)
	require.NoError(t, err)
	defer resp.Body.Close()
	b, err := ioutil.ReadAll(resp.Body)
	require.NoError(t, err)
	return resp.StatusCode, b
}

func TestDemoC15IndexServerAuthorization(t *testing.T) {
	const secret = "Bearer dG9wU2VjcmV0VG9rZW4"

	// A served index store with one index in it
	storeDir := t.TempDir()
	indexBytes, err := ioutil.ReadFile("testdata/index.caibx")
	require.NoError(t, err)
	require.NoError(t, ioutil.WriteFile(filepath.Join(storeDir, "present.caibx"), indexBytes, 0644))

	s, err := NewLocalIndexStore(storeDir)
	require.NoError(t, err)

	// Writable index server that expects an authorization value
	srv := httptest.NewServer(NewHTTPIndexHandler(s, true, secret))
	defer srv.Close()

	before := demoC15Snapshot(t, storeDir)

	for _, tc := range []struct{ name, auth string }{
		{"no header", ""},
		{"wrong value", "Bearer d3JvbmdUb2tlbg"},
		{"wrong scheme", "Basic dG9wU2VjcmV0VG9rZW4"},
	} {
		t.Run(tc.name, func(t *testing.T) {
			// Reading an existing index must be refused and must not reveal its content
			code, body := demoC15Do(t, "GET", srv.URL+"/present.caibx", tc.auth, nil)
			require.Equal(t, http.StatusUnauthorized, code)
			assert.False(t, bytes.Contains(body, indexBytes),
				"unauthorized GET returned the content of the index (%d bytes in the response body)", len(body))

			// Uploading an index must be refused and must leave the store alone
			code, _ = demoC15Do(t, "PUT", srv.URL+"/uploaded.caibx", tc.auth, indexBytes)
			require.Equal(t, http.StatusUnauthorized, code)
			after := demoC15Snapshot(t, storeDir)
			assert.Equal(t, demoC15Names(before), demoC15Names(after),
				"unauthorized PUT created a file in the served store")

			// Overwriting an existing index must be refused as well
			other, err := ioutil.ReadFile("testdata/blob1.caibx")
			require.NoError(t, err)
			code, _ = demoC15Do(t, "PUT", srv.URL+"/present.caibx", tc.auth, other)
			require.Equal(t, http.StatusUnauthorized, code)
			after = demoC15Snapshot(t, storeDir)
			assert.True(t, before["present.caibx"] == after["present.caibx"], "unauthorized PUT overwrote an index in the served store")

			// Put things back for the next round
			os.Remove(filepath.Join(storeDir, "uploaded.caibx"))
			require.NoError(t, ioutil.WriteFile(filepath.Join(storeDir, "present.caibx"), indexBytes, 0644))
		})
	}

	// Control: with exactly the right value everything works
	code, body := demoC15Do(t, "GET", srv.URL+"/present.caibx", secret, nil)
	require.Equal(t, http.StatusOK, code)
	require.Equal(t, indexBytes, body)
	code, _ = demoC15Do(t, "PUT", srv.URL+"/uploaded.caibx", secret, indexBytes)
	require.Equal(t, http.StatusOK, code)
	_, err = os.Stat(filepath.Join(storeDir, "uploaded.caibx"))
	require.NoError(t, err)
}

// Control for the chunk server: it must keep refusing (it does on both trees).
func TestDemoC15ChunkServerAuthorization(t *testing.T) {
	const secret = "Bearer dG9wU2VjcmV0VG9rZW4"

	storeDir := t.TempDir()
	s, err := NewLocalStore(storeDir, StoreOptions{})
	require.NoError(t, err)
	chunk := NewChunk([]byte("some chunk data"))
	require.NoError(t, s.StoreChunk(chunk))
	cid := chunk.ID()
	id := cid.String()
	p := "/" + id[0:4] + "/" + id + CompressedChunkExt

	srv := httptest.NewServer(NewHTTPHandler(s, true, false, Converters{Compressor{}}, secret))
	defer srv.Close()

	stored, err := ioutil.ReadFile(filepath.Join(storeDir, id[0:4], id+CompressedChunkExt))
	require.NoError(t, err)

	before := demoC15Snapshot(t, storeDir)
	code, body := demoC15Do(t, "GET", srv.URL+p, "", nil)
	require.Equal(t, http.StatusUnauthorized, code)
	require.False(t, bytes.Contains(body, stored))

	other := NewChunk([]byte("other chunk data"))
	ocid := other.ID()
	oid := ocid.String()
	ob, err := Compress([]byte("other chunk data"))
	require.NoError(t, err)
	code, _ = demoC15Do(t, "PUT", srv.URL+"/"+oid[0:4]+"/"+oid+CompressedChunkExt, "Bearer wrong", ob)
	require.Equal(t, http.StatusUnauthorized, code)
	require.Equal(t, before, demoC15Snapshot(t, storeDir))

	code, body = demoC15Do(t, "GET", srv.URL+p, secret, nil)
	require.Equal(t, http.StatusOK, code)
	require.Equal(t, stored, body)
}
