package desync

import (
	"bytes"
	"context"
	"io/ioutil"
	"math/rand"
	"os"
	"path/filepath"
	"testing"
	"time"
)

// The caller chose to skip invalid seeds, the store holds every chunk of the
// blob: extraction has to succeed and reproduce the blob, no matter how stale
// the seed is.
//
// The blob is chunked as A B X A B C, the seed as A B C, and the seed's data
// file was modified inside C after the seed index was made.
func TestDemoC01SkipStaleSeedSharedRunStart(t *testing.T) {
	const min, avg, max = 64, 256, 1024
	ctx := context.Background()
	dir := t.TempDir()

	index := func(name string, data []byte) Index {
		if err := ioutil.WriteFile(name, data, 0644); err != nil {
			t.Fatal(err)
		}
		idx, _, err := IndexFromFile(ctx, name, 1, min, avg, max, NullProgressBar{})
		if err != nil {
			t.Fatal(err)
		}
		return idx
	}

	// Chunk some random data to get hold of real chunks
	raw := make([]byte, 32*1024)
	rand.New(rand.NewSource(1)).Read(raw)
	rawIdx := index(filepath.Join(dir, "raw"), raw)
	if len(rawIdx.Chunks) < 10 {
		t.Fatalf("only %d chunks", len(rawIdx.Chunks))
	}
	data := func(c IndexChunk) []byte { return raw[c.Start : c.Start+c.Size] }
	a, b, c, x := rawIdx.Chunks[5], rawIdx.Chunks[6], rawIdx.Chunks[7], rawIdx.Chunks[2]

	// The blob to be extracted and a store that holds all its chunks
	blob := join(data(a), data(b), data(x), data(a), data(b), data(c))
	blobFile := filepath.Join(dir, "blob")
	idx := index(blobFile, blob)
	want := []ChunkID{a.ID, b.ID, x.ID, a.ID, b.ID, c.ID}
	if len(idx.Chunks) != len(want) {
		t.Fatalf("blob has %d chunks, wanted %d", len(idx.Chunks), len(want))
	}
	for i := range want {
		if idx.Chunks[i].ID != want[i] {
			t.Fatalf("blob chunk %d is not the expected one", i)
		}
	}
	storeDir := filepath.Join(dir, "store")
	if err := os.Mkdir(storeDir, 0755); err != nil {
		t.Fatal(err)
	}
	s, err := NewLocalStore(storeDir, StoreOptions{})
	if err != nil {
		t.Fatal(err)
	}
	if err := ChopFile(ctx, blobFile, idx.Chunks, s, 1, NullProgressBar{}); err != nil {
		t.Fatal(err)
	}

	// The seed: A B C with an index made while it was intact, then one byte of C
	// changes in the data file
	seedFile := filepath.Join(dir, "seed")
	seedData := join(data(a), data(b), data(c))
	seedIdx := index(seedFile, seedData)
	if len(seedIdx.Chunks) != 3 || seedIdx.Chunks[0].ID != a.ID || seedIdx.Chunks[1].ID != b.ID || seedIdx.Chunks[2].ID != c.ID {
		t.Fatal("seed isn't chunked as A B C")
	}
	seedData[len(seedData)-10] ^= 0xff
	if err := ioutil.WriteFile(seedFile, seedData, 0644); err != nil {
		t.Fatal(err)
	}

	for _, n := range []int{1, 4} {
		out := filepath.Join(dir, "out")
		os.Remove(out)
		seed, err := NewIndexSeed(out, seedFile, seedIdx)
		if err != nil {
			t.Fatal(err)
		}
		done := make(chan error, 1)
		go func() {
			_, err := AssembleFile(ctx, out, idx, s, []Seed{seed}, AssembleOptions{N: n, InvalidSeedAction: InvalidSeedActionSkip})
			done <- err
		}()
		select {
		case err = <-done:
		case <-time.After(time.Minute):
			t.Fatalf("n=%d: extraction doesn't terminate", n)
		}
		if err != nil {
			t.Errorf("n=%d: invalid seeds are to be skipped and the store has all chunks, yet the extraction failed: %v", n, err)
			continue
		}
		got, err := ioutil.ReadFile(out)
		if err != nil {
			t.Fatal(err)
		}
		if !bytes.Equal(got, blob) {
			t.Errorf("n=%d: success reported but the output differs from the blob", n)
		}
	}
}
