package desync

// Demonstration for property C01 ("Extract reproduces the indexed blob
// byte-for-byte"). Drop this file into the root package directory and run
//
//   go test -mod=mod -vet=off -count=1 -run 'TestDemoC01' .
//
// Both sub-tests extract in place over a NON-EMPTY prior target (so the null
// chunk sections really have to be written) on a filesystem without block
// cloning, from an index made with chunk sizes 3072:12288:49152 (max is not a
// multiple of 32 KiB).

import (
	"bytes"
	"context"
	"io/ioutil"
	"math/rand"
	"os"
	"path/filepath"
	"testing"
)

const (
	demoC01Min = 3072
	demoC01Avg = 12288
	demoC01Max = 49152
)

func demoC01Index(t *testing.T, dir string, blob []byte) Index {
	t.Helper()
	name := filepath.Join(dir, "blob.tmp")
	if err := ioutil.WriteFile(name, blob, 0644); err != nil {
		t.Fatal(err)
	}
	defer os.Remove(name)
	idx, _, err := IndexFromFile(context.Background(), name, 4, demoC01Min, demoC01Avg, demoC01Max, NewProgressBar(""))
	if err != nil {
		t.Fatal(err)
	}
	return idx
}

// demoC01Setup builds a blob of the form <random head> <nNull null chunks> <tail>
// where the null run is aligned to chunk boundaries, and returns it with its
// index and a store holding every chunk.
func demoC01Setup(t *testing.T, dir string, nNull int, tail []byte) ([]byte, Index, Store) {
	t.Helper()
	rnd := rand.New(rand.NewSource(1))
	head := make([]byte, 100000)
	rnd.Read(head)
	nullID := NewNullChunk(demoC01Max).ID

	// Find out where the chunker starts cutting max-size null chunks after the head
	probe := append(append([]byte{}, head...), make([]byte, 6*demoC01Max)...)
	pIdx := demoC01Index(t, dir, probe)
	start := -1
	for _, c := range pIdx.Chunks {
		if c.ID == nullID {
			start = int(c.Start)
			break
		}
	}
	if start < 0 {
		t.Fatal("setup: no null chunk found in the probe blob")
	}

	blob := append([]byte{}, probe[:start]...)
	blob = append(blob, make([]byte, nNull*demoC01Max)...)
	blob = append(blob, tail...)

	name := filepath.Join(dir, "blob")
	if err := ioutil.WriteFile(name, blob, 0644); err != nil {
		t.Fatal(err)
	}
	idx, _, err := IndexFromFile(context.Background(), name, 4, demoC01Min, demoC01Avg, demoC01Max, NewProgressBar(""))
	if err != nil {
		t.Fatal(err)
	}
	// Sanity: the index has exactly nNull consecutive null chunks starting at "start"
	n := 0
	for _, c := range idx.Chunks {
		if c.ID == nullID {
			if n == 0 && int(c.Start) != start {
				t.Fatalf("setup: null run starts at %d, expected %d", c.Start, start)
			}
			n++
		}
	}
	if n != nNull {
		t.Fatalf("setup: %d null chunks in the index, expected %d", n, nNull)
	}
	if idx.Length() != int64(len(blob)) {
		t.Fatalf("setup: index length %d, blob length %d", idx.Length(), len(blob))
	}

	storeDir := filepath.Join(dir, "store")
	if err := os.MkdirAll(storeDir, 0755); err != nil {
		t.Fatal(err)
	}
	s, err := NewLocalStore(storeDir, StoreOptions{})
	if err != nil {
		t.Fatal(err)
	}
	if err := ChopFile(context.Background(), name, idx.Chunks, s, 4, NewProgressBar("")); err != nil {
		t.Fatal(err)
	}
	return blob, idx, s
}

func demoC01Check(t *testing.T, out string, blob []byte) bool {
	t.Helper()
	got, err := ioutil.ReadFile(out)
	if err != nil {
		t.Fatal(err)
	}
	ok := true
	if len(got) != len(blob) {
		t.Errorf("AssembleFile reported success but the output is %d bytes long, the index says %d", len(got), len(blob))
		ok = false
	}
	n := len(got)
	if len(blob) < n {
		n = len(blob)
	}
	if !bytes.Equal(got[:n], blob[:n]) {
		first := 0
		for first < n && got[first] == blob[first] {
			first++
		}
		t.Errorf("AssembleFile reported success but the output differs from the blob, first at offset %d", first)
		ok = false
	}
	return ok
}

// The blob ends in a run of null chunks and the target already holds the first
// part of an interrupted earlier extraction. One worker, no seeds: deterministic.
func TestZZReplayNullSectionOverrun(t *testing.T) {
	dir := t.TempDir()
	blob, idx, s := demoC01Setup(t, dir, 3, nil)

	out := filepath.Join(dir, "out")
	if err := ioutil.WriteFile(out, blob[:50000], 0644); err != nil { // partial older content
		t.Fatal(err)
	}
	if _, err := AssembleFile(context.Background(), out, idx, s, nil, AssembleOptions{N: 1, InvalidSeedAction: InvalidSeedActionBailOut}); err != nil {
		t.Fatalf("AssembleFile failed: %v", err)
	}
	demoC01Check(t, out, blob)
}

// The null run is in the middle of the blob and the target holds garbage of the
// right length. With several workers the chunks right behind the null run are
// usually finished by other workers before the (long) null section is; whatever
// is written past the end of the null section then destroys them. Schedule
// dependent, hence repeated a few times; every round must be correct.
func TestDemoC01NullRunMidFile(t *testing.T) {
	dir := t.TempDir()
	rnd := rand.New(rand.NewSource(2))
	tail := make([]byte, 200000)
	rnd.Read(tail)
	blob, idx, s := demoC01Setup(t, dir, 99, tail)

	garbage := bytes.Repeat([]byte{0xAA}, len(blob))
	out := filepath.Join(dir, "out")
	for round := 0; round < 20; round++ {
		if err := ioutil.WriteFile(out, garbage, 0644); err != nil {
			t.Fatal(err)
		}
		if _, err := AssembleFile(context.Background(), out, idx, s, nil, AssembleOptions{N: 4, InvalidSeedAction: InvalidSeedActionBailOut}); err != nil {
			t.Fatalf("round %d: AssembleFile failed: %v", round, err)
		}
		if !demoC01Check(t, out, blob) {
			t.Fatalf("round %d: wrong output", round)
		}
	}
}
