package desync

import (
	"bytes"
	"crypto"
	"io/ioutil"
	"os"
	"path/filepath"
	"reflect"
	"syscall"
	"testing"
)

// limitedWriter behaves like a file on a device that runs out of space: it
// takes up to 'room' bytes and fails every write beyond that with ENOSPC.
type limitedWriter struct {
	room int
	buf  bytes.Buffer
}

func (w *limitedWriter) Write(p []byte) (int, error) {
	if len(p) <= w.room {
		w.room -= len(p)
		return w.buf.Write(p)
	}
	n := w.room
	w.buf.Write(p[:n])
	w.room = 0
	return n, syscall.ENOSPC
}

func demoC04Index(n int) Index {
	var flag uint64
	if Digest.Algorithm() == crypto.SHA512_256 {
		flag = CaFormatSHA512256
	}
	idx := Index{
		Index: FormatIndex{
			FeatureFlags: CaFormatExcludeNoDump | flag,
			ChunkSizeMin: 16,
			ChunkSizeAvg: 64,
			ChunkSizeMax: 256,
		},
	}
	var start uint64
	for i := 0; i < n; i++ {
		size := uint64(16 + i%200)
		id := Digest.Sum([]byte{byte(i), byte(i >> 8)})
		idx.Chunks = append(idx.Chunks, IndexChunk{ID: id, Start: start, Size: size})
		start += size
	}
	return idx
}

// Writing an index either fails, or what reached the writer reads back as
// the same index. Checked for every amount of room short of the full size.
func TestDemoC04WriteToReportsShortWrite(t *testing.T) {
	for _, chunks := range []int{0, 1, 3, 150} {
		idx := demoC04Index(chunks)
		full := new(bytes.Buffer)
		if _, err := idx.WriteTo(full); err != nil {
			t.Fatal(err)
		}
		for room := 0; room < full.Len(); room += 8 {
			w := &limitedWriter{room: room}
			_, err := idx.WriteTo(w)
			if err != nil {
				continue // the failure was reported, fine
			}
			// Success was reported, so the index must be there
			got, rerr := IndexFromReader(bytes.NewReader(w.buf.Bytes()))
			if rerr != nil {
				t.Fatalf("%d chunks, room for %d of %d bytes: WriteTo reported success but only %d bytes were written, reading them back: %v",
					chunks, room, full.Len(), w.buf.Len(), rerr)
			}
			if !reflect.DeepEqual(got.Chunks, idx.Chunks) && !(len(got.Chunks) == 0 && len(idx.Chunks) == 0) {
				t.Fatalf("%d chunks, room for %d bytes: WriteTo reported success but the table read back differs", chunks, room)
			}
		}
	}
}

// Same through the local index store, with the index file on a full device.
func TestDemoC04LocalIndexStoreOnFullDevice(t *testing.T) {
	if _, err := os.Stat("/dev/full"); err != nil {
		t.Skip("/dev/full not available")
	}
	dir, err := ioutil.TempDir("", "demoC04")
	if err != nil {
		t.Fatal(err)
	}
	defer os.RemoveAll(dir)
	if err := os.Symlink("/dev/full", filepath.Join(dir, "blob.caibx")); err != nil {
		t.Skip(err)
	}
	s, err := NewLocalIndexStore(dir)
	if err != nil {
		t.Fatal(err)
	}
	idx := demoC04Index(3)
	if err := s.StoreIndex("blob.caibx", idx); err == nil {
		t.Fatal("StoreIndex reported success although not a single byte of the index could be written (ENOSPC)")
	}
}
