package main

import (
	"bytes"
	"context"
	"io/ioutil"
	"os"
	"path/filepath"
	"testing"

	"github.com/folbricht/desync"
	"github.com/stretchr/testify/require"
)

// Demo for property C16 (verify half): "Verify reports exactly the chunks whose
// content does not match their ID and, with repair, removes exactly those", for
// all configurations incl. uncompressed mode.
//
// An uncompressed local store is configured in the config file (store-options,
// "uncompressed": true) under the path the user uses for it. One component of
// that path (not the last one) is a symlink, e.g. /data -> /mnt/disk1/data.
// `desync verify -s <path> [-r]` has to find, report and (with -r) remove the
// corrupt chunk, and must leave the good chunk alone.
func demoC16Verify(t *testing.T, viaSymlink bool) {
	realRoot := t.TempDir()
	require.NoError(t, os.MkdirAll(filepath.Join(realRoot, "data", "store"), 0755))

	location := filepath.Join(realRoot, "data", "store")
	if viaSymlink {
		linkRoot := t.TempDir()
		link := filepath.Join(linkRoot, "data")
		require.NoError(t, os.Symlink(filepath.Join(realRoot, "data"), link))
		location = filepath.Join(link, "store")
	}

	// Config file content: this store holds uncompressed chunks
	oldCfg, oldStderr := cfg, stderr
	defer func() { cfg, stderr = oldCfg, oldStderr }()
	cfg = Config{StoreOptions: map[string]desync.StoreOptions{
		location: {Uncompressed: true},
	}}

	// Populate the store with one good chunk, the same way any other command would
	options, err := cfg.GetStoreOptionsFor(location)
	require.NoError(t, err)
	require.True(t, options.Uncompressed)
	s, err := desync.NewLocalStore(location, options)
	require.NoError(t, err)
	good := desync.NewChunk([]byte("some perfectly fine chunk data"))
	require.NoError(t, s.StoreChunk(good))
	goodID := good.ID()
	goodFile := filepath.Join(location, goodID.String()[:4], goodID.String())
	_, err = os.Stat(goodFile)
	require.NoError(t, err, "good chunk should be stored uncompressed, without extension")

	// Plant a corrupt (uncompressed) chunk
	badID := "1234567890000000000000000000000000000000000000000000000000000000"
	badFile := filepath.Join(location, "1234", badID)
	require.NoError(t, os.MkdirAll(filepath.Dir(badFile), 0755))
	require.NoError(t, ioutil.WriteFile(badFile, []byte("content that does not hash to the id"), 0644))

	// verify without -r: has to report the bad chunk, and only that one
	cmd := newVerifyCommand(context.Background())
	cmd.SetArgs([]string{"-s", location})
	b := new(bytes.Buffer)
	stderr = b
	_, err = cmd.ExecuteC()
	require.NoError(t, err)
	t.Logf("verify output: %q", b.String())
	require.Contains(t, b.String(), badID, "verify did not report the corrupt chunk")
	require.NotContains(t, b.String(), goodID.String())
	_, err = os.Stat(badFile)
	require.NoError(t, err, "without -r nothing may be removed")

	// verify -r: has to report and remove it
	cmd = newVerifyCommand(context.Background())
	cmd.SetArgs([]string{"-s", location, "-r"})
	b = new(bytes.Buffer)
	stderr = b
	_, err = cmd.ExecuteC()
	require.NoError(t, err)
	t.Logf("verify -r output: %q", b.String())
	require.Contains(t, b.String(), badID, "verify -r did not report the corrupt chunk")
	_, err = os.Stat(badFile)
	require.True(t, os.IsNotExist(err), "verify -r left the corrupt chunk in the store")
	_, err = os.Stat(goodFile)
	require.NoError(t, err, "verify -r removed a valid chunk")
}

// Control: same store, addressed by a path without symlinks.
func TestDemoC16VerifyUncompressedConfigDirect(t *testing.T) {
	demoC16Verify(t, false)
}

// The actual trigger: a parent directory of the configured store path is a symlink.
func TestDemoC16VerifyUncompressedConfigViaSymlinkedParent(t *testing.T) {
	demoC16Verify(t, true)
}
