package desync

import (
	"bytes"
	"context"
	"crypto/rand"
	"encoding/hex"
	"io/ioutil"
	"net/http"
	"net/http/httptest"
	"net/url"
	"os"
	"path/filepath"
	"runtime"
	"strconv"
	"strings"
	"testing"
	"time"

	minio "github.com/minio/minio-go/v6"
	"github.com/minio/minio-go/v6/pkg/credentials"
)

const demoC03Bucket = "demobucket"

// demoC03S3Store puts the given blobs as chunks into an uncompressed local store,
// serves that directory the way an S3 endpoint would (GET /<bucket>/store/<key>)
// and returns a verifying S3 store (SkipVerify is not set, "uncompressed": true)
// that reads from it.
func demoC03S3Store(t *testing.T, blobs ...[]byte) (S3Store, []ChunkID, func()) {
	t.Helper()
	dir := t.TempDir()
	local, err := NewLocalStore(dir, StoreOptions{Uncompressed: true})
	if err != nil {
		t.Fatal(err)
	}
	var ids []ChunkID
	for _, b := range blobs {
		c := NewChunk(b)
		if err := local.StoreChunk(c); err != nil {
			t.Fatal(err)
		}
		ids = append(ids, c.ID())
	}

	prefix := "/" + demoC03Bucket + "/store/"
	srv := httptest.NewServer(http.HandlerFunc(func(w http.ResponseWriter, r *http.Request) {
		if r.Method != "GET" || !strings.HasPrefix(r.URL.Path, prefix) {
			w.WriteHeader(http.StatusBadRequest)
			return
		}
		b, err := ioutil.ReadFile(filepath.Join(dir, filepath.FromSlash(strings.TrimPrefix(r.URL.Path, prefix))))
		if err != nil {
			w.WriteHeader(http.StatusNotFound)
			return
		}
		w.Header().Set("Last-Modified", time.Now().UTC().Format(http.TimeFormat))
		w.Header().Set("Content-Type", "application/octet-stream")
		w.Header().Set("Content-Length", strconv.Itoa(len(b)))
		w.WriteHeader(http.StatusOK)
		w.Write(b)
	}))

	u, _ := url.Parse(srv.URL)
	endpoint := &url.URL{Scheme: "s3+http", Host: u.Host, Path: prefix}
	creds := credentials.NewStaticV4("demo", "demodemodemo", "")
	s, err := NewS3Store(endpoint, creds, "demo-region", StoreOptions{N: 16, Uncompressed: true}, minio.BucketLookupPath)
	if err != nil {
		srv.Close()
		t.Fatal(err)
	}
	return s, ids, srv.Close
}

func demoC03Random(t *testing.T, n int) []byte {
	b := make([]byte, n)
	if _, err := rand.Read(b); err != nil {
		t.Fatal(err)
	}
	return b
}

// A chunk that a verifying store handed out successfully has to hash to the ID
// it was requested under, and that has to be so still when the caller gets
// around to use it. Deterministic: two requests to the same store, one after the
// other on one goroutine, the first chunk still in use during the second.
func TestDemoC03ChunkFromS3StoreKeepsItsID(t *testing.T) {
	// sync.Pool is per-P: with one P the buffer one request put back is the one
	// the next request gets. (Makes no difference for the original code.)
	defer runtime.GOMAXPROCS(runtime.GOMAXPROCS(1))

	dataA := demoC03Random(t, 16*1024)
	dataB := demoC03Random(t, 16*1024)
	s, ids, done := demoC03S3Store(t, dataA, dataB)
	defer done()
	idA, idB := ids[0], ids[1]

	for attempt := 0; attempt < 20; attempt++ {
		a, err := s.GetChunk(idA)
		if err != nil {
			t.Fatalf("GetChunk(A): %v", err)
		}
		// Nothing is wrong with the stored object, it is what it should be
		if d, _ := a.Data(); Digest.Sum(d) != idA {
			t.Fatalf("chunk A invalid right after it was returned")
		}

		// Another request to the store while A is still in use
		b, err := s.GetChunk(idB)
		if err != nil {
			t.Fatalf("GetChunk(B): %v", err)
		}

		got, err := a.Data()
		if err != nil {
			t.Fatal(err)
		}
		if sum := Digest.Sum(got); sum != idA {
			what := "something else"
			if bytes.Equal(got, dataB) {
				what = "the content of chunk B"
			}
			t.Fatalf("attempt %d: GetChunk(%s) reported success, but the chunk that was delivered now holds %s (hashes to %s)",
				attempt, idA.String(), what, hex.EncodeToString(sum[:]))
		}
		if d, _ := b.Data(); Digest.Sum(d) != idB {
			t.Fatalf("attempt %d: chunk B does not hash to its ID", attempt)
		}
	}
}

// The same seen through a consumer: extracting a blob with several workers from
// a verifying S3 store must either fail or produce exactly the indexed blob.
// (Schedule-dependent: the workers overlap on their own, nothing is forced.)
func TestDemoC03ExtractFromS3(t *testing.T) {
	dir := t.TempDir()
	blob := demoC03Random(t, 24<<20)
	src := filepath.Join(dir, "blob")
	if err := ioutil.WriteFile(src, blob, 0644); err != nil {
		t.Fatal(err)
	}
	idx, _, err := IndexFromFile(context.Background(), src, 4, 16*1024, 64*1024, 256*1024, NewProgressBar(""))
	if err != nil {
		t.Fatal(err)
	}
	var blobs [][]byte
	for _, c := range idx.Chunks {
		blobs = append(blobs, blob[c.Start:c.Start+c.Size])
	}
	s, _, done := demoC03S3Store(t, blobs...)
	defer done()

	out := filepath.Join(dir, "out")
	for round := 0; round < 5; round++ {
		os.Remove(out)
		_, err := AssembleFile(context.Background(), out, idx, s, nil, AssembleOptions{N: 16})
		if err != nil {
			t.Logf("round %d: extract failed (acceptable, nothing wrong was reported as good): %v", round, err)
			continue
		}
		got, err := ioutil.ReadFile(out)
		if err != nil {
			t.Fatal(err)
		}
		if !bytes.Equal(got, blob) {
			bad := 0
			for _, c := range idx.Chunks {
				if Digest.Sum(got[c.Start:c.Start+c.Size]) != c.ID {
					bad++
				}
			}
			t.Fatalf("round %d: extract reported success, but the output differs from the indexed blob (%d of %d chunks wrong)",
				round, bad, len(idx.Chunks))
		}
	}
}
