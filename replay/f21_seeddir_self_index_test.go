package main

import (
	"context"
	"io/ioutil"
	"os"
	"path/filepath"
	"testing"

	"github.com/stretchr/testify/require"
)

// Demonstration for property C01 (extract reproduces the indexed blob and terminates
// successfully when the store holds every chunk and the supplied seeds are consistent).
//
// Scenario: a directory holds the new index "blob1.caibx" next to an OLDER/garbage version
// of the blob under the name "blob1". The user updates the blob with
//
//	desync extract [-k] -s <store> --seed-dir <ABSOLUTE dir> <RELATIVE dir>/blob1.caibx <RELATIVE dir>/blob1
//
// The seed directory therefore contains the very index that is being extracted, whose
// "blob" is the (stale) target itself. readSeedDirs must leave that index out, however the
// two paths are spelled. If it does not, the target is used as a seed for itself, fails
// validation and the extract aborts although the store has every chunk.
func TestZZReplaySeedDirContainsTargetIndex(t *testing.T) {
	expected, err := ioutil.ReadFile("testdata/blob1")
	require.NoError(t, err)
	index, err := ioutil.ReadFile("testdata/blob1.caibx")
	require.NoError(t, err)
	stale, err := ioutil.ReadFile("testdata/blob2") // "older version" of the target
	require.NoError(t, err)

	cwd, err := os.Getwd()
	require.NoError(t, err)

	for _, test := range []struct {
		name    string
		inPlace bool
		prior   []byte
	}{
		{"in-place, target holds an older version", true, stale},
		{"in-place, target holds garbage", true, []byte{0, 1, 2, 3}},
		{"via tempfile, target holds an older version", false, stale},
	} {
		t.Run(test.name, func(t *testing.T) {
			absDir, err := ioutil.TempDir("", "demoC01")
			require.NoError(t, err)
			defer os.RemoveAll(absDir)
			absDir, err = filepath.EvalSymlinks(absDir)
			require.NoError(t, err)
			require.True(t, filepath.IsAbs(absDir))

			// The same directory, spelled relative to the working directory
			relDir, err := filepath.Rel(cwd, absDir)
			require.NoError(t, err)
			require.False(t, filepath.IsAbs(relDir))

			require.NoError(t, ioutil.WriteFile(filepath.Join(absDir, "blob1.caibx"), index, 0644))
			require.NoError(t, ioutil.WriteFile(filepath.Join(absDir, "blob1"), test.prior, 0644))

			args := []string{"--store", "testdata/blob1.store", "--seed-dir", absDir}
			if test.inPlace {
				args = append(args, "--in-place")
			}
			args = append(args, filepath.Join(relDir, "blob1.caibx"), filepath.Join(relDir, "blob1"))

			cmd := newExtractCommand(context.Background())
			cmd.SetArgs(args)
			stderr = ioutil.Discard
			cmd.SetOutput(ioutil.Discard)
			_, err = cmd.ExecuteC()
			require.NoError(t, err, "store has every chunk and no invalid seed was supplied: extract must succeed")

			got, err := ioutil.ReadFile(filepath.Join(absDir, "blob1"))
			require.NoError(t, err)
			require.Equal(t, len(expected), len(got))
			require.True(t, string(expected) == string(got), "extracted blob differs from the original")
		})
	}
}
