package desync

import (
	"context"
	"io/ioutil"
	"os"
	"path/filepath"
	"testing"
)

// Property C17: verify-index must fail if the file does not have exactly the
// indexed length, in particular if bytes are missing. For block/character
// devices (and any other file whose size stat does not tell) VerifyIndex does
// not compare the length up-front, the only thing that notices missing bytes is
// the read of the chunk hitting the end of the file.

func demoC17Index(t *testing.T, blob string) Index {
	t.Helper()
	idx, _, err := IndexFromFile(context.Background(), blob, 4, 16*1024, 64*1024, 256*1024, NullProgressBar{})
	if err != nil {
		t.Fatal(err)
	}
	return idx
}

// An index of 1MiB (the tail of many disk images is blank like that) is
// verified against a device that has no data at all: every single byte is missing.
func TestDemoC17MissingBytesOnDevice(t *testing.T) {
	st, err := os.Stat("/dev/null")
	if err != nil || !isDevice(st.Mode()) {
		t.Skip("/dev/null is not available as a device")
	}
	blob := filepath.Join(t.TempDir(), "blob")
	if err := ioutil.WriteFile(blob, make([]byte, 1024*1024), 0644); err != nil {
		t.Fatal(err)
	}
	idx := demoC17Index(t, blob)
	if idx.Length() != 1024*1024 || len(idx.Chunks) == 0 {
		t.Fatalf("unexpected index: length %d, %d chunks", idx.Length(), len(idx.Chunks))
	}

	for _, n := range []int{1, 2, 10, 64} {
		// Sanity: the index matches the blob it was made from
		if err := VerifyIndex(context.Background(), blob, idx, n, NullProgressBar{}); err != nil {
			t.Fatalf("n=%d: matching blob rejected: %v", n, err)
		}
		// /dev/null has 0 bytes, the index describes 1MiB
		err := VerifyIndex(context.Background(), "/dev/null", idx, n, NullProgressBar{})
		if err == nil {
			t.Errorf("n=%d: VerifyIndex accepted /dev/null (0 bytes) for an index of %d bytes in %d chunks", n, idx.Length(), len(idx.Chunks))
		} else {
			t.Logf("n=%d: correctly rejected: %v", n, err)
		}
	}
}

// Same with a regular file: files in sysfs report a size of one page but have
// less content than that. The index is made from a blob that has the content of
// the sysfs file followed by zeros up to the reported size, so the length check
// passes and the sysfs file is missing all the bytes after its content.
func TestDemoC17MissingBytesRegularFile(t *testing.T) {
	var (
		name    string
		content []byte
		size    int64
	)
	for _, c := range []string{
		"/sys/kernel/mm/transparent_hugepage/enabled",
		"/sys/devices/system/cpu/online",
		"/sys/devices/system/cpu/possible",
		"/sys/kernel/uevent_seqnum",
	} {
		st, err := os.Stat(c)
		if err != nil || !st.Mode().IsRegular() {
			continue
		}
		b, err := ioutil.ReadFile(c)
		if err != nil || len(b) == 0 || int64(len(b)) >= st.Size() {
			continue
		}
		name, content, size = c, b, st.Size()
		break
	}
	if name == "" {
		t.Skip("no suitable sysfs file available")
	}
	padded := make([]byte, size)
	copy(padded, content)
	blob := filepath.Join(t.TempDir(), "blob")
	if err := ioutil.WriteFile(blob, padded, 0644); err != nil {
		t.Fatal(err)
	}
	idx := demoC17Index(t, blob)

	for _, n := range []int{1, 10} {
		if err := VerifyIndex(context.Background(), blob, idx, n, NullProgressBar{}); err != nil {
			t.Fatalf("n=%d: matching blob rejected: %v", n, err)
		}
		err := VerifyIndex(context.Background(), name, idx, n, NullProgressBar{})
		if err == nil {
			t.Errorf("n=%d: VerifyIndex accepted %s (%d bytes of content) for an index of %d bytes", n, name, len(content), idx.Length())
		} else {
			t.Logf("n=%d: correctly rejected: %v", n, err)
		}
	}
}
