package desync

// Replay for the decoder safety obligations (C19): element headers with a size field below the
// header size, equal to it, or far beyond the input must yield an error, not a panic or an
// allocation unrelated to the input.

import (
	"bytes"
	"encoding/binary"
	"fmt"
	"runtime"
	"testing"
)

func zzHeader(size, typ uint64, rest ...byte) []byte {
	b := make([]byte, 16)
	binary.LittleEndian.PutUint64(b[0:8], size)
	binary.LittleEndian.PutUint64(b[8:16], typ)
	return append(b, rest...)
}

func TestZZReplayDecoderSizes(t *testing.T) {
	var hits []string
	try := func(name string, in []byte) {
		defer func() {
			if r := recover(); r != nil {
				hits = append(hits, fmt.Sprintf("%s: panic: %v", name, r))
			}
		}()
		var before, after runtime.MemStats
		runtime.ReadMemStats(&before)
		d := NewFormatDecoder(bytes.NewReader(in))
		_, err := d.Next()
		runtime.ReadMemStats(&after)
		if grown := after.TotalAlloc - before.TotalAlloc; grown > 64<<20 {
			hits = append(hits, fmt.Sprintf("%s: %d MiB allocated for %d input bytes (err=%v)", name, grown>>20, len(in), err))
		}
	}
	types := map[string]uint64{"user": CaFormatUser, "group": CaFormatGroup, "xattr": CaFormatXAttr, "selinux": CaFormatSELinux,
		"filename": CaFormatFilename, "symlink": CaFormatSymlink, "fcaps": CaFormatFCaps, "acluser": CaFormatACLUser,
		"aclgroup": CaFormatACLGroup, "goodbye": CaFormatGoodbye}
	for name, typ := range types {
		try(name+" size=5", zzHeader(5, typ, make([]byte, 64)...))
		try(name+" size=16", zzHeader(16, typ, make([]byte, 64)...))
		try(name+" size=32", zzHeader(32, typ, make([]byte, 64)...))
		try(name+" size=1<<31", zzHeader(1<<31, typ, make([]byte, 64)...))
	}
	if len(hits) > 0 {
		if len(hits) > 6 {
			hits = append(hits[:6], fmt.Sprintf("... %d more", len(hits)-6))
		}
		fmt.Printf("REPLAY-CONFIRMED: %v\n", hits)
	} else {
		fmt.Println("REPLAY-NOT-REPRODUCED")
	}
}

func TestZZReplayProtocolMessageSize(t *testing.T) {
	var hit string
	func() {
		defer func() {
			if r := recover(); r != nil {
				hit = fmt.Sprintf("panic: %v", r)
			}
		}()
		in := make([]byte, 32)
		binary.LittleEndian.PutUint64(in[0:8], 1<<31) // message length far beyond the input
		var before, after runtime.MemStats
		runtime.ReadMemStats(&before)
		p := NewProtocol(bytes.NewReader(in), &bytes.Buffer{})
		_, err := p.ReadMessage()
		runtime.ReadMemStats(&after)
		if grown := after.TotalAlloc - before.TotalAlloc; grown > 64<<20 {
			hit = fmt.Sprintf("%d MiB allocated for a 32 byte input (err=%v)", grown>>20, err)
		}
	}()
	if hit != "" {
		fmt.Printf("REPLAY-CONFIRMED: Protocol.ReadMessage: %s\n", hit)
	} else {
		fmt.Println("REPLAY-NOT-REPRODUCED")
	}
}
