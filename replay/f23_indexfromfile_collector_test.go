package desync

import (
	"bytes"
	"context"
	"fmt"
	"math/rand"
	"os"
	"path/filepath"
	"runtime"
	"testing"
)

// checkIndexDescribesInput verifies that the index describes the input exactly:
// chunks are contiguous from 0, cover exactly len(data) bytes, and every range
// hashes to its ID. It does so on the in-memory index and on the index as a
// consumer would see it after it was written out and read back.
func checkIndexDescribesInput(idx Index, data []byte) error {
	check := func(what string, idx Index) error {
		var pos uint64
		for i, c := range idx.Chunks {
			if c.Start != pos {
				return fmt.Errorf("%s: chunk %d/%d starts at %d, expected %d (not contiguous)", what, i, len(idx.Chunks), c.Start, pos)
			}
			if c.Start+c.Size > uint64(len(data)) {
				return fmt.Errorf("%s: chunk %d/%d [%d,%d) is beyond the end of the input (%d bytes)", what, i, len(idx.Chunks), c.Start, c.Start+c.Size, len(data))
			}
			if id := Digest.Sum(data[c.Start : c.Start+c.Size]); id != c.ID {
				return fmt.Errorf("%s: chunk %d/%d [%d,%d) does not hash to its ID", what, i, len(idx.Chunks), c.Start, c.Start+c.Size)
			}
			pos += c.Size
		}
		if pos != uint64(len(data)) {
			return fmt.Errorf("%s: chunks cover %d bytes, input has %d", what, pos, len(data))
		}
		if idx.Length() != int64(len(data)) {
			return fmt.Errorf("%s: index length %d, input has %d", what, idx.Length(), len(data))
		}
		return nil
	}
	if err := check("in-memory index", idx); err != nil {
		return err
	}
	var buf bytes.Buffer
	if _, err := idx.WriteTo(&buf); err != nil {
		return err
	}
	back, err := IndexFromReader(&buf)
	if err != nil {
		return fmt.Errorf("reading index back: %v", err)
	}
	return check("index after write+read", back)
}

func demoC06Input(t *testing.T, size int) (string, []byte) {
	data := make([]byte, size)
	rand.New(rand.NewSource(6)).Read(data)
	name := filepath.Join(t.TempDir(), "input")
	if err := os.WriteFile(name, data, 0644); err != nil {
		t.Fatal(err)
	}
	return name, data
}

// On a single CPU the first chunk worker typically runs through the whole file
// before the following workers have put anything into their buckets, so it
// reaches the end of the stream without ever syncing with them.
func TestZZReplayC06MakeIndexSingleCPU(t *testing.T) {
	defer runtime.GOMAXPROCS(runtime.GOMAXPROCS(1))

	name, data := demoC06Input(t, int(8*ChunkSizeMaxDefault+12345))
	for round := 0; round < 5; round++ {
		for _, n := range []int{1, 3, 4, 8} {
			idx, _, err := IndexFromFile(context.Background(), name, n,
				ChunkSizeMinDefault, ChunkSizeAvgDefault, ChunkSizeMaxDefault, NewProgressBar(""))
			if err != nil {
				t.Fatal(err)
			}
			if err := checkIndexDescribesInput(idx, data); err != nil {
				t.Fatalf("round %d, n=%d: IndexFromFile reported success but: %v", round, n, err)
			}
		}
	}
}

// Same, end to end like 'desync make -s': index, chop into a store, write the
// index, read it back and check everything it references is in the store and
// that it reassembles to the input.
func TestZZReplayC06MakeChopRoundtripSingleCPU(t *testing.T) {
	defer runtime.GOMAXPROCS(runtime.GOMAXPROCS(1))

	name, data := demoC06Input(t, int(6*ChunkSizeMaxDefault+777))
	s, err := NewLocalStore(t.TempDir(), StoreOptions{})
	if err != nil {
		t.Fatal(err)
	}
	idx, _, err := IndexFromFile(context.Background(), name, 4,
		ChunkSizeMinDefault, ChunkSizeAvgDefault, ChunkSizeMaxDefault, NewProgressBar(""))
	if err != nil {
		t.Fatal(err)
	}
	if err := ChopFile(context.Background(), name, idx.Chunks, s, 4, NewProgressBar("")); err != nil {
		t.Fatal(err)
	}
	var buf bytes.Buffer
	if _, err := idx.WriteTo(&buf); err != nil {
		t.Fatal(err)
	}
	back, err := IndexFromReader(&buf)
	if err != nil {
		t.Fatal(err)
	}
	var out []byte
	for _, c := range back.Chunks {
		chunk, err := s.GetChunk(c.ID)
		if err != nil {
			t.Fatal(err)
		}
		b, err := chunk.Data()
		if err != nil {
			t.Fatal(err)
		}
		out = append(out, b...)
	}
	if back.Length() != int64(len(data)) {
		t.Errorf("make reported success, but the index it wrote has length %d, the input has %d bytes", back.Length(), len(data))
	}
	if !bytes.Equal(out, data) {
		t.Errorf("make reported success, but index+store reassemble to %d bytes that differ from the %d byte input", len(out), len(data))
	}
}
