package desync

// Replays for the sparse-file obligations (C10): loadChunk's "nil => loaded" and the
// index-range safety obligations.

import (
	"bytes"
	"errors"
	"fmt"
	"path/filepath"
	"testing"
)

type zzFlakyStore struct {
	data  map[ChunkID][]byte
	fails int
}

func (s *zzFlakyStore) GetChunk(id ChunkID) (*Chunk, error) {
	if s.fails > 0 {
		s.fails--
		return nil, errors.New("transient store failure")
	}
	b, ok := s.data[id]
	if !ok {
		return nil, ChunkMissing{id}
	}
	return NewChunkWithID(id, b, false)
}
func (s *zzFlakyStore) HasChunk(id ChunkID) (bool, error) { _, ok := s.data[id]; return ok, nil }
func (s *zzFlakyStore) Close() error                      { return nil }
func (s *zzFlakyStore) String() string                    { return "flaky" }

func zzSparseBlob(n, size int) ([]byte, Index, *zzFlakyStore) {
	data := make([]byte, n*size)
	for i := range data {
		data[i] = byte(i*13 + 1)
	}
	var idx Index
	st := &zzFlakyStore{data: map[ChunkID][]byte{}}
	for i := 0; i < n; i++ {
		b := data[i*size : (i+1)*size]
		id := Digest.Sum(b)
		st.data[id] = b
		idx.Chunks = append(idx.Chunks, IndexChunk{ID: id, Start: uint64(i * size), Size: uint64(size)})
	}
	idx.Index.ChunkSizeMax = uint64(size)
	return data, idx, st
}

func TestZZReplaySparseStaleZeros(t *testing.T) {
	data, idx, st := zzSparseBlob(4, 64)
	st.fails = 1
	sf, err := NewSparseFile(filepath.Join(t.TempDir(), "cache"), idx, st, SparseFileOptions{})
	if err != nil {
		t.Fatal(err)
	}
	h, err := sf.Open()
	if err != nil {
		t.Fatal(err)
	}
	buf := make([]byte, 64)
	if _, err := h.ReadAt(buf, 0); err == nil {
		t.Fatal("harness broken: first read should fail")
	}
	n, err := h.ReadAt(buf, 0)
	if err == nil && !bytes.Equal(buf[:n], data[:n]) {
		fmt.Printf("REPLAY-CONFIRMED: after one store failure the second ReadAt returned %d bytes with nil error that differ from the blob (stale zeros)\n", n)
	} else {
		fmt.Println("REPLAY-NOT-REPRODUCED")
	}
}

func TestZZReplaySparseRangePanics(t *testing.T) {
	var hits []string
	try := func(name string, f func()) {
		defer func() {
			if r := recover(); r != nil {
				hits = append(hits, fmt.Sprintf("%s: panic: %v", name, r))
			}
		}()
		f()
	}
	try("empty index, 1-byte read", func() {
		sf, err := NewSparseFile(filepath.Join(t.TempDir(), "cache"), Index{}, &zzFlakyStore{data: map[ChunkID][]byte{}}, SparseFileOptions{})
		if err != nil {
			t.Fatal(err)
		}
		h, _ := sf.Open()
		h.ReadAt(make([]byte, 1), 0)
	})
	try("8 chunks, zero-length read at end", func() {
		data, idx, st := zzSparseBlob(8, 64)
		sf, err := NewSparseFile(filepath.Join(t.TempDir(), "cache"), idx, st, SparseFileOptions{})
		if err != nil {
			t.Fatal(err)
		}
		h, _ := sf.Open()
		h.ReadAt(nil, int64(len(data)))
	})
	if len(hits) > 0 {
		fmt.Printf("REPLAY-CONFIRMED: %v\n", hits)
	} else {
		fmt.Println("REPLAY-NOT-REPRODUCED")
	}
}
