package desync

// Replay for the digest flag of IndexFromFile (C02, `desync make` on a catar): the feature flags of the
// archive's first entry are merged into the index; catar archives written by desync/casync carry the
// SHA512/256 bit, so with the SHA256 digest configured the produced index was flagged with the wrong
// digest and desync's own reader rejected it.

import (
	"bytes"
	"context"
	"fmt"
	"os"
	"path/filepath"
	"testing"
)

func TestZZReplayIndexFromFileDigestFlag(t *testing.T) {
	old := Digest
	defer func() { Digest = old }()
	Digest = SHA256{}
	dir := t.TempDir()
	src := filepath.Join(dir, "src")
	if err := os.MkdirAll(src, 0o755); err != nil {
		t.Fatal(err)
	}
	if err := os.WriteFile(filepath.Join(src, "a.txt"), bytes.Repeat([]byte("desync "), 4000), 0o644); err != nil {
		t.Fatal(err)
	}
	catar := filepath.Join(dir, "src.catar")
	w, err := os.Create(catar)
	if err != nil {
		t.Fatal(err)
	}
	if err := Tar(context.Background(), w, NewLocalFS(src, LocalFSOptions{})); err != nil {
		t.Fatal(err)
	}
	w.Close()
	idx, _, err := IndexFromFile(context.Background(), catar, 2, ChunkSizeMinDefault, ChunkSizeAvgDefault, ChunkSizeMaxDefault, NullProgressBar{})
	if err != nil {
		t.Fatal(err)
	}
	var b bytes.Buffer
	if _, err := idx.WriteTo(&b); err != nil {
		t.Fatal(err)
	}
	_, rerr := IndexFromReader(&b)
	t.Logf("flags %#x, reading the produced index back: %v", idx.Index.FeatureFlags, rerr)
	if idx.Index.FeatureFlags&CaFormatSHA512256 != 0 || rerr != nil {
		fmt.Printf("REPLAY-CONFIRMED: IndexFromFile on a catar with the SHA256 digest configured flags the index SHA512/256 (flags %#x); reading it back: %v\n", idx.Index.FeatureFlags, rerr)
	}
}
