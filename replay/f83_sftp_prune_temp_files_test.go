package desync

import (
	"bytes"
	"context"
	"io"
	"io/ioutil"
	"net/url"
	"os"
	"path/filepath"
	"strings"
	"testing"

	"github.com/pkg/sftp"
)

// Defect in the UNCHANGED code: LocalStore.Verify relies on GetChunk returning
// ChunkInvalid, but GetChunk passes s.Opt.SkipVerify on to NewChunkFromStorage. If
// the store options in effect have skip-verify set (runVerify takes them unmodified
// from the "store-options" section of the config, where skip-verify is a normal
// setting for a store that is also served by a chunk-server / used as a proxy cache),
// verify reads every chunk, checks nothing, reports nothing and with repair removes
// nothing - and returns nil.
func TestDefectC16VerifyWithSkipVerifyOptionFindsNothing(t *testing.T) {
	dir, err := ioutil.TempDir("", "defectC16")
	if err != nil {
		t.Fatal(err)
	}
	defer os.RemoveAll(dir)

	// What "store-options": {"<dir>": {"skip-verify": true}} yields
	s, err := NewLocalStore(dir, StoreOptions{SkipVerify: true})
	if err != nil {
		t.Fatal(err)
	}
	good := NewChunk([]byte("good chunk"))
	if err := s.StoreChunk(good); err != nil {
		t.Fatal(err)
	}
	// Plant a chunk whose content does not match its ID
	badID := "1234567890000000000000000000000000000000000000000000000000000000"
	badFile := filepath.Join(dir, "1234", badID+CompressedChunkExt)
	if err := os.MkdirAll(filepath.Dir(badFile), 0755); err != nil {
		t.Fatal(err)
	}
	if err := ioutil.WriteFile(badFile, []byte("invalid"), 0644); err != nil {
		t.Fatal(err)
	}

	out := new(bytes.Buffer)
	if err := s.Verify(context.Background(), 2, true, out); err != nil {
		t.Fatal(err)
	}
	if !strings.Contains(out.String(), badID) {
		t.Errorf("verify returned nil but did not report the invalid chunk %s (output %q)", badID, out.String())
	}
	if _, err := os.Stat(badFile); err == nil {
		t.Errorf("verify with repair returned nil but the invalid chunk %s is still in the store", badFile)
	}
}

// Second observation on the UNCHANGED code: SFTPStoreBase.StoreObject uploads into
// "<chunk file name><random number>" and renames afterwards. A client that dies (or
// whose f.Close() fails - that path returns without removing the temp file) leaves
// such a file behind. SFTPStore.Prune only looks at names ending in the chunk
// extension, so these abandoned temporary chunk files are never removed while prune
// reports success. (LocalStore.Prune does clean up its '.tmp-cacnk*' files.)
func TestDefectC16SFTPPruneLeavesAbandonedTempFiles(t *testing.T) {
	dir, err := ioutil.TempDir("", "defectC16")
	if err != nil {
		t.Fatal(err)
	}
	defer os.RemoveAll(dir)
	dir, _ = filepath.EvalSymlinks(dir)

	s := defectC16SFTPStore(t, dir, StoreOptions{})
	c := NewChunk([]byte("some chunk"))
	if err := s.StoreChunk(c); err != nil {
		t.Fatal(err)
	}
	base := <-s.pool
	name := base.nameFromID(c.ID())
	s.pool <- base
	// What an interrupted StoreObject leaves behind
	tmp := name + "5577006791947779410"
	if err := ioutil.WriteFile(tmp, []byte("partial upload"), 0644); err != nil {
		t.Fatal(err)
	}
	if err := s.Prune(context.Background(), map[ChunkID]struct{}{}); err != nil {
		t.Fatal(err)
	}
	if _, err := os.Stat(name); err == nil {
		t.Errorf("unreferenced chunk %s still there", name)
	}
	if _, err := os.Stat(tmp); err == nil {
		t.Errorf("prune returned nil but the abandoned temporary chunk file %s is still there", tmp)
	}
}

type defectC16Pipe struct {
	io.Reader
	io.WriteCloser
}

func defectC16SFTPStore(t *testing.T, dir string, opt StoreOptions) *SFTPStore {
	t.Helper()
	c2sR, c2sW := io.Pipe()
	s2cR, s2cW := io.Pipe()
	server, err := sftp.NewServer(defectC16Pipe{c2sR, s2cW})
	if err != nil {
		t.Fatal(err)
	}
	go server.Serve()
	client, err := sftp.NewClientPipe(s2cR, c2sW)
	if err != nil {
		t.Fatal(err)
	}
	t.Cleanup(func() { c2sW.Close(); s2cW.Close() })
	loc, _ := url.Parse("sftp://localhost" + dir)
	b := &SFTPStoreBase{location: loc, path: dir + "/", client: client, opt: opt}
	s := &SFTPStore{pool: make(chan *SFTPStoreBase, 1), location: loc, n: 1, converters: opt.converters()}
	s.pool <- b
	return s
}
