package main

import (
	"context"
	"io/ioutil"
	"net/http"
	"net/http/httptest"
	"os"
	"path"
	"path/filepath"
	"sync"
	"testing"

	"github.com/stretchr/testify/require"
)

// Property C08, last clause: an in-place extract (-k) that died can be re-run
// to completion with correct output without fetching again the chunks it had
// already written.
//
// The chunk store is an HTTP server that counts the chunks it hands out. While
// serving the killAt-th chunk of the first run it cancels the command's context,
// which is exactly what main() does when the process receives SIGINT/SIGTERM.
// The second run is the user re-running the same command.
func TestDemoC08InPlaceExtractResumesAfterDeath(t *testing.T) {
	const killAt = 5

	expected, err := ioutil.ReadFile("testdata/blob1")
	require.NoError(t, err)

	outDir, err := ioutil.TempDir("", "")
	require.NoError(t, err)
	defer os.RemoveAll(outDir)
	out := filepath.Join(outDir, "out") // does not exist before the first run

	var (
		mu      sync.Mutex
		fetched []string // chunk files handed out, in order, for the current run
		onFetch func(n int)
	)
	files := http.FileServer(http.Dir("testdata/blob1.store"))
	ts := httptest.NewServer(http.HandlerFunc(func(w http.ResponseWriter, r *http.Request) {
		if r.Method == http.MethodGet {
			mu.Lock()
			fetched = append(fetched, path.Base(r.URL.Path))
			n := len(fetched)
			f := onFetch
			mu.Unlock()
			if f != nil {
				f(n)
			}
		}
		files.ServeHTTP(w, r)
	}))
	defer ts.Close()

	run := func(ctx context.Context) error {
		cmd := newExtractCommand(ctx)
		cmd.SetArgs([]string{"--in-place", "-n", "1", "--store", ts.URL, "testdata/blob1.caibx", out})
		stderr = ioutil.Discard
		cmd.SetOutput(ioutil.Discard)
		_, err := cmd.ExecuteC()
		return err
	}

	// First run: the process is told to terminate while chunk number killAt is
	// being fetched.
	ctx, cancel := context.WithCancel(context.Background())
	defer cancel()
	onFetch = func(n int) {
		if n == killAt {
			cancel()
		}
	}
	err = run(ctx)
	require.Error(t, err, "the first run was terminated, it must not report success")

	mu.Lock()
	written := append([]string{}, fetched...) // with -n 1 every chunk handed out was written before the command returned
	fetched = nil
	onFetch = nil
	mu.Unlock()
	require.GreaterOrEqual(t, len(written), killAt)
	t.Logf("first run died after fetching and writing %d chunks", len(written))

	if _, err := os.Stat(out); err != nil {
		t.Errorf("the in-place target is gone after the terminated run: %v", err)
	}

	// Second run: same command again, nothing interferes.
	require.NoError(t, run(context.Background()))

	got, err := ioutil.ReadFile(out)
	require.NoError(t, err)
	require.Equal(t, expected, got, "re-run produced wrong output")

	mu.Lock()
	again := make(map[string]bool)
	for _, name := range fetched {
		again[name] = true
	}
	total := len(fetched)
	mu.Unlock()
	var refetched []string
	for _, name := range written {
		if again[name] {
			refetched = append(refetched, name)
		}
	}
	t.Logf("second run fetched %d chunks", total)
	if len(refetched) != 0 {
		t.Errorf("the re-run fetched %d of the %d chunks again that the first run had already written: %v",
			len(refetched), len(written), refetched)
	}
}
