package desync

import (
	"bytes"
	"math/rand"
	"net/http/httptest"
	"net/url"
	"testing"
)

// Demonstration for C14: chunks must arrive unchanged across every combination
// of client/server compression settings, or the request must fail. Here the
// client is configured for an uncompressed HTTP store (it asks for
// /<prefix>/<id> without extension and treats the response body as plain chunk
// data) but the chunk server serves compressed chunks. The client does not
// verify what it reads, which is how a proxying hop (chunk-server, whose
// --skip-verify-read defaults to true, or a store with "skip-verify": true in
// the config) is set up. The only thing that keeps zstd bytes from being handed
// out as plain chunk data is the chunk server refusing the request.
func TestDemoC14UncompressedClientCompressedServer(t *testing.T) {
	upstream, err := NewLocalStore(t.TempDir(), StoreOptions{})
	if err != nil {
		t.Fatal(err)
	}

	// Somewhat compressible data so that plain and storage form differ clearly
	rnd := rand.New(rand.NewSource(14))
	dataIn := make([]byte, 16*1024)
	for i := range dataIn {
		dataIn[i] = byte('a' + rnd.Intn(4))
	}
	chunkIn := NewChunk(dataIn)
	id := chunkIn.ID()
	if err := upstream.StoreChunk(chunkIn); err != nil {
		t.Fatal(err)
	}

	// Chunk server without -u: serves (and expects) compressed chunks
	srv := httptest.NewServer(NewHTTPHandler(upstream, false, true, Converters{Compressor{}}, ""))
	defer srv.Close()
	u, _ := url.Parse(srv.URL)

	// Correctly configured client works, as a sanity check
	good, err := NewRemoteHTTPStore(u, StoreOptions{ErrorRetry: 1})
	if err != nil {
		t.Fatal(err)
	}
	c, err := good.GetChunk(id)
	if err != nil {
		t.Fatalf("matching client: %v", err)
	}
	if b, _ := c.Data(); !bytes.Equal(b, dataIn) {
		t.Fatal("matching client: data differs")
	}

	// Mis-matched client: uncompressed, not verifying (a proxy hop)
	u2, _ := url.Parse(srv.URL)
	proxyHop, err := NewRemoteHTTPStore(u2, StoreOptions{Uncompressed: true, SkipVerify: true, ErrorRetry: 1})
	if err != nil {
		t.Fatal(err)
	}
	chunk, err := proxyHop.GetChunk(id)
	if err != nil {
		// That's the right outcome: the transport refuses instead of delivering something else
		t.Logf("request refused as expected: %v", err)
		return
	}
	got, err := chunk.Data()
	if err != nil {
		t.Fatalf("GetChunk succeeded but the chunk has no data: %v", err)
	}
	if !bytes.Equal(got, dataIn) {
		t.Fatalf("GetChunk(%s) reported success but delivered %d bytes that differ from the %d bytes stored (zstd frame handed out as plain chunk data)", id.String(), len(got), len(dataIn))
	}
}

// Same configuration seen end to end through a second, uncompressed chunk server
// that proxies the first one with the wrong store option. Its clients must not
// be given a 200 with a body that isn't the chunk.
func TestDemoC14ProxyChain(t *testing.T) {
	upstream, err := NewLocalStore(t.TempDir(), StoreOptions{})
	if err != nil {
		t.Fatal(err)
	}
	dataIn := bytes.Repeat([]byte("desync chunk payload "), 500)
	chunkIn := NewChunk(dataIn)
	id := chunkIn.ID()
	if err := upstream.StoreChunk(chunkIn); err != nil {
		t.Fatal(err)
	}

	a := httptest.NewServer(NewHTTPHandler(upstream, false, true, Converters{Compressor{}}, ""))
	defer a.Close()
	ua, _ := url.Parse(a.URL)
	hop, err := NewRemoteHTTPStore(ua, StoreOptions{Uncompressed: true, SkipVerify: true, ErrorRetry: 1})
	if err != nil {
		t.Fatal(err)
	}

	// chunk-server -u in front of it
	b := httptest.NewServer(NewHTTPHandler(hop, false, true, nil, ""))
	defer b.Close()
	ub, _ := url.Parse(b.URL)
	client, err := NewRemoteHTTPStore(ub, StoreOptions{Uncompressed: true, SkipVerify: true, ErrorRetry: 1})
	if err != nil {
		t.Fatal(err)
	}
	chunk, err := client.GetChunk(id)
	if err != nil {
		t.Logf("request failed as expected: %v", err)
		return
	}
	got, _ := chunk.Data()
	if !bytes.Equal(got, dataIn) {
		t.Fatalf("chain reported success but delivered %d bytes that differ from the %d bytes stored", len(got), len(dataIn))
	}
}
