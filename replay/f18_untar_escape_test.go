package desync

// Replay for the confinement obligations (C18): an archive whose filename element is
// "../escaped" must not create anything outside the destination directory.

import (
	"bytes"
	"context"
	"fmt"
	"os"
	"path/filepath"
	"testing"
	"time"
)

func zzHostileArchive(name string) []byte {
	var buf bytes.Buffer
	enc := NewFormatEncoder(&buf)
	entry := func(mode os.FileMode) FormatEntry {
		return FormatEntry{FormatHeader: FormatHeader{Size: 64, Type: CaFormatEntry}, FeatureFlags: TarFeatureFlags, Mode: mode, MTime: time.Unix(1, 0)}
	}
	enc.Encode(entry(os.ModeDir | 0755))
	enc.Encode(FormatFilename{FormatHeader: FormatHeader{Size: uint64(16 + len(name) + 1), Type: CaFormatFilename}, Name: name})
	enc.Encode(entry(0644))
	enc.Encode(FormatPayload{FormatHeader: FormatHeader{Size: 16 + 5, Type: CaFormatPayload}, Data: bytes.NewReader([]byte("pwned"))})
	return buf.Bytes()
}

func TestZZReplayUntarEscape(t *testing.T) {
	parent := t.TempDir()
	dest := filepath.Join(parent, "dest")
	os.MkdirAll(dest, 0o755)
	var hits []string
	for _, name := range []string{"../escaped", "a/../../escaped2", ".."} {
		fs := NewLocalFS(dest, LocalFSOptions{NoSameOwner: true, NoSamePermissions: true})
		err := UnTar(context.Background(), bytes.NewReader(zzHostileArchive(name)), fs)
		entries, _ := os.ReadDir(parent)
		for _, e := range entries {
			if e.Name() != "dest" {
				hits = append(hits, fmt.Sprintf("name %q: created %s outside the destination (err=%v)", name, e.Name(), err))
				os.RemoveAll(filepath.Join(parent, e.Name()))
			}
		}
		if _, serr := os.Stat(dest); serr != nil {
			hits = append(hits, fmt.Sprintf("name %q: destination directory itself was replaced/removed (err=%v)", name, err))
			os.MkdirAll(dest, 0o755)
		}
	}
	if len(hits) > 0 {
		fmt.Printf("REPLAY-CONFIRMED: %v\n", hits)
	} else {
		fmt.Println("REPLAY-NOT-REPRODUCED")
	}
}
