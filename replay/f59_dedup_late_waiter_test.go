package desync

// Demonstration for property C12 (request de-duplication is safe under every
// interleaving), seventh round.
//
// Schedule exercised (same shape for reads and writes):
//
//   1. caller A becomes owner of the in-flight request R1 for a chunk ID and
//      goes upstream (upstream call 1, held at a gate);
//   2. caller W arrives, is de-duplicated onto R1 and blocks waiting for it;
//   3. upstream call 1 completes; A publishes the result, drops R1 from the
//      queue, returns and immediately issues another request for the same ID
//      (a retry / the next file that contains the same chunk): A becomes owner
//      of a fresh record R2 and goes upstream again (upstream call 2, held);
//   4. only now does W, which was woken in step 3, get to run and return;
//   5. caller C arrives while upstream call 2 is still in flight.
//
// Required: C is de-duplicated onto R2, so upstream call 2 is the only request
// for that chunk ID and kind in flight; a reader arriving in step 5 of the
// write variant waits for the in-flight write and sees the chunk.
//
// Run from the worktree root:
//   go test -mod=mod -vet=off -count=1 -run 'TestDemoC12' -v .

import (
	"runtime"
	"sync"
	"sync/atomic"
	"testing"
	"time"
)

const (
	demoC12Settle  = 20 * time.Millisecond
	demoC12Timeout = 300 * time.Millisecond
	demoC12Rounds  = 10
)

func demoC12Max(max *int32, cur int32) {
	for {
		m := atomic.LoadInt32(max)
		if cur <= m || atomic.CompareAndSwapInt32(max, m, cur) {
			return
		}
	}
}

func TestDemoC12LateWaiterGetChunk(t *testing.T) {
	// One P makes step 3 -> 4 ordering reliable: the woken waiter only runs once
	// the previous owner blocks in its next upstream call.
	defer runtime.GOMAXPROCS(runtime.GOMAXPROCS(1))
	for round := 0; round < demoC12Rounds && !t.Failed(); round++ {
		demoC12Get(t, round)
	}
}

func demoC12Get(t *testing.T, round int) {
	id := ChunkID{12, byte(round)}
	var calls, inflight, maxInflight int32
	gates := []chan struct{}{make(chan struct{}), make(chan struct{}), make(chan struct{}), make(chan struct{})}
	entered := make(chan int32, 8)
	store := &TestStore{
		GetChunkFunc: func(ChunkID) (*Chunk, error) {
			n := atomic.AddInt32(&calls, 1)
			demoC12Max(&maxInflight, atomic.AddInt32(&inflight, 1))
			entered <- n
			<-gates[n-1]
			atomic.AddInt32(&inflight, -1)
			return NewChunk([]byte{byte(n)}), nil
		},
	}
	q := NewDedupQueue(store)

	var wg sync.WaitGroup
	// A: two requests for the same chunk, back to back
	wg.Add(1)
	go func() {
		defer wg.Done()
		q.GetChunk(id)
		q.GetChunk(id)
	}()
	<-entered // upstream call 1 in flight

	// W: de-duplicated onto the first request
	wg.Add(1)
	go func() {
		defer wg.Done()
		q.GetChunk(id)
	}()
	time.Sleep(demoC12Settle)

	close(gates[0]) // upstream call 1 completes
	<-entered       // A's second request is in flight upstream now
	time.Sleep(demoC12Settle) // W returns from its call

	// C: arrives while upstream call 2 is in flight
	wg.Add(1)
	go func() {
		defer wg.Done()
		q.GetChunk(id)
	}()
	select {
	case n := <-entered:
		t.Errorf("round %d: upstream GetChunk call %d started while call 2 for the same chunk ID is still in flight (%d concurrent upstream requests)",
			round, n, atomic.LoadInt32(&inflight))
	case <-time.After(demoC12Timeout):
	}
	for _, g := range gates[1:] {
		close(g)
	}
	wg.Wait()
	if m := atomic.LoadInt32(&maxInflight); m > 1 {
		t.Errorf("round %d: %d upstream GetChunk requests for one chunk ID in flight at the same time; want at most 1", round, m)
	}
}

func TestDemoC12LateWaiterStoreChunk(t *testing.T) {
	defer runtime.GOMAXPROCS(runtime.GOMAXPROCS(1))
	for round := 0; round < demoC12Rounds && !t.Failed(); round++ {
		demoC12Store(t, round)
	}
}

type demoC12Transient struct{}

func (demoC12Transient) Error() string { return "transient upstream write failure" }

func demoC12Store(t *testing.T, round int) {
	c := NewChunk([]byte{12, 12, 12, byte(round)})
	id := c.ID()
	var calls, inflight, maxInflight, committed, readsDuringWrite int32
	gates := []chan struct{}{make(chan struct{}), make(chan struct{}), make(chan struct{}), make(chan struct{})}
	entered := make(chan int32, 8)
	store := &TestStore{
		StoreChunkFunc: func(*Chunk) error {
			n := atomic.AddInt32(&calls, 1)
			demoC12Max(&maxInflight, atomic.AddInt32(&inflight, 1))
			entered <- n
			<-gates[n-1]
			defer atomic.AddInt32(&inflight, -1)
			if n == 1 { // the first attempt fails, the writer retries
				return demoC12Transient{}
			}
			atomic.StoreInt32(&committed, 1)
			return nil
		},
		GetChunkFunc: func(ChunkID) (*Chunk, error) {
			if atomic.LoadInt32(&inflight) > 0 {
				atomic.AddInt32(&readsDuringWrite, 1)
			}
			if atomic.LoadInt32(&committed) == 0 {
				return nil, ChunkMissing{id}
			}
			return c, nil
		},
	}
	q := NewWriteDedupQueue(store)

	var wg sync.WaitGroup
	// A: a write that fails the first time and is retried
	wg.Add(1)
	go func() {
		defer wg.Done()
		if err := q.StoreChunk(c); err != nil {
			q.StoreChunk(c)
		}
	}()
	<-entered // upstream write 1 in flight

	// W: de-duplicated onto the first write
	wg.Add(1)
	go func() {
		defer wg.Done()
		q.StoreChunk(c)
	}()
	time.Sleep(demoC12Settle)

	close(gates[0]) // upstream write 1 fails
	<-entered       // A's retry is in flight upstream now
	time.Sleep(demoC12Settle) // W returns from its call

	// R: a read that overlaps the in-flight (eventually successful) write
	type result struct {
		chunk *Chunk
		err   error
	}
	read := make(chan result, 1)
	go func() {
		b, err := q.GetChunk(id)
		read <- result{b, err}
	}()
	var (
		res     result
		gotRead bool
	)
	select {
	case res = <-read:
		gotRead = true
	case <-time.After(demoC12Timeout):
	}

	// C: another writer of the same chunk while upstream write 2 is in flight
	wg.Add(1)
	go func() {
		defer wg.Done()
		q.StoreChunk(c)
	}()
	select {
	case n := <-entered:
		t.Errorf("round %d: upstream StoreChunk call %d started while call 2 for the same chunk is still in flight (%d concurrent upstream writes)",
			round, n, atomic.LoadInt32(&inflight))
	case <-time.After(demoC12Timeout):
	}

	for _, g := range gates[1:] {
		close(g)
	}
	wg.Wait()
	if !gotRead {
		res = <-read
	}
	if res.err != nil || res.chunk != c {
		t.Errorf("round %d: read overlapping the in-flight write of the chunk returned (%v, %v); want the chunk being written", round, res.chunk, res.err)
	}
	if n := atomic.LoadInt32(&readsDuringWrite); n != 0 {
		t.Errorf("round %d: %d upstream GetChunk request(s) reached the store while the write of the same chunk was in flight", round, n)
	}
	if m := atomic.LoadInt32(&maxInflight); m > 1 {
		t.Errorf("round %d: %d upstream StoreChunk requests for one chunk in flight at the same time; want at most 1", round, m)
	}
}
