package desync

// Replay for the empty-index safety obligations (C09, C01): an index without chunks (an empty
// blob) must be readable and extractable without a panic.

import (
	"context"
	"fmt"
	"io"
	"os"
	"path/filepath"
	"testing"
)

func zzPanics(f func()) (msg string) {
	defer func() {
		if r := recover(); r != nil {
			msg = fmt.Sprint(r)
		}
	}()
	f()
	return ""
}

func TestZZReplayEmptyIndexReadSeeker(t *testing.T) {
	var hits []string
	if m := zzPanics(func() {
		r := NewIndexReadSeeker(Index{}, nil)
		buf := make([]byte, 10)
		if n, err := r.Read(buf); n != 0 || err != io.EOF {
			hits = append(hits, fmt.Sprintf("Read on empty blob: n=%d err=%v", n, err))
		}
		if _, err := r.Seek(0, io.SeekStart); err != nil {
			hits = append(hits, "Seek(0) on empty blob: "+err.Error())
		}
		r.Seek(5, io.SeekStart)
		r.Seek(0, io.SeekEnd)
	}); m != "" {
		hits = append(hits, "panic: "+m)
	}
	if len(hits) > 0 {
		fmt.Printf("REPLAY-CONFIRMED: empty index through IndexPos: %v\n", hits)
	} else {
		fmt.Println("REPLAY-NOT-REPRODUCED")
	}
}

func TestZZReplayEmptyIndexAssemble(t *testing.T) {
	dir := t.TempDir()
	sd := filepath.Join(dir, "store")
	os.MkdirAll(sd, 0o755)
	s, _ := NewLocalStore(sd, StoreOptions{})
	out := filepath.Join(dir, "out")
	var err error
	m := zzPanics(func() {
		_, err = AssembleFile(context.Background(), out, Index{}, s, nil, AssembleOptions{N: 2})
	})
	st, serr := os.Stat(out)
	if m != "" {
		fmt.Printf("REPLAY-CONFIRMED: AssembleFile of an empty index panics: %s\n", m)
	} else if err != nil || serr != nil || st.Size() != 0 {
		fmt.Printf("REPLAY-CONFIRMED: AssembleFile of an empty index: err=%v stat=%v\n", err, serr)
	} else {
		fmt.Println("REPLAY-NOT-REPRODUCED")
	}
}
