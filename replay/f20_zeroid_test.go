package desync

// Replay for NewChunkFromStorage/NewChunkWithID ensures (C03): storage bytes that cannot be
// decoded (or empty data) must not be accepted as a valid chunk, also for the all-zero ID.

import (
	"fmt"
	"testing"
)

func TestZZReplayZeroIDAccepted(t *testing.T) {
	garbage := []byte("this is not a zstd frame")
	hits := 0
	if c, err := NewChunkFromStorage(ChunkID{}, garbage, Converters{Compressor{}}, false); err == nil && c != nil {
		if _, derr := c.Data(); derr != nil {
			hits++
		}
	}
	if c, err := NewChunkWithID(ChunkID{}, nil, false); err == nil && c != nil {
		hits++
	}
	if hits > 0 {
		fmt.Printf("REPLAY-CONFIRMED: %d constructor call(s) accepted undecodable/empty data for the zero ID without error\n", hits)
	} else {
		fmt.Println("REPLAY-NOT-REPRODUCED")
	}
}
