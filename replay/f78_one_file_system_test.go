package desync

import (
	"bytes"
	"context"
	"testing"
)

// F34: with --one-file-system a directory on another filesystem is left out, everything else of the tree is packed
func TestZZReplayOneFileSystemKeepsTheRest(t *testing.T) {
	fs := NewLocalFS("/dev", LocalFSOptions{OneFileSystem: true})
	var buf bytes.Buffer
	if err := Tar(context.Background(), &buf, fs); err != nil {
		t.Skipf("cannot pack /dev here: %v", err)
	}
	d := NewArchiveDecoder(bytes.NewReader(buf.Bytes()))
	names := map[string]bool{}
	for {
		n, err := d.Next()
		if err != nil {
			t.Fatalf("decoding: %v", err)
		}
		if n == nil {
			break
		}
		switch v := n.(type) {
		case NodeDevice:
			names[v.Name] = true
		case NodeDirectory:
			names[v.Name] = true
		case NodeSymlink:
			names[v.Name] = true
		case NodeFile:
			names[v.Name] = true
		}
	}
	if !names["null"] {
		t.Skip("no /dev/null in the archive: unusual /dev, nothing to compare")
	}
	for _, want := range []string{"urandom", "zero", "tty"} {
		if !names[want] {
			t.Errorf("REPLAY-CONFIRMED: Tar of /dev with OneFileSystem reported success but %q (sorted behind a mount point) is missing; archive has %d entries", want, len(names))
		}
	}
}
