package desync

// Replay for the clone range obligations (C01): a range that contains no whole block
// (offset 100, length 200, block size 4096). Every byte outside [100, 300) must be left alone.

import (
	"bytes"
	"fmt"
	"os"
	"path/filepath"
	"testing"
)

func zzF04Target(t *testing.T) (*os.File, []byte) {
	name := filepath.Join(t.TempDir(), "target")
	before := bytes.Repeat([]byte{0xAA}, 3*4096)
	if err := os.WriteFile(name, before, 0o644); err != nil {
		t.Fatal(err)
	}
	f, err := os.OpenFile(name, os.O_RDWR, 0)
	if err != nil {
		t.Fatal(err)
	}
	return f, before
}

func zzF04Outside(t *testing.T, f *os.File, before []byte, lo, hi int) int {
	after, err := os.ReadFile(f.Name())
	if err != nil {
		t.Fatal(err)
	}
	n := 0
	for i := range before {
		if (i < lo || i >= hi) && i < len(after) && after[i] != before[i] {
			n++
		}
	}
	return n
}

func TestZZReplayNullCloneOutsideRange(t *testing.T) {
	f, before := zzF04Target(t)
	defer f.Close()
	s := &nullChunkSection{from: 100, to: 300, canReflink: true}
	copied, cloned, err := s.clone(f, 100, 200, 4096)
	n := zzF04Outside(t, f, before, 100, 300)
	t.Logf("copied %d cloned %d err %v, %d bytes outside the range changed", copied, cloned, err, n)
	if n > 0 {
		fmt.Printf("REPLAY-CONFIRMED: nullChunkSection.clone(offset 100, length 200, blocksize 4096) returned err=%v and changed %d bytes outside [100,300)\n", err, n)
	}
}

func TestZZReplayFileCloneOutsideRange(t *testing.T) {
	f, before := zzF04Target(t)
	defer f.Close()
	srcName := filepath.Join(t.TempDir(), "seed")
	os.WriteFile(srcName, bytes.Repeat([]byte{0x55}, 3*4096), 0o644)
	src, err := os.Open(srcName)
	if err != nil {
		t.Fatal(err)
	}
	defer src.Close()
	s := &fileSeedSegment{file: srcName, canReflink: true}
	copied, cloned, err := s.clone(f, src, 100, 200, 100, 4096)
	n := zzF04Outside(t, f, before, 100, 300)
	t.Logf("copied %d cloned %d err %v, %d bytes outside the range changed", copied, cloned, err, n)
	if n > 0 {
		fmt.Printf("REPLAY-CONFIRMED: fileSeedSegment.clone(src 100, length 200, dst 100, blocksize 4096) returned err=%v and changed %d bytes outside [100,300)\n", err, n)
	}
}
