// +build !windows

package desync

import (
	"bytes"
	"context"
	"io/ioutil"
	"net/http"
	"net/http/httptest"
	"net/url"
	"os"
	"path/filepath"
	"sync/atomic"
	"testing"
	"time"

	"github.com/hanwen/go-fuse/v2/fs"
	"github.com/stretchr/testify/require"
)

// Demonstration for property C10: a read served by the sparse (copy-on-read)
// mount node returns exactly the blob's bytes for the range, or an error.
//
// The chunk store is a plain HTTP store. While "down" the server accepts the
// connection and closes it without answering, which is how a restarting or
// overloaded web server / load balancer looks to the client. net/http reports
// that as `Get "http://...": EOF`, i.e. a *url.Error wrapping io.EOF.
//
// No FUSE mount is needed: the node's Read method is called directly, exactly
// like go-fuse would call it.
func TestDemoC10SparseNodeReadStoreDropsConnection(t *testing.T) {
	var down int32
	files := http.FileServer(http.Dir("testdata/blob1.store"))
	srv := httptest.NewServer(http.HandlerFunc(func(w http.ResponseWriter, r *http.Request) {
		if atomic.LoadInt32(&down) != 0 {
			conn, _, err := w.(http.Hijacker).Hijack()
			if err == nil {
				conn.Close() // drop the connection without a response
			}
			return
		}
		files.ServeHTTP(w, r)
	}))
	defer srv.Close()

	u, err := url.Parse(srv.URL + "/")
	require.NoError(t, err)
	s, err := NewRemoteHTTPStore(u, StoreOptions{ErrorRetry: 1, ErrorRetryBaseInterval: time.Millisecond})
	require.NoError(t, err)
	defer s.Close()

	indexFile, err := os.Open("testdata/blob1.caibx")
	require.NoError(t, err)
	defer indexFile.Close()
	index, err := IndexFromReader(indexFile)
	require.NoError(t, err)
	blob, err := ioutil.ReadFile("testdata/blob1")
	require.NoError(t, err)

	dir, err := ioutil.TempDir("", "demo-c10")
	require.NoError(t, err)
	defer os.RemoveAll(dir)

	mnt, err := NewSparseMountFS(index, "blob1", s, filepath.Join(dir, "cor"), SparseFileOptions{})
	require.NoError(t, err)
	node := &sparseIndexFile{sf: mnt.sf, size: mnt.sf.Length(), mtime: time.Now()}

	ctx := context.Background()
	fh, _, errno := node.Open(ctx, 0)
	require.Equal(t, fs.OK, errno)
	defer fh.(*SparseFileHandle).Close()

	// A range in the middle of the blob, inside the 2nd chunk (not a null chunk)
	off := int64(index.Chunks[1].Start) + 100
	const n = 4096
	want := blob[off : off+n]

	read := func() ([]byte, bool) {
		dest := make([]byte, n)
		res, errno := node.Read(ctx, fh, dest, off)
		if errno != fs.OK {
			return nil, false
		}
		b, st := res.Bytes(make([]byte, n))
		require.True(t, st.Ok())
		return b, true
	}

	// 1. The store drops the connection: the read has to fail (EIO). Returning
	// anything else than the blob's bytes with status OK breaks the property.
	atomic.StoreInt32(&down, 1)
	if got, ok := read(); ok {
		require.True(t, bytes.Equal(want, got),
			"store is down, yet Read returned status OK with %d bytes (wanted %d bytes of the blob or an error)", len(got), len(want))
	}

	// 2. The store is back: the same range is now fetched and returned.
	atomic.StoreInt32(&down, 0)
	got, ok := read()
	require.True(t, ok, "read after the store recovered failed")
	require.True(t, bytes.Equal(want, got), "wrong bytes after the store recovered")
}
