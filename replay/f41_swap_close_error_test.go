package desync

import (
	"sync"
	"sync/atomic"
	"testing"

	"github.com/pkg/errors"
)

// demoC11ClosableStore behaves like a remote store with a connection pool
// (ssh://, sftp://): once Close() has been called it can't serve requests any
// more. Close() itself can report an error, like RemoteSSH.Close() does when
// the goodbye can't be delivered over an already dead connection.
type demoC11ClosableStore struct {
	name     string
	chunk    *Chunk
	closeErr error
	closed   int32
	calls    int32
}

func (s *demoC11ClosableStore) GetChunk(id ChunkID) (*Chunk, error) {
	atomic.AddInt32(&s.calls, 1)
	if atomic.LoadInt32(&s.closed) != 0 {
		return nil, errors.Errorf("%s: store is closed", s.name)
	}
	if id != s.chunk.ID() {
		return nil, ChunkMissing{id}
	}
	return s.chunk, nil
}

func (s *demoC11ClosableStore) HasChunk(id ChunkID) (bool, error) {
	if atomic.LoadInt32(&s.closed) != 0 {
		return false, errors.Errorf("%s: store is closed", s.name)
	}
	return id == s.chunk.ID(), nil
}

func (s *demoC11ClosableStore) String() string { return s.name }

func (s *demoC11ClosableStore) Close() error {
	atomic.StoreInt32(&s.closed, 1)
	return s.closeErr
}

// Swapping the store must always put the new store in place, even if shutting
// down the old one reports an error. Requests issued after (and during) the
// swap must never fail or end up in the closed store.
func TestDemoC11SwapOldStoreCloseError(t *testing.T) {
	chunk := NewChunk([]byte("demo C11 chunk"))
	id := chunk.ID()

	oldStore := &demoC11ClosableStore{name: "old", chunk: chunk, closeErr: errors.New("ssh: connection lost")}
	newStore := &demoC11ClosableStore{name: "new", chunk: chunk}

	s := NewSwapStore(oldStore)

	// Put the swap store under load
	var (
		wg       sync.WaitGroup
		done     = make(chan struct{})
		failures int32
		firstErr atomic.Value
	)
	for i := 0; i < 4; i++ {
		wg.Add(1)
		go func() {
			defer wg.Done()
			for {
				select {
				case <-done:
					return
				default:
				}
				if _, err := s.GetChunk(id); err != nil {
					if atomic.AddInt32(&failures, 1) == 1 {
						firstErr.Store(err)
					}
				}
			}
		}()
	}

	// Reconfigure while requests are running
	swapErr := s.Swap(newStore)

	// A few more requests after the swap, these have to be served by the new store
	for i := 0; i < 10; i++ {
		if _, err := s.GetChunk(id); err != nil {
			t.Errorf("GetChunk after Swap failed: %v", err)
			break
		}
	}
	if ok, err := s.HasChunk(id); err != nil || !ok {
		t.Errorf("HasChunk after Swap = %v, %v; want true, <nil>", ok, err)
	}
	close(done)
	wg.Wait()

	if swapErr != nil {
		t.Errorf("Swap failed: %v", swapErr)
	}
	if n := atomic.LoadInt32(&failures); n != 0 {
		t.Errorf("%d requests failed while the store was swapped under load, first error: %v", n, firstErr.Load())
	}
	if got := s.String(); got != "new" {
		t.Errorf("store in use after Swap is %q, want %q", got, "new")
	}
	if atomic.LoadInt32(&newStore.closed) != 0 {
		t.Errorf("the new store was closed")
	}
	if atomic.LoadInt32(&newStore.calls) == 0 {
		t.Errorf("no request reached the new store after Swap")
	}
}
