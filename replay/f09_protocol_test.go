package desync

// Replays for the casync-protocol obligations (C14): a missing chunk is reported as missing
// (HasChunk: false, nil) and the server keeps serving after it answered MISSING.

import (
	"context"
	"fmt"
	"io"
	"testing"
	"time"
)

func zzProtocolPair(t *testing.T, s Store) (*RemoteSSH, func()) {
	cr, sw := io.Pipe() // server -> client
	sr, cw := io.Pipe() // client -> server
	server := NewProtocolServer(sr, sw, s)
	ctx, cancel := context.WithCancel(context.Background())
	done := make(chan error, 1)
	go func() { done <- server.Serve(ctx); sw.Close() }()
	client := NewProtocol(cr, cw)
	if _, err := client.Initialize(CaProtocolPullChunks); err != nil {
		t.Fatal(err)
	}
	r := &RemoteSSH{pool: make(chan *Protocol, 1), n: 1}
	r.pool <- client
	return r, func() { cancel(); cw.Close(); cr.Close() }
}

func TestZZReplayRemoteSSHHasChunkMissing(t *testing.T) {
	_, _, st := zzSparseBlobP(2, 64)
	r, stop := zzProtocolPair(t, st)
	defer stop()
	has, err := r.HasChunk(ChunkID{9, 9, 9})
	if err != nil || has {
		fmt.Printf("REPLAY-CONFIRMED: RemoteSSH.HasChunk of a missing chunk returned (%v, %v) instead of (false, nil)\n", has, err)
	} else {
		fmt.Println("REPLAY-NOT-REPRODUCED")
	}
}

func TestZZReplayProtocolServerAfterMissing(t *testing.T) {
	_, idx, st := zzSparseBlobP(2, 64)
	r, stop := zzProtocolPair(t, st)
	defer stop()
	if _, err := r.GetChunk(ChunkID{9, 9, 9}); err == nil {
		t.Fatal("harness broken: missing chunk delivered")
	}
	res := make(chan error, 1)
	go func() { _, err := r.GetChunk(idx.Chunks[0].ID); res <- err }()
	select {
	case err := <-res:
		if err != nil {
			fmt.Printf("REPLAY-CONFIRMED: after one MISSING reply the next request for a present chunk failed: %v\n", err)
		} else {
			fmt.Println("REPLAY-NOT-REPRODUCED")
		}
	case <-time.After(3 * time.Second):
		fmt.Println("REPLAY-CONFIRMED: after one MISSING reply the next request for a present chunk was never answered (server loop ended)")
	}
}

type zzMapStore struct{ data map[ChunkID][]byte }

func (s *zzMapStore) GetChunk(id ChunkID) (*Chunk, error) {
	b, ok := s.data[id]
	if !ok {
		return nil, ChunkMissing{id}
	}
	return NewChunkWithID(id, b, false)
}
func (s *zzMapStore) HasChunk(id ChunkID) (bool, error) { _, ok := s.data[id]; return ok, nil }
func (s *zzMapStore) Close() error                      { return nil }
func (s *zzMapStore) String() string                    { return "map" }

func zzSparseBlobP(n, size int) ([]byte, Index, *zzMapStore) {
	data := make([]byte, n*size)
	for i := range data {
		data[i] = byte(i*13 + 1)
	}
	var idx Index
	st := &zzMapStore{data: map[ChunkID][]byte{}}
	for i := 0; i < n; i++ {
		b := data[i*size : (i+1)*size]
		id := Digest.Sum(b)
		st.data[id] = b
		idx.Chunks = append(idx.Chunks, IndexChunk{ID: id, Start: uint64(i * size), Size: uint64(size)})
	}
	return data, idx, st
}
