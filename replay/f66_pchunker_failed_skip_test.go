package desync

import (
	"bytes"
	"context"
	"errors"
	"io"
	"math/rand"
	"testing"
)

// Demonstration for C02: a failing relative seek during the null-chunk
// fast-forward of a parallel chunk worker must not lead to an index that is
// reported as good but differs from the single-stream result.
//
// TestDemoC02AdvanceFailure is fully deterministic: it wires two pChunker
// workers exactly like IndexFromFile does, but over in-memory readers. The
// reader of the first worker refuses relative forward seeks (what a failing
// lseek(SEEK_CUR) on the worker's file looks like to Chunker.Advance). The
// second worker is run to completion first, so that its bucket holds the long
// run of null chunks the first worker is told to skip.
//
// TestDemoC02EndToEnd (demo_C02_e2e_linux_test.go, linux/amd64 only) does the
// same through the real IndexFromFile on a real file: it re-executes the test
// binary and the child installs a seccomp filter that makes every
// lseek(fd, off, SEEK_CUR) fail with EIO before it calls IndexFromFile.

const (
	demoC02Min = 16 * 1024
	demoC02Avg = 64 * 1024
	demoC02Max = 256 * 1024
)

// random head, long run of zeroes, random tail. The odd sizes make sure the
// workers' null chunks don't line up so the first worker can't simply sync.
func demoC02Data() []byte {
	r := rand.New(rand.NewSource(2))
	head := make([]byte, 2*demoC02Max+12345)
	r.Read(head)
	tail := make([]byte, 2*demoC02Max+777)
	r.Read(tail)
	zeroes := make([]byte, 40*demoC02Max)
	return bytes.Join([][]byte{head, zeroes, tail}, nil)
}

func demoC02Reference(t *testing.T, data []byte) []IndexChunk {
	c, err := NewChunker(bytes.NewReader(data), demoC02Min, demoC02Avg, demoC02Max)
	if err != nil {
		t.Fatal(err)
	}
	var ref []IndexChunk
	for {
		start, b, err := c.Next()
		if err != nil {
			t.Fatal(err)
		}
		if len(b) == 0 {
			return ref
		}
		ref = append(ref, IndexChunk{Start: start, Size: uint64(len(b)), ID: Digest.Sum(b)})
	}
}

func demoC02Check(t *testing.T, data []byte, ref, got []IndexChunk, err error) {
	if err != nil {
		t.Logf("chunking reported the failure: %v (fine)", err)
		return
	}
	// Success was reported, so the index has to be the single-stream one
	var pos uint64
	for i, c := range got {
		if c.Start != pos {
			t.Errorf("chunk %d starts at %d but the previous one ended at %d (gap/overlap of %d bytes)", i, c.Start, pos, int64(c.Start)-int64(pos))
			break
		}
		pos += c.Size
	}
	if len(got) > 0 {
		last := got[len(got)-1]
		if last.Start+last.Size != uint64(len(data)) {
			t.Errorf("index covers %d bytes, input has %d", last.Start+last.Size, len(data))
		}
	}
	for i, c := range got {
		if c.Start+c.Size <= uint64(len(data)) && Digest.Sum(data[c.Start:c.Start+c.Size]) != c.ID {
			t.Errorf("chunk %d (start %d size %d): recorded ID does not match the input bytes at that position", i, c.Start, c.Size)
			break
		}
	}
	if len(got) != len(ref) {
		t.Errorf("success reported, but parallel index has %d chunks, single stream has %d", len(got), len(ref))
	}
	for i := range ref {
		if i >= len(got) || got[i] != ref[i] {
			t.Fatalf("success reported, but chunk %d differs from the single-stream result", i)
		}
	}
}

// reader that can seek absolutely, but fails relative forward seeks
type demoC02Reader struct {
	*bytes.Reader
	failed int
}

func (r *demoC02Reader) Seek(offset int64, whence int) (int64, error) {
	if whence == io.SeekCurrent && offset > 0 {
		r.failed++
		return 0, errors.New("injected: seek failed")
	}
	return r.Reader.Seek(offset, whence)
}

func TestDemoC02AdvanceFailure(t *testing.T) {
	data := demoC02Data()
	ref := demoC02Reference(t, data)
	size := uint64(len(data))
	const n = 2
	span := size / n

	// Same set-up as in IndexFromFile
	stats := ChunkingStats{}
	nullChunk := NewNullChunk(demoC02Max)
	readers := []io.Reader{
		&demoC02Reader{Reader: bytes.NewReader(data)},
		bytes.NewReader(data[span:]),
	}
	worker := make([]*pChunker, n)
	for i := 0; i < n; i++ {
		start := span * uint64(i)
		c, err := NewChunker(readers[i], demoC02Min, demoC02Avg, demoC02Max)
		if err != nil {
			t.Fatal(err)
		}
		worker[i] = &pChunker{
			chunker:   c,
			results:   make(chan IndexChunk, (size-start)/demoC02Min+1),
			done:      make(chan struct{}),
			offset:    start,
			stats:     &stats,
			nullChunk: nullChunk,
		}
	}
	worker[0].next = worker[1]

	// Schedule: the second worker runs to the end of the input before the first
	// one gets going.
	ctx := context.Background()
	worker[1].start(ctx)
	worker[0].start(ctx)

	// Same assembly as in IndexFromFile
	var (
		chunks []IndexChunk
		err    error
	)
	for _, w := range worker {
		for chunk := range w.results {
			chunks = append(chunks, chunk)
		}
		if w.err != nil {
			err = w.err
			break
		}
		if w.eof {
			break
		}
	}

	if readers[0].(*demoC02Reader).failed == 0 {
		t.Fatal("demo set-up: the first worker never tried to skip ahead past its buffer")
	}
	demoC02Check(t, data, ref, chunks, err)
}
