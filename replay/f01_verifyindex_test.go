package desync

// Replay for VerifyIndex/ensures (C17, C07): with a cancelled context and a file whose
// last chunk does not match the index, VerifyIndex must not return nil.

import (
	"context"
	"fmt"
	"os"
	"path/filepath"
	"testing"
)

func TestZZReplayVerifyIndexCancelled(t *testing.T) {
	dir := t.TempDir()
	name := filepath.Join(dir, "blob")
	const n, size = 400, 64
	data := make([]byte, n*size)
	for i := range data {
		data[i] = byte(i * 7)
	}
	var idx Index
	for i := 0; i < n; i++ {
		b := data[i*size : (i+1)*size]
		idx.Chunks = append(idx.Chunks, IndexChunk{ID: Digest.Sum(b), Start: uint64(i * size), Size: size})
	}
	data[len(data)-1] ^= 0xff // the file no longer matches the last chunk
	if err := os.WriteFile(name, data, 0o644); err != nil {
		t.Fatal(err)
	}
	if err := VerifyIndex(context.Background(), name, idx, 2, NullProgressBar{}); err == nil {
		t.Fatal("harness broken: mismatch not detected without cancellation")
	}
	hits := 0
	for r := 0; r < 20; r++ {
		ctx, cancel := context.WithCancel(context.Background())
		cancel()
		if err := VerifyIndex(ctx, name, idx, 2, NullProgressBar{}); err == nil {
			hits++
		}
	}
	if hits > 0 {
		fmt.Printf("REPLAY-CONFIRMED: VerifyIndex returned nil for a non-matching file in %d of 20 cancelled runs\n", hits)
	} else {
		fmt.Println("REPLAY-NOT-REPRODUCED")
	}
}
