package desync

import (
	"bytes"
	"context"
	"encoding/binary"
	"io/ioutil"
	"os"
	"path/filepath"
	"testing"
)

// Every truncation of a valid catar has to be reported as an error by UnTar. On
// the unchanged code many are accepted: cuts at an element boundary, cuts 8 bytes
// into an element header and cuts anywhere inside a file payload.
func TestDefectC19TruncatedCatarAccepted(t *testing.T) {
	full, err := ioutil.ReadFile("testdata/flat.catar")
	if err != nil {
		t.Fatal(err)
	}
	var accepted []int
	for cut := 1; cut < len(full); cut++ {
		dir, err := ioutil.TempDir("", "c19")
		if err != nil {
			t.Fatal(err)
		}
		fs := NewLocalFS(dir, LocalFSOptions{NoSameOwner: true, NoSamePermissions: true})
		err = UnTar(context.Background(), bytes.NewReader(full[:cut]), fs)
		os.RemoveAll(dir)
		if err == nil {
			accepted = append(accepted, cut)
		}
	}
	if len(accepted) > 0 {
		t.Fatalf("%d of %d truncations of flat.catar were unpacked without error, first ones at %v",
			len(accepted), len(full)-1, accepted[:min(len(accepted), 12)])
	}
}

// A file in the archive cut short inside its payload ends up shorter on disk
// than the size recorded in the archive, and UnTar says all is well.
func TestDefectC19ShortPayload(t *testing.T) {
	le := func(v ...uint64) []byte {
		b := new(bytes.Buffer)
		for _, x := range v {
			binary.Write(b, binary.LittleEndian, x)
		}
		return b.Bytes()
	}
	var in []byte
	in = append(in, le(64, CaFormatEntry, 0, uint64(FilemodeToStatMode(os.ModeDir|0755)), 0, 0, 0, 0)...)
	in = append(in, le(16+2, CaFormatFilename)...)
	in = append(in, 'f', 0)
	in = append(in, le(64, CaFormatEntry, 0, uint64(FilemodeToStatMode(0644)), 0, 0, 0, 0)...)
	in = append(in, le(16+1000, CaFormatPayload)...) // claims 1000 bytes
	in = append(in, []byte("only these")...)         // has 10

	dir, err := ioutil.TempDir("", "c19")
	if err != nil {
		t.Fatal(err)
	}
	defer os.RemoveAll(dir)
	fs := NewLocalFS(dir, LocalFSOptions{NoSameOwner: true, NoSamePermissions: true})
	err = UnTar(context.Background(), bytes.NewReader(in), fs)
	b, _ := ioutil.ReadFile(filepath.Join(dir, "f"))
	if err == nil {
		t.Fatalf("UnTar reported success, file has %d of the 1000 bytes the archive says it has", len(b))
	}
}

// An index is 'parsed' fine with any value in the max chunk size field, the
// first consumer then uses it as allocation size.
func TestDefectC19IndexChunkSizeMax(t *testing.T) {
	le := func(v ...uint64) []byte {
		b := new(bytes.Buffer)
		for _, x := range v {
			binary.Write(b, binary.LittleEndian, x)
		}
		return b.Bytes()
	}
	var in []byte
	in = append(in, le(48, CaFormatIndex, CaFormatSHA512256, 1, 2, 1<<62)...)
	in = append(in, le(^uint64(0), CaFormatTable)...)
	in = append(in, le(0, 0, 48, 16+40, CaFormatTableTailMarker)...)
	idx, err := IndexFromReader(bytes.NewReader(in))
	if err != nil {
		t.Logf("rejected: %v", err)
		return
	}
	defer func() {
		if r := recover(); r != nil {
			t.Fatalf("index of %d bytes accepted by IndexFromReader, then panic in NewIndexReadSeeker: %v", len(in), r)
		}
	}()
	s, _ := NewLocalStore(t.TempDir(), StoreOptions{})
	NewIndexReadSeeker(idx, s)
}

// All truncations of a valid index are rejected, but the size field of the index
// element (must be 48) is never looked at, any value is accepted.
func TestDefectC19IndexElementSizeIgnored(t *testing.T) {
	full, _ := ioutil.ReadFile("testdata/index.caibx")
	n := 0
	for cut := 0; cut < len(full); cut++ {
		if _, err := IndexFromReader(bytes.NewReader(full[:cut])); err == nil {
			n++
			if n < 5 {
				t.Errorf("cut %d of %d accepted", cut, len(full))
			}
		}
	}
	// size field of the index element is not looked at
	b := append([]byte{}, full...)
	for _, v := range []uint64{0, 15, 16, 47, 49, 1 << 63, ^uint64(0)} {
		binary.LittleEndian.PutUint64(b[0:8], v)
		if _, err := IndexFromReader(bytes.NewReader(b)); err == nil {
			t.Errorf("index element size %d accepted", v)
		}
	}
}
