package main

import (
	"bytes"
	"context"
	"fmt"
	"io/ioutil"
	"os"
	"path/filepath"
	"testing"

	"github.com/folbricht/desync"
	"github.com/klauspost/compress/zstd"
	"github.com/stretchr/testify/require"
)

// A chunk server is run the way the documentation shows it (upstream store plus a
// local cache, all defaults). A client extracts a blob through it, which succeeds
// and yields the right bytes. Afterwards the cache directory has to be a regular
// casync-format store: every <prefix>/<id>.cacnk file holds one zstd frame of the
// chunk, readable by an independent zstd decoder and by a desync client that opens
// the directory as an ordinary (compressed) local store.
func TestDemoC20ChunkServerCacheIsCasyncStore(t *testing.T) {
	outdir := t.TempDir()
	cacheDir := t.TempDir()

	addr, cancel := startChunkServer(t, "-s", "testdata/blob1.store", "-c", cacheDir)
	defer cancel()
	store := fmt.Sprintf("http://%s/", addr)

	// Extract through the server, populating its cache. Must work and give the right data.
	out := filepath.Join(outdir, "blob")
	extractCmd := newExtractCommand(context.Background())
	extractCmd.SetArgs([]string{"-s", store, "testdata/blob1.caibx", out})
	stdout = ioutil.Discard
	stderr = ioutil.Discard
	extractCmd.SetOutput(ioutil.Discard)
	_, err := extractCmd.ExecuteC()
	require.NoError(t, err)
	expected, err := ioutil.ReadFile("testdata/blob1")
	require.NoError(t, err)
	got, err := ioutil.ReadFile(out)
	require.NoError(t, err)
	require.True(t, bytes.Equal(expected, got), "extracted blob differs")

	// Once more, now served from the cache
	require.NoError(t, os.Remove(out))
	extractCmd = newExtractCommand(context.Background())
	extractCmd.SetArgs([]string{"-s", store, "testdata/blob1.caibx", out})
	extractCmd.SetOutput(ioutil.Discard)
	_, err = extractCmd.ExecuteC()
	require.NoError(t, err)
	got, err = ioutil.ReadFile(out)
	require.NoError(t, err)
	require.True(t, bytes.Equal(expected, got), "extracted blob differs")

	// Now look at what is in the cache directory
	f, err := os.Open("testdata/blob1.caibx")
	require.NoError(t, err)
	defer f.Close()
	idx, err := desync.IndexFromReader(f)
	require.NoError(t, err)
	reference, err := desync.NewLocalStore("testdata/blob1.store", desync.StoreOptions{})
	require.NoError(t, err)
	asStore, err := desync.NewLocalStore(cacheDir, desync.StoreOptions{})
	require.NoError(t, err)
	dec, err := zstd.NewReader(nil)
	require.NoError(t, err)
	defer dec.Close()

	var checked, notZstd, unreadable int
	seen := make(map[desync.ChunkID]struct{})
	for _, c := range idx.Chunks {
		if _, ok := seen[c.ID]; ok {
			continue
		}
		seen[c.ID] = struct{}{}
		refChunk, err := reference.GetChunk(c.ID)
		require.NoError(t, err)
		want, err := refChunk.Data()
		require.NoError(t, err)

		// casync layout: <first 4 hex digits>/<id>.cacnk
		name := filepath.Join(cacheDir, c.ID.String()[:4], c.ID.String()+".cacnk")
		raw, err := os.ReadFile(name)
		if os.IsNotExist(err) {
			continue // never requested from the server (all-zero chunks come from the null seed)
		}
		require.NoError(t, err)
		checked++

		// The file must be a zstd frame of the chunk
		plain, err := dec.DecodeAll(raw, nil)
		if err != nil || !bytes.Equal(plain, want) {
			notZstd++
		}

		// A desync client using the directory as a normal compressed store must get the chunk
		chunk, err := asStore.GetChunk(c.ID)
		if err != nil {
			unreadable++
			continue
		}
		b, err := chunk.Data()
		if err != nil || !bytes.Equal(b, want) {
			unreadable++
		}
	}
	require.Greater(t, checked, 100)
	if notZstd != 0 || unreadable != 0 {
		t.Fatalf("chunk server and extract reported success, but of %d .cacnk files in the cache %d are not a zstd frame of their chunk and %d can not be read through a compressed LocalStore",
			checked, notZstd, unreadable)
	}
}
