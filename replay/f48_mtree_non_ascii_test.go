// +build !windows

package desync

import (
	"bufio"
	"bytes"
	"context"
	"io/ioutil"
	"os"
	"path/filepath"
	"sort"
	"strconv"
	"strings"
	"testing"
)

// mtreeUnescape reverses the encoding described in mtree(5): a backslash followed by
// three octal digits stands for one byte.
func demoC05MtreeUnescape(t *testing.T, s string) string {
	var out []byte
	for i := 0; i < len(s); i++ {
		if s[i] != '\\' {
			out = append(out, s[i])
			continue
		}
		if i+3 >= len(s) {
			t.Errorf("truncated escape in %q", s)
			out = append(out, s[i])
			continue
		}
		v, err := strconv.ParseUint(s[i+1:i+4], 8, 8)
		if err != nil {
			t.Errorf("bad escape in %q: %v", s, err)
			out = append(out, s[i])
			continue
		}
		out = append(out, byte(v))
		i += 3
	}
	return string(out)
}

// Pack a tree whose names (and a symlink target) contain bytes outside of ASCII,
// unpack the archive with the mtree output format and compare the paths, types and
// symlink targets listed in the mtree with the source tree.
func TestDemoC05MtreeNonASCIINames(t *testing.T) {
	base, err := ioutil.TempDir("", "demo-c05")
	if err != nil {
		t.Fatal(err)
	}
	defer os.RemoveAll(base)

	// path (relative to the root) -> "dir", "file" or "link=<target>"
	want := map[string]string{
		".":                           "dir",
		"plain.txt":                   "file",
		"caf\xc3\xa9.txt":             "file", // "café.txt" in UTF-8
		"\xe6\x95\xb0\xe6\x8d\xae":    "dir",  // two CJK characters in UTF-8
		"\xe6\x95\xb0\xe6\x8d\xae/f1": "file",
		"latin1-\xe9\xff.dat":         "file",                 // not valid UTF-8
		"link":                        "link=caf\xc3\xa9.txt", // symlink to a non-ASCII name
	}
	for p, typ := range want {
		full := filepath.Join(base, p)
		switch {
		case p == ".":
		case typ == "dir":
			if err := os.Mkdir(full, 0755); err != nil {
				t.Fatal(err)
			}
		}
	}
	for p, typ := range want {
		full := filepath.Join(base, p)
		switch {
		case typ == "file":
			if err := ioutil.WriteFile(full, []byte("content of "+p), 0644); err != nil {
				t.Fatal(err)
			}
		case strings.HasPrefix(typ, "link="):
			if err := os.Symlink(strings.TrimPrefix(typ, "link="), full); err != nil {
				t.Fatal(err)
			}
		}
	}

	// tar
	catar := new(bytes.Buffer)
	if err := Tar(context.Background(), catar, NewLocalFS(base, LocalFSOptions{})); err != nil {
		t.Fatal(err)
	}

	// untar with mtree output
	out := new(bytes.Buffer)
	mfs, err := NewMtreeFS(out)
	if err != nil {
		t.Fatal(err)
	}
	if err := UnTar(context.Background(), catar, mfs); err != nil {
		t.Fatal(err)
	}
	t.Logf("mtree output:\n%s", out.String())

	// Read the mtree back
	got := make(map[string]string)
	sc := bufio.NewScanner(out)
	for sc.Scan() {
		line := sc.Text()
		if strings.HasPrefix(line, "#") || line == "" {
			continue
		}
		fields := strings.Fields(line)
		name := demoC05MtreeUnescape(t, fields[0])
		var typ, target string
		for _, f := range fields[1:] {
			switch {
			case strings.HasPrefix(f, "type="):
				typ = strings.TrimPrefix(f, "type=")
			case strings.HasPrefix(f, "target="):
				target = demoC05MtreeUnescape(t, strings.TrimPrefix(f, "target="))
			}
		}
		if typ == "link" {
			typ = "link=" + target
		}
		got[name] = typ
	}

	var names []string
	for p := range want {
		names = append(names, p)
	}
	sort.Strings(names)
	for _, p := range names {
		g, ok := got[p]
		if !ok {
			t.Errorf("entry %q of the source tree is not in the mtree output", p)
			continue
		}
		if g != want[p] {
			t.Errorf("entry %q: want %q, got %q", p, want[p], g)
		}
	}
	for p := range got {
		if _, ok := want[p]; !ok {
			t.Errorf("mtree output lists %q which is not in the source tree", p)
		}
	}
}
