package desync

// Replay for verify / prune on a store whose base path is a symbolic link (C16): filepath.Walk does not follow
// a symlink given as its root, so the walk would see no chunk at all - verify reports nothing, prune removes nothing.

import (
	"bytes"
	"context"
	"fmt"
	"os"
	"path/filepath"
	"testing"
)

func TestZZReplaySymlinkedStore(t *testing.T) {
	dir := t.TempDir()
	real := filepath.Join(dir, "real")
	if err := os.Mkdir(real, 0o755); err != nil {
		t.Fatal(err)
	}
	link := filepath.Join(dir, "link")
	if err := os.Symlink(real, link); err != nil {
		t.Skip(err)
	}
	s, err := NewLocalStore(link, StoreOptions{})
	if err != nil {
		t.Fatal(err)
	}
	var goodID, badID ChunkID
	good := NewChunk([]byte("good chunk"))
	bad := NewChunk([]byte("chunk that will be damaged"))
	for _, c := range []*Chunk{good, bad} {
		if err := s.StoreChunk(c); err != nil {
			t.Fatal(err)
		}
	}
	goodID, badID = good.ID(), bad.ID()
	// damage one chunk: valid compression of other data under the same name
	other := NewChunk([]byte("something else"))
	ob, err := Compressor{}.toStorage([]byte("something else"))
	_ = other
	if err != nil {
		t.Fatal(err)
	}
	_, name := s.nameFromID(badID)
	if err := os.WriteFile(name, ob, 0o644); err != nil {
		t.Fatal(err)
	}
	var out bytes.Buffer
	if err := s.Verify(context.Background(), 2, false, &out); err != nil {
		t.Fatal(err)
	}
	t.Logf("verify output: %q", out.String())
	if !bytes.Contains(out.Bytes(), []byte(badID.String())) {
		fmt.Printf("REPLAY-CONFIRMED: verify of a store reached through a symlink does not report the damaged chunk %s (output %q)\n", badID.String(), out.String())
	}
	// prune with an empty keep set removes every chunk
	if err := s.Prune(context.Background(), map[ChunkID]struct{}{}); err != nil {
		t.Fatal(err)
	}
	if ok, _ := s.HasChunk(goodID); ok {
		fmt.Printf("REPLAY-CONFIRMED: prune of a store reached through a symlink leaves the unreferenced chunk %s in place\n", goodID.String())
	}
}
