// +build !windows

package desync

import (
	"bytes"
	"context"
	"encoding/binary"
	"fmt"
	"io/ioutil"
	"os"
	"path/filepath"
	"reflect"
	"sort"
	"testing"
)

// demoC13Parse is a small catar reader that does not use desync's decoder. It
// walks the element stream, checks every directory's goodbye table (items point
// back at FILENAME elements of the right size whose name hashes to the item's
// hash, tail marker offset/size are right) and returns the sorted list of paths
// (directories with a trailing slash) found in the archive.
func demoC13Parse(b []byte) ([]string, error) {
	var paths []string
	u64 := func(off int) uint64 { return binary.LittleEndian.Uint64(b[off : off+8]) }
	hdr := func(off int) (size, typ uint64, err error) {
		if off+16 > len(b) {
			return 0, 0, fmt.Errorf("truncated header at %d", off)
		}
		size, typ = u64(off), u64(off+8)
		if size < 16 || off+int(size) > len(b) {
			return 0, 0, fmt.Errorf("bad element size %d at %d", size, off)
		}
		return size, typ, nil
	}

	// parseEntry parses one entry (ENTRY ... up to and including its payload,
	// symlink, device or goodbye) starting at off and returns the offset after it.
	var parseEntry func(off int, p string) (int, error)
	parseEntry = func(off int, p string) (int, error) {
		entryStart := off
		size, typ, err := hdr(off)
		if err != nil {
			return 0, err
		}
		if typ != CaFormatEntry || size != 64 {
			return 0, fmt.Errorf("%q: expected ENTRY at %d, got type %x", p, off, typ)
		}
		mode := u64(off + 24)
		off += 64
		// xattrs etc.
		for {
			size, typ, err = hdr(off)
			if err != nil {
				return 0, err
			}
			if typ != CaFormatXAttr {
				break
			}
			off += int(size)
		}
		switch mode & 0170000 {
		case 0100000:
			if typ != CaFormatPayload {
				return 0, fmt.Errorf("%q: expected PAYLOAD, got %x", p, typ)
			}
			paths = append(paths, p)
			return off + int(size), nil
		case 0120000:
			if typ != CaFormatSymlink {
				return 0, fmt.Errorf("%q: expected SYMLINK, got %x", p, typ)
			}
			paths = append(paths, p)
			return off + int(size), nil
		case 0040000:
			paths = append(paths, p+"/")
			type child struct {
				name       string
				start, end int
			}
			var children []child
			for {
				size, typ, err = hdr(off)
				if err != nil {
					return 0, err
				}
				if typ == CaFormatGoodbye {
					break
				}
				if typ != CaFormatFilename {
					return 0, fmt.Errorf("%q: expected FILENAME or GOODBYE at %d, got %x", p, off, typ)
				}
				name := string(b[off+16 : off+int(size)-1])
				if len(children) > 0 && children[len(children)-1].name >= name {
					return 0, fmt.Errorf("%q: children out of order: %q after %q", p, name, children[len(children)-1].name)
				}
				start := off
				off, err = parseEntry(off+int(size), p+"/"+name)
				if err != nil {
					return 0, err
				}
				children = append(children, child{name, start, off})
			}
			// goodbye
			gb := off
			n := (int(size) - 16) / 24
			if n != len(children)+1 {
				return 0, fmt.Errorf("%q: goodbye has %d items for %d children", p, n, len(children))
			}
			seen := map[int]bool{}
			for i := 0; i < n-1; i++ {
				o, s, h := u64(gb+16+i*24), u64(gb+16+i*24+8), u64(gb+16+i*24+16)
				var found bool
				for _, c := range children {
					if gb-int(o) == c.start {
						if int(s) != c.end-c.start || h != SipHash([]byte(c.name)) {
							return 0, fmt.Errorf("%q: goodbye item for %q has wrong size/hash", p, c.name)
						}
						found = true
						seen[c.start] = true
					}
				}
				if !found {
					return 0, fmt.Errorf("%q: goodbye item %d points nowhere", p, i)
				}
				// BST order in array layout
				if l := 2*i + 1; l < n-1 && u64(gb+16+l*24+16) > h {
					return 0, fmt.Errorf("%q: goodbye BST order violated", p)
				}
				if r := 2*i + 2; r < n-1 && u64(gb+16+r*24+16) < h {
					return 0, fmt.Errorf("%q: goodbye BST order violated", p)
				}
			}
			if len(seen) != len(children) {
				return 0, fmt.Errorf("%q: goodbye table incomplete", p)
			}
			t := gb + 16 + (n-1)*24
			if u64(t+16) != CaFormatGoodbyeTailMarker || int(u64(t)) != gb-entryStart || u64(t+8) != size {
				return 0, fmt.Errorf("%q: bad goodbye tail", p)
			}
			return gb + int(size), nil
		default:
			return 0, fmt.Errorf("%q: unexpected mode %o", p, mode)
		}
	}
	end, err := parseEntry(0, ".")
	if err != nil {
		return nil, err
	}
	if end != len(b) {
		return nil, fmt.Errorf("%d trailing bytes after root entry", len(b)-end)
	}
	sort.Strings(paths)
	return paths, nil
}

// The archive of a directory must contain the directory's tree, however the
// caller spells the path of the directory.
func TestDemoC13RootSpelling(t *testing.T) {
	tmp, err := ioutil.TempDir("", "demoC13")
	if err != nil {
		t.Fatal(err)
	}
	defer os.RemoveAll(tmp)
	base := filepath.Join(tmp, "tree")
	for _, d := range []string{"a/b", "c", "lib"} {
		if err := os.MkdirAll(filepath.Join(base, d), 0755); err != nil {
			t.Fatal(err)
		}
	}
	for _, f := range []string{"a/b/f1", "a/f2", "c/f3", "top"} {
		if err := ioutil.WriteFile(filepath.Join(base, f), []byte("content of "+f), 0644); err != nil {
			t.Fatal(err)
		}
	}
	if err := os.Symlink("a", filepath.Join(base, "link")); err != nil {
		t.Fatal(err)
	}

	// What is on disk
	var want []string
	filepath.Walk(base, func(p string, info os.FileInfo, err error) error {
		rel, _ := filepath.Rel(base, p)
		rel = filepath.ToSlash(filepath.Join(".", rel))
		if rel != "." {
			rel = "./" + rel
		}
		if info.IsDir() {
			rel += "/"
		}
		want = append(want, rel)
		return nil
	})
	sort.Strings(want)

	// Relative spellings need a working directory
	wd, _ := os.Getwd()
	if err := os.Chdir(tmp); err != nil {
		t.Fatal(err)
	}
	defer os.Chdir(wd)

	spellings := []string{
		base,                       // clean absolute path
		"tree",                     // clean relative path
		base + "/",                 // trailing slash (shell completion)
		"tree/",                    //
		"./tree",                   // leading ./
		base + "/.",                //
		tmp + "//tree",             // doubled separator
		filepath.Join(base, "a") + "/../", // not normalised
	}
	var reference []byte
	for _, root := range spellings {
		var buf bytes.Buffer
		if err := Tar(context.Background(), &buf, NewLocalFS(root, LocalFSOptions{NoTime: true})); err != nil {
			t.Errorf("root %q: Tar: %v", root, err)
			continue
		}
		got, err := demoC13Parse(buf.Bytes())
		if err != nil {
			t.Errorf("root %q: archive is not well-formed: %v", root, err)
			continue
		}
		if !reflect.DeepEqual(got, want) {
			t.Errorf("root %q: archive (%d bytes) holds\n  %v\nbut the directory holds\n  %v", root, buf.Len(), got, want)
			continue
		}
		if reference == nil {
			reference = buf.Bytes()
		} else if !bytes.Equal(reference, buf.Bytes()) {
			t.Errorf("root %q: archive differs from the one made with root %q", root, spellings[0])
		}
	}
}
