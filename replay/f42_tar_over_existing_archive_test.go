// +build !windows

package main

// Demonstration for property C13 (archives written by desync are well-formed catar).
//
// Drop into cmd/desync/ and run from the worktree root:
//   go test -mod=mod -vet=off -count=1 -run 'TestDemoC13' ./cmd/desync/
//
// Scenario: `desync tar backup.catar <dir>` is run twice against the same output
// path (a nightly backup job), and the tree has shrunk in between. The archive
// file left behind must be exactly the catar of the current tree: the root
// directory's goodbye table has to be the last thing in the file (casync finds
// the root goodbye table by reading the tail marker from the END of the file).

import (
	"bytes"
	"context"
	"encoding/binary"
	"fmt"
	"io/ioutil"
	"os"
	"path/filepath"
	"syscall"
	"testing"

	"github.com/stretchr/testify/require"
)

const (
	demoEntry      = 0x1396fabcea5bbb51
	demoFilename   = 0x6dbb6ebcb3161f0b
	demoGoodbye    = 0xdfd35c5e8327c403
	demoTailMarker = 0x57446fa533702943
)

// demoCheckCatar is a minimal independent catar walker (it does not use desync's
// decoder). It steps through the elements by their size fields, tracks directory
// nesting and requires that the archive ends exactly where the root directory's
// goodbye element ends, and that this goodbye element ends in a tail marker whose
// offset points back to the very first byte of the archive.
func demoCheckCatar(b []byte) error {
	pos := uint64(0)
	depth := 0
	var dirStart []uint64 // start offsets of the entries of the open directories
	for {
		if uint64(len(b))-pos < 16 {
			return fmt.Errorf("truncated element header at %d (archive length %d)", pos, len(b))
		}
		size := binary.LittleEndian.Uint64(b[pos:])
		typ := binary.LittleEndian.Uint64(b[pos+8:])
		if size < 16 || pos+size > uint64(len(b)) {
			return fmt.Errorf("element at %d has bad size %d", pos, size)
		}
		switch typ {
		case demoEntry:
			if size != 64 {
				return fmt.Errorf("entry at %d has size %d", pos, size)
			}
			mode := binary.LittleEndian.Uint64(b[pos+24:])
			if mode&syscall.S_IFMT == syscall.S_IFDIR {
				depth++
				dirStart = append(dirStart, pos)
			}
		case demoGoodbye:
			if depth == 0 {
				return fmt.Errorf("goodbye at %d without open directory", pos)
			}
			if (size-16)%24 != 0 || size < 40 {
				return fmt.Errorf("goodbye at %d has size %d", pos, size)
			}
			tail := b[pos+size-24 : pos+size]
			tOff := binary.LittleEndian.Uint64(tail[0:])
			tSize := binary.LittleEndian.Uint64(tail[8:])
			tHash := binary.LittleEndian.Uint64(tail[16:])
			start := dirStart[len(dirStart)-1]
			if tHash != demoTailMarker || tSize != size || pos-tOff != start {
				return fmt.Errorf("goodbye at %d: bad tail marker (offset %d size %d hash %x), directory entry at %d", pos, tOff, tSize, tHash, start)
			}
			depth--
			dirStart = dirStart[:len(dirStart)-1]
			if depth == 0 {
				end := pos + size
				if end != uint64(len(b)) {
					return fmt.Errorf("root directory ends at byte %d but the archive file is %d bytes long: %d bytes of trailing data (a reader that locates the root goodbye table from the end of the file finds stale data)",
						end, len(b), uint64(len(b))-end)
				}
				return nil
			}
		case demoFilename:
			if depth == 0 {
				return fmt.Errorf("filename at %d outside of a directory", pos)
			}
		}
		pos += size
	}
}

func demoMakeTree(t *testing.T, dir string, files int) {
	require.NoError(t, os.MkdirAll(filepath.Join(dir, "sub"), 0755))
	for i := 0; i < files; i++ {
		name := filepath.Join(dir, "sub", fmt.Sprintf("file%03d", i))
		require.NoError(t, ioutil.WriteFile(name, bytes.Repeat([]byte{byte('a' + i%26)}, 1000), 0644))
	}
}

func demoRunTar(t *testing.T, archive, src string) {
	cmd := newTarCommand(context.Background())
	cmd.SetArgs([]string{archive, src})
	_, err := cmd.ExecuteC()
	require.NoError(t, err)
}

func TestDemoC13TarOverExistingArchive(t *testing.T) {
	base, err := ioutil.TempDir("", "demo-c13")
	require.NoError(t, err)
	defer os.RemoveAll(base)

	src := filepath.Join(base, "data")
	archive := filepath.Join(base, "backup.catar")
	fresh := filepath.Join(base, "fresh.catar")

	// First backup: 20 files
	demoMakeTree(t, src, 20)
	demoRunTar(t, archive, src)
	first, err := ioutil.ReadFile(archive)
	require.NoError(t, err)
	require.NoError(t, demoCheckCatar(first), "first archive")

	// The tree shrinks: only 2 files are left
	for i := 2; i < 20; i++ {
		require.NoError(t, os.Remove(filepath.Join(src, "sub", fmt.Sprintf("file%03d", i))))
	}

	// Second backup into the same output file, and one into a new file for reference
	demoRunTar(t, archive, src)
	demoRunTar(t, fresh, src)

	got, err := ioutil.ReadFile(archive)
	require.NoError(t, err)
	want, err := ioutil.ReadFile(fresh)
	require.NoError(t, err)
	require.NoError(t, demoCheckCatar(want), "reference archive written to a new file")

	t.Logf("first archive %d bytes, reference archive of the shrunk tree %d bytes, re-written archive %d bytes", len(first), len(want), len(got))

	if err := demoCheckCatar(got); err != nil {
		t.Errorf("archive re-written over an existing file is not a well-formed catar: %v", err)
	}
	if !bytes.Equal(got, want) {
		t.Errorf("archive re-written over an existing file (%d bytes) differs from the archive of the same tree written to a new file (%d bytes)", len(got), len(want))
	}
}
