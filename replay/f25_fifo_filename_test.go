package desync

import (
	"bytes"
	"context"
	"io/ioutil"
	"os"
	"path/filepath"
	"syscall"
	"testing"
)

// A directory holding a FIFO next to a regular file: every filename element of the archive must be followed by
// an entry element.
func TestZZReplayFifoFilenameWithoutEntry(t *testing.T) {
	dir, _ := ioutil.TempDir("", "fifo-")
	defer os.RemoveAll(dir)
	if err := syscall.Mkfifo(filepath.Join(dir, "a-fifo"), 0644); err != nil {
		t.Skip("mkfifo not available: ", err)
	}
	ioutil.WriteFile(filepath.Join(dir, "b-file"), []byte("x"), 0644)
	var buf bytes.Buffer
	if err := Tar(context.Background(), &buf, NewLocalFS(dir, LocalFSOptions{})); err != nil {
		t.Fatal(err)
	}
	d := NewFormatDecoder(bytes.NewReader(buf.Bytes()))
	prevFilename := ""
	for {
		e, err := d.Next()
		if err != nil {
			t.Fatalf("decoding what Tar wrote: %v", err)
		}
		if e == nil {
			break
		}
		switch x := e.(type) {
		case FormatFilename:
			if prevFilename != "" {
				t.Errorf("filename element %q is followed by filename element %q, not by an entry", prevFilename, x.Name)
			}
			prevFilename = x.Name
		case FormatEntry:
			prevFilename = ""
		case FormatGoodbye:
			if prevFilename != "" {
				t.Errorf("filename element %q is followed by the goodbye element, not by an entry", prevFilename)
			}
		}
	}
}
