package desync

// Replay for the chunk size bound (C02): min == avg == max is accepted by NewChunker; no chunk may
// exceed max.

import (
	"bytes"
	"fmt"
	"testing"
)

func TestZZReplayChunkerMinEqMax(t *testing.T) {
	data := make([]byte, 1000)
	for i := range data {
		data[i] = byte(i * 7)
	}
	c, err := NewChunker(bytes.NewReader(data), 64, 64, 64)
	if err != nil {
		t.Skip(err)
	}
	for {
		start, b, err := c.Next()
		if err != nil {
			t.Fatal(err)
		}
		if len(b) == 0 {
			break
		}
		if len(b) > 64 {
			fmt.Printf("REPLAY-CONFIRMED: chunk at %d has %d bytes with min=avg=max=64\n", start, len(b))
			return
		}
	}
}
