package desync

// Replays for the index server obligations (C15, C14): requests without the configured
// Authorization value must be refused, and HEAD must answer 200 for an existing index and
// 404 for a missing one.

import (
	"bytes"
	"fmt"
	"net/http"
	"net/http/httptest"
	"os"
	"path/filepath"
	"testing"
)

func zzIndexServer(t *testing.T, auth string, writable bool) (*httptest.Server, string) {
	dir := t.TempDir()
	s, err := NewLocalIndexStore(dir)
	if err != nil {
		t.Fatal(err)
	}
	var buf bytes.Buffer
	idx := Index{Index: FormatIndex{FeatureFlags: CaFormatSHA512256 | CaFormatExcludeNoDump, ChunkSizeMin: 1, ChunkSizeAvg: 2, ChunkSizeMax: 3}}
	idx.WriteTo(&buf)
	os.WriteFile(filepath.Join(dir, "there.caibx"), buf.Bytes(), 0o644)
	return httptest.NewServer(NewHTTPIndexHandler(s, writable, auth)), dir
}

func TestZZReplayIndexServerAuth(t *testing.T) {
	srv, dir := zzIndexServer(t, "Bearer secret", true)
	defer srv.Close()
	var hits []string
	resp, err := http.Get(srv.URL + "/there.caibx")
	if err == nil && resp.StatusCode != http.StatusUnauthorized {
		hits = append(hits, fmt.Sprintf("GET without Authorization: %d", resp.StatusCode))
	}
	req, _ := http.NewRequest("PUT", srv.URL+"/new.caibx", bytes.NewReader(func() []byte { b, _ := os.ReadFile(filepath.Join(dir, "there.caibx")); return b }()))
	req.Header.Set("Authorization", "Bearer wrong")
	resp, err = http.DefaultClient.Do(req)
	if err == nil && resp.StatusCode != http.StatusUnauthorized {
		_, serr := os.Stat(filepath.Join(dir, "new.caibx"))
		hits = append(hits, fmt.Sprintf("PUT with a wrong Authorization value: %d (file written: %v)", resp.StatusCode, serr == nil))
	}
	if len(hits) > 0 {
		fmt.Printf("REPLAY-CONFIRMED: index server with an authorization value configured: %v\n", hits)
	} else {
		fmt.Println("REPLAY-NOT-REPRODUCED")
	}
}

func TestZZReplayIndexServerHead(t *testing.T) {
	srv, _ := zzIndexServer(t, "", false)
	defer srv.Close()
	r1, err1 := http.Head(srv.URL + "/there.caibx")
	r2, err2 := http.Head(srv.URL + "/missing.caibx")
	if err1 == nil && err2 == nil && (r1.StatusCode != 200 || r2.StatusCode != 404) {
		fmt.Printf("REPLAY-CONFIRMED: HEAD existing index => %d, HEAD missing index => %d\n", r1.StatusCode, r2.StatusCode)
	} else {
		fmt.Println("REPLAY-NOT-REPRODUCED")
	}
}
