package desync

// Demonstration for property C02 (chunking follows the rolling-hash rule for every
// valid min/avg/max). Drop this file into the root package directory and run
//
//	go test -mod=mod -vet=off -count=1 -run 'TestDemoC02' .
//
// The expected chunk sequence is computed by an independent, deliberately naive
// implementation of the casync cut rule (48 byte buzhash window, first test at
// min+1, forced cut at max) and compared with Chunker.Next and IndexFromFile.

import (
	"bytes"
	"context"
	"fmt"
	"io/ioutil"
	"math/bits"
	"math/rand"
	"os"
	"testing"
)

type demoC02Chunk struct{ start, size uint64 }

// Naive reference: for every candidate end position recompute nothing but roll the
// window one byte at a time from the start of the chunk.
func demoC02Reference(data []byte, min, avg, max uint64) []demoC02Chunk {
	const w = 48
	disc := uint32(float64(avg) / (-1.42888852e-7*float64(avg) + 1.33237515))
	var out []demoC02Chunk
	var start uint64
	total := uint64(len(data))
	for start < total {
		rest := data[start:]
		if uint64(len(rest)) <= min {
			out = append(out, demoC02Chunk{start, uint64(len(rest))})
			break
		}
		limit := max
		if uint64(len(rest)) < limit {
			limit = uint64(len(rest))
		}
		// hash of the window ending at min
		var h uint32
		for i, b := range rest[min-w : min] {
			h ^= bits.RotateLeft32(hashTable[b], w-i-1)
		}
		size := limit
		for pos := min; pos < limit; pos++ {
			// window now ends at pos+1
			h = bits.RotateLeft32(h, 1) ^ bits.RotateLeft32(hashTable[rest[pos-w]], w) ^ hashTable[rest[pos]]
			if pos+1 >= limit {
				break
			}
			if h%disc == disc-1 {
				size = pos + 1
				break
			}
		}
		out = append(out, demoC02Chunk{start, size})
		start += size
	}
	return out
}

func demoC02Input() []byte {
	const MiB = 1 << 20
	r := rand.New(rand.NewSource(2))
	head := make([]byte, 6*MiB)
	r.Read(head)
	tail := make([]byte, 6*MiB)
	r.Read(tail)
	// random data, a long run without any cut point, random data
	return join(head, make([]byte, 40*MiB), tail)
}

func demoC02Check(t *testing.T, data []byte, min, avg, max uint64) {
	expected := demoC02Reference(data, min, avg, max)

	// Tiling / size bounds of the reference itself, to be sure the oracle is sane
	var pos uint64
	for i, c := range expected {
		if c.start != pos {
			t.Fatalf("reference does not tile at chunk %d", i)
		}
		if c.size > max || (i < len(expected)-1 && c.size < min) {
			t.Fatalf("reference chunk %d has size %d", i, c.size)
		}
		pos += c.size
	}
	if pos != uint64(len(data)) {
		t.Fatal("reference does not cover the input")
	}

	// Single stream
	c, err := NewChunker(bytes.NewReader(data), min, avg, max)
	if err != nil {
		t.Fatal(err)
	}
	var got []demoC02Chunk
	for {
		start, b, err := c.Next()
		if err != nil {
			t.Fatal(err)
		}
		if len(b) == 0 {
			break
		}
		got = append(got, demoC02Chunk{start, uint64(len(b))})
	}
	if fmt.Sprint(got) != fmt.Sprint(expected) {
		t.Errorf("Chunker.Next with %d:%d:%d\n  got      %v\n  expected %v", min, avg, max, got, expected)
	}

	// Parallel
	f, err := ioutil.TempFile("", "demoC02")
	if err != nil {
		t.Fatal(err)
	}
	defer os.Remove(f.Name())
	if _, err := f.Write(data); err != nil {
		t.Fatal(err)
	}
	f.Close()
	for _, n := range []int{1, 2, 3} {
		idx, _, err := IndexFromFile(context.Background(), f.Name(), n, min, avg, max, NewProgressBar(""))
		if err != nil {
			t.Fatal(err)
		}
		if idx.Index.ChunkSizeMin != min || idx.Index.ChunkSizeAvg != avg || idx.Index.ChunkSizeMax != max {
			t.Errorf("n=%d: index records %d:%d:%d", n, idx.Index.ChunkSizeMin, idx.Index.ChunkSizeAvg, idx.Index.ChunkSizeMax)
		}
		var got []demoC02Chunk
		for _, ch := range idx.Chunks {
			got = append(got, demoC02Chunk{ch.Start, ch.Size})
			if ch.Start+ch.Size <= uint64(len(data)) && ch.ID != Digest.Sum(data[ch.Start:ch.Start+ch.Size]) {
				t.Errorf("n=%d: wrong ID for chunk at %d", n, ch.Start)
			}
		}
		if fmt.Sprint(got) != fmt.Sprint(expected) {
			t.Errorf("IndexFromFile n=%d with %d:%d:%d\n  got      %v\n  expected %v", n, min, avg, max, got, expected)
		}
	}
}

// Control: the default sizes
func TestDemoC02DefaultSizes(t *testing.T) {
	demoC02Check(t, demoC02Input()[:12<<20], 16<<10, 64<<10, 256<<10)
}

// `desync make -m 256:1024:32768`
func TestDemoC02LargeMax(t *testing.T) {
	demoC02Check(t, demoC02Input(), 256<<10, 1<<20, 32<<20)
}
