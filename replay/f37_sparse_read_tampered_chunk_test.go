package desync

import (
	"bytes"
	"io/ioutil"
	"os"
	"path/filepath"
	"testing"
	"time"
)

// Demonstration for property C03: a copy-on-read sparse file (the backend of
// "desync mount-index --cor-file") must fail a read rather than hand out bytes
// that differ from the indexed blob when the store holds a tampered chunk.

// slowGoodStore delays every successful GetChunk a little, the way a remote
// store would, so that the refusal of the tampered chunk is reported first.
type slowGoodStore struct {
	Store
	delay time.Duration
}

func (s slowGoodStore) GetChunk(id ChunkID) (*Chunk, error) {
	c, err := s.Store.GetChunk(id)
	if err == nil {
		time.Sleep(s.delay)
	}
	return c, err
}

func demoC03CopyStore(t *testing.T, src string) string {
	dst, err := ioutil.TempDir("", "demoC03-store")
	if err != nil {
		t.Fatal(err)
	}
	err = filepath.Walk(src, func(p string, info os.FileInfo, err error) error {
		if err != nil {
			return err
		}
		rel, _ := filepath.Rel(src, p)
		if info.IsDir() {
			return os.MkdirAll(filepath.Join(dst, rel), 0755)
		}
		b, err := ioutil.ReadFile(p)
		if err != nil {
			return err
		}
		return ioutil.WriteFile(filepath.Join(dst, rel), b, 0644)
	})
	if err != nil {
		t.Fatal(err)
	}
	return dst
}

func demoC03Setup(t *testing.T) (idx Index, blob []byte, store LocalStore, victim int, cleanup func()) {
	f, err := os.Open("testdata/blob1.caibx")
	if err != nil {
		t.Fatal(err)
	}
	defer f.Close()
	idx, err = IndexFromReader(f)
	if err != nil {
		t.Fatal(err)
	}
	blob, err = ioutil.ReadFile("testdata/blob1")
	if err != nil {
		t.Fatal(err)
	}
	dir := demoC03CopyStore(t, "testdata/blob1.store")
	store, err = NewLocalStore(dir, StoreOptions{}) // verification NOT disabled
	if err != nil {
		t.Fatal(err)
	}

	// Pick a chunk in the middle that occurs only once and is not all zeros
	null := NewNullChunk(idx.Index.ChunkSizeMax)
	count := make(map[ChunkID]int)
	for _, c := range idx.Chunks {
		count[c.ID]++
	}
	victim = -1
	for i := len(idx.Chunks) / 2; i < len(idx.Chunks)-2; i++ {
		c := idx.Chunks[i]
		if c.ID != null.ID && count[c.ID] == 1 && !bytes.Equal(blob[c.Start:c.Start+c.Size], make([]byte, c.Size)) {
			victim = i
			break
		}
	}
	if victim < 1 {
		t.Fatal("no suitable chunk")
	}

	// Tamper with the stored object: same length, a few bits flipped, packed
	// into a perfectly valid zstd frame.
	vc := idx.Chunks[victim]
	bad := append([]byte{}, blob[vc.Start:vc.Start+vc.Size]...)
	for i := range bad {
		bad[i] ^= 0x01
	}
	z, err := Compress(bad)
	if err != nil {
		t.Fatal(err)
	}
	_, p := store.nameFromID(vc.ID)
	if err := ioutil.WriteFile(p, z, 0644); err != nil {
		t.Fatal(err)
	}
	// Sanity: the store itself refuses the object
	if _, err := store.GetChunk(vc.ID); err == nil {
		t.Fatal("store accepted the tampered chunk")
	}
	return idx, blob, store, victim, func() { os.RemoveAll(dir) }
}

func demoC03Check(t *testing.T, h *SparseFileHandle, blob []byte, off, length uint64, what string) {
	got := make([]byte, length)
	n, err := h.ReadAt(got, int64(off))
	if err != nil {
		t.Logf("%s: read refused as required: %v", what, err)
		return
	}
	want := blob[off : off+length]
	if !bytes.Equal(got[:n], want[:n]) || uint64(n) != length {
		diff := 0
		for i := 0; i < n; i++ {
			if got[i] != want[i] {
				diff++
			}
		}
		t.Errorf("%s: ReadAt(off=%d,len=%d) returned n=%d err=nil but %d bytes differ from the indexed blob (tampered chunk in store)", what, off, length, n, diff)
		return
	}
	t.Errorf("%s: read succeeded with correct bytes although the chunk is not obtainable?!", what)
}

// A read spanning the tampered chunk and its neighbours, store with some latency.
func TestDemoC03SparseReadSpanningTamperedChunk(t *testing.T) {
	idx, blob, store, victim, cleanup := demoC03Setup(t)
	defer cleanup()

	sparse, err := ioutil.TempFile("", "demoC03-sparse")
	if err != nil {
		t.Fatal(err)
	}
	sparse.Close()
	defer os.Remove(sparse.Name())

	sf, err := NewSparseFile(sparse.Name(), idx, slowGoodStore{store, 30 * time.Millisecond}, SparseFileOptions{})
	if err != nil {
		t.Fatal(err)
	}
	h, err := sf.Open()
	if err != nil {
		t.Fatal(err)
	}
	defer h.Close()

	first, last := idx.Chunks[victim-1], idx.Chunks[victim+1]
	off := first.Start
	length := last.Start + last.Size - off

	demoC03Check(t, h, blob, off, length, "first read")
	// and again: whatever happened the first time, it must not turn into "good" data later
	demoC03Check(t, h, blob, off, length, "second read")

	// a read of only the tampered chunk has to fail in any case
	vc := idx.Chunks[victim]
	demoC03Check(t, h, blob, vc.Start, vc.Size, "victim only")
}

// Same thing without any artificial latency: read the whole blob in one go from
// the plain local store.
func TestDemoC03SparseReadWholeBlob(t *testing.T) {
	idx, blob, store, _, cleanup := demoC03Setup(t)
	defer cleanup()

	for round := 0; round < 5; round++ {
		sparse, err := ioutil.TempFile("", "demoC03-sparse")
		if err != nil {
			t.Fatal(err)
		}
		sparse.Close()
		defer os.Remove(sparse.Name())

		sf, err := NewSparseFile(sparse.Name(), idx, store, SparseFileOptions{})
		if err != nil {
			t.Fatal(err)
		}
		h, err := sf.Open()
		if err != nil {
			t.Fatal(err)
		}
		demoC03Check(t, h, blob, 0, uint64(idx.Length()), "whole blob")
		h.Close()
	}
}
