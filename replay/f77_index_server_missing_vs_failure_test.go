package desync

import (
	"errors"
	"io"
	"net/http"
	"net/http/httptest"
	"net/url"
	"os"
	"testing"
)

// Reproducers for defects in the UNCHANGED code (see defect.md). Both tests FAIL
// on the unchanged code; they describe what property C14 demands.

type failingIndexStore struct{}

func (failingIndexStore) GetIndexReader(name string) (io.ReadCloser, error) {
	return nil, errors.New("upstream index store unreachable")
}
func (failingIndexStore) GetIndex(name string) (Index, error) {
	return Index{}, errors.New("upstream index store unreachable")
}
func (failingIndexStore) Close() error   { return nil }
func (failingIndexStore) String() string { return "failing" }

// D1: HEAD on the index server answers 404 (missing) for ANY upstream error.
func TestDefectC14IndexHeadFailureReportedAsMissing(t *testing.T) {
	srv := httptest.NewServer(NewHTTPIndexHandler(failingIndexStore{}, false, ""))
	defer srv.Close()

	resp, err := http.Head(srv.URL + "/some.caibx")
	if err != nil {
		t.Fatal(err)
	}
	resp.Body.Close()
	if resp.StatusCode == http.StatusNotFound {
		t.Fatalf("upstream failure was reported as missing: HEAD returned %d", resp.StatusCode)
	}
}

// D2: an index server that proxies another (non-local) index store answers 400 for
// an index that is simply missing, so the client sees a failure instead of "missing".
func TestDefectC14ProxiedIndexMissingReportedAsFailure(t *testing.T) {
	local, err := NewLocalIndexStore(t.TempDir())
	if err != nil {
		t.Fatal(err)
	}
	a := httptest.NewServer(NewHTTPIndexHandler(local, false, ""))
	defer a.Close()
	ua, _ := url.Parse(a.URL)
	direct, err := NewRemoteHTTPIndexStore(ua, StoreOptions{ErrorRetry: 1})
	if err != nil {
		t.Fatal(err)
	}

	// Directly against the index server backed by a local store: reported as missing
	_, err = direct.GetIndex("nope.caibx")
	if _, ok := err.(NoSuchObject); !ok {
		t.Fatalf("direct: expected NoSuchObject, got %T %v", err, err)
	}

	// Through a second index server that uses the first as upstream
	ua2, _ := url.Parse(a.URL)
	hop, err := NewRemoteHTTPIndexStore(ua2, StoreOptions{ErrorRetry: 1})
	if err != nil {
		t.Fatal(err)
	}
	b := httptest.NewServer(NewHTTPIndexHandler(hop, false, ""))
	defer b.Close()
	ub, _ := url.Parse(b.URL)
	client, err := NewRemoteHTTPIndexStore(ub, StoreOptions{ErrorRetry: 1})
	if err != nil {
		t.Fatal(err)
	}
	_, err = client.GetIndex("nope.caibx")
	if _, ok := err.(NoSuchObject); !ok && !os.IsNotExist(err) {
		t.Fatalf("proxied: missing index reported as a failure: %T %v", err, err)
	}
}
