package main

import (
	"context"
	"io/ioutil"
	"math/rand"
	"os"
	"path/filepath"
	"testing"

	"github.com/folbricht/desync"
	"github.com/stretchr/testify/require"
)

// Demo for property C06: when "make -s" reports success, the freshly produced
// index has to describe its input exactly (length equals the input size, every
// range hashes to its ID) and every referenced chunk has to be readable from the
// target store. The input has duplicate chunks in the middle (a run of zeros
// between two random sections, like a sparse disk image).
func TestDemoC06MakeIndexDescribesInput(t *testing.T) {
	dir, err := ioutil.TempDir("", "demoC06")
	require.NoError(t, err)
	defer os.RemoveAll(dir)

	store := filepath.Join(dir, "store")
	require.NoError(t, os.Mkdir(store, 0755))
	indexFile := filepath.Join(dir, "blob.caibx")
	dataFile := filepath.Join(dir, "blob")

	// random | zeros (several max-size null chunks) | random
	rnd := rand.New(rand.NewSource(6))
	head := make([]byte, 512*1024)
	rnd.Read(head)
	tail := make([]byte, 512*1024)
	rnd.Read(tail)
	var data []byte
	data = append(data, head...)
	data = append(data, make([]byte, 5*256*1024)...)
	data = append(data, tail...)
	require.NoError(t, ioutil.WriteFile(dataFile, data, 0644))

	cmd := newMakeCommand(context.Background())
	cmd.SetArgs([]string{"-s", store, indexFile, dataFile})
	stderr = ioutil.Discard
	cmd.SetOutput(ioutil.Discard)
	_, err = cmd.ExecuteC()
	require.NoError(t, err, "make has to report success on a healthy store")

	// Read back what make produced
	f, err := os.Open(indexFile)
	require.NoError(t, err)
	defer f.Close()
	idx, err := desync.IndexFromReader(f)
	require.NoError(t, err)
	s, err := desync.NewLocalStore(store, desync.StoreOptions{})
	require.NoError(t, err)

	// The input must contain duplicate chunks for this demo to be meaningful
	seen := make(map[desync.ChunkID]int)
	for _, c := range idx.Chunks {
		seen[c.ID]++
	}
	t.Logf("index has %d chunks, %d unique", len(idx.Chunks), len(seen))

	require.Equal(t, int64(len(data)), idx.Length(), "index length differs from the input size")

	for i, c := range idx.Chunks {
		require.LessOrEqual(t, c.Start+c.Size, uint64(len(data)), "chunk %d beyond the input", i)
		sum := desync.NewChunk(data[c.Start : c.Start+c.Size]).ID()
		require.Equal(t, c.ID, sum, "chunk %d (start %d, size %d) of the index does not hash to its ID", i, c.Start, c.Size)

		chunk, err := s.GetChunk(c.ID)
		require.NoError(t, err, "chunk %d not readable from the target store", i)
		b, err := chunk.Data()
		require.NoError(t, err)
		require.Equal(t, data[c.Start:c.Start+c.Size], b, "chunk %d in the store differs from the input range", i)
	}
}
