package desync

import (
	"bytes"
	"context"
	"io/ioutil"
	"os"
	"path/filepath"
	"strings"
	"testing"
	"time"
)

func TestZZReplayNamelessEntries(t *testing.T) {
	sandbox, _ := ioutil.TempDir("", "hole-")
	defer os.RemoveAll(sandbox)
	dest := filepath.Join(sandbox, "dest")
	sibling := filepath.Join(sandbox, "sibling")
	os.Mkdir(dest, 0755)
	os.Mkdir(sibling, 0755)

	var buf bytes.Buffer
	enc := NewFormatEncoder(&buf)
	put := func(v interface{}) { enc.Encode(v) }
	entry := func(mode os.FileMode) FormatEntry {
		return FormatEntry{FormatHeader: FormatHeader{Size: 64, Type: CaFormatEntry}, FeatureFlags: TarFeatureFlags, Mode: mode, UID: os.Getuid(), GID: os.Getgid(), MTime: time.Unix(1500000000, 0)}
	}
	filename := func(name string) FormatFilename {
		return FormatFilename{FormatHeader: FormatHeader{Size: uint64(16 + len(name) + 1), Type: CaFormatFilename}, Name: name}
	}
	payload := func(b string) FormatPayload {
		return FormatPayload{FormatHeader: FormatHeader{Size: uint64(16 + len(b)), Type: CaFormatPayload}, Data: strings.NewReader(b)}
	}
	goodbye := FormatGoodbye{FormatHeader: FormatHeader{Size: 40, Type: CaFormatGoodbye}, Items: []FormatGoodbyeItem{{Hash: CaFormatGoodbyeTailMarker}}}
	target := sibling
	put(entry(os.ModeDir | 0755))
	put(filename("d"))
	put(entry(os.ModeDir | 0755))
	put(filename("f"))
	put(entry(0644))
	put(payload("x"))
	put(entry(0644)) // nameless file: replaces d by a file
	put(payload("y"))
	put(entry(os.ModeSymlink | 0777)) // nameless symlink: replaces d by a link
	put(FormatSymlink{FormatHeader: FormatHeader{Size: uint64(16 + len(target) + 1), Type: CaFormatSymlink}, Target: target})
	put(filename("pwned"))
	put(entry(0644))
	put(payload("z"))
	put(goodbye)
	put(goodbye)

	err := UnTar(context.Background(), &buf, NewLocalFS(dest, LocalFSOptions{}))
	t.Logf("UnTar: %v", err)
	if _, err := os.Lstat(filepath.Join(sibling, "pwned")); err == nil {
		t.Errorf("escaped: sibling/pwned exists")
	}
}
