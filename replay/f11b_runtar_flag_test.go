package main

// Replay for the digest flag of `desync tar -i` (C02/C05): with the SHA256 digest configured the
// produced index must not be flagged SHA512/256 (its own reader would reject it).

import (
	"context"
	"fmt"
	"os"
	"path/filepath"
	"testing"

	"github.com/folbricht/desync"
)

func TestZZReplayTarIndexDigestFlag(t *testing.T) {
	old := desync.Digest
	defer func() { desync.Digest = old }()
	desync.Digest = desync.SHA256{}
	out := t.TempDir()
	index := filepath.Join(out, "tree.caidx")
	cmd := newTarCommand(context.Background())
	cmd.SetArgs([]string{"-s", out, "-i", index, "testdata/tree"})
	if _, err := cmd.ExecuteC(); err != nil {
		t.Fatal(err)
	}
	f, err := os.Open(index)
	if err != nil {
		t.Fatal(err)
	}
	defer f.Close()
	_, rerr := desync.IndexFromReader(f)
	t.Logf("reading the produced index back: %v", rerr)
	if rerr != nil {
		fmt.Printf("REPLAY-CONFIRMED: desync tar -i with the SHA256 digest wrote an index that desync itself rejects: %v\n", rerr)
	}
}
