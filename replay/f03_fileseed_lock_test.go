package desync

// Replay for the lock balance of FileSeed.LongestMatchWith (C01, "never hangs"): after a call that
// returns early (no chunks asked about, empty seed, or seed marked invalid) the read lock must be
// released, or the next writer (SetInvalid, RegenerateIndex) blocks forever.

import (
	"fmt"
	"testing"
	"time"
)

func TestZZReplayFileSeedLockLeak(t *testing.T) {
	idx := Index{Chunks: []IndexChunk{{ID: ChunkID{1}, Start: 0, Size: 10}}}
	seed, err := NewIndexSeed("/nonexistent-dst", "/nonexistent-src", idx)
	if err != nil {
		t.Fatal(err)
	}
	seed.SetInvalid(true)
	seed.LongestMatchWith(idx.Chunks) // invalid seed: early return
	done := make(chan struct{})
	go func() {
		seed.SetInvalid(false)
		close(done)
	}()
	select {
	case <-done:
	case <-time.After(2 * time.Second):
		fmt.Println("REPLAY-CONFIRMED: SetInvalid blocks forever after LongestMatchWith returned early on an invalid seed (read lock never released)")
	}
}
