package desync

import (
	"errors"
	"io/ioutil"
	"os"
	"path/filepath"
	"sync"
	"sync/atomic"
	"testing"
	"time"

	"github.com/stretchr/testify/require"
)

// demoC10Store wraps a store, counts GetChunk calls and can be switched to
// fail every request (an upstream store that's temporarily down).
type demoC10Store struct {
	Store
	mu    sync.Mutex
	fail  bool
	calls int64
}

func (s *demoC10Store) GetChunk(id ChunkID) (*Chunk, error) {
	atomic.AddInt64(&s.calls, 1)
	s.mu.Lock()
	fail := s.fail
	s.mu.Unlock()
	if fail {
		return nil, errors.New("demo: store temporarily unavailable")
	}
	return s.Store.GetChunk(id)
}

// Pre-load from a state file (--cor-state-init, no --cor-state-save) while the
// store is down, then restart with the same cache file, index and options once
// the store is healthy again. Every read must return the blob's bytes (or an
// error), never the unpopulated zeros of the cache file.
func TestDemoC10PreloadRestartAfterStoreFailure(t *testing.T) {
	dir, err := ioutil.TempDir("", "demo-c10")
	require.NoError(t, err)
	defer os.RemoveAll(dir)

	ls, err := NewLocalStore("testdata/blob1.store", StoreOptions{})
	require.NoError(t, err)
	defer ls.Close()

	indexFile, err := os.Open("testdata/blob1.caibx")
	require.NoError(t, err)
	defer indexFile.Close()
	index, err := IndexFromReader(indexFile)
	require.NoError(t, err)

	blob, err := ioutil.ReadFile("testdata/blob1")
	require.NoError(t, err)
	require.Equal(t, index.Length(), int64(len(blob)))

	// Step 0: Produce an init state file on "another machine": a different cache
	// file that has been read completely, with its state saved.
	initState := filepath.Join(dir, "init.state")
	{
		other, err := NewSparseFile(filepath.Join(dir, "other.cor"), index, ls, SparseFileOptions{StateSaveFile: initState})
		require.NoError(t, err)
		h, err := other.Open()
		require.NoError(t, err)
		whole := make([]byte, index.Length())
		_, err = h.ReadAt(whole, 0)
		require.NoError(t, err)
		require.Equal(t, blob, whole)
		h.Close()
		require.NoError(t, other.WriteState())
	}

	cache := filepath.Join(dir, "blob1.cor")
	opt := SparseFileOptions{StateInitFile: initState, StateInitConcurrency: 4}

	// Count the chunks that will be pre-loaded (all non-null chunks are marked in the state)
	var marked int64
	{
		b, err := ioutil.ReadFile(initState)
		require.NoError(t, err)
		for i := range index.Chunks {
			if b[i/8]&(1<<uint(i%8)) != 0 {
				marked++
			}
		}
		require.True(t, marked > 0)
	}

	// Step 1: First start. The cache file is created and pre-loading starts, but
	// the store is down so none of the chunks make it into the cache file.
	s := &demoC10Store{Store: ls, fail: true}
	_, err = NewSparseFile(cache, index, s, opt)
	require.NoError(t, err)
	deadline := time.Now().Add(30 * time.Second)
	for atomic.LoadInt64(&s.calls) < marked && time.Now().Before(deadline) {
		time.Sleep(10 * time.Millisecond)
	}
	require.Equal(t, marked, atomic.LoadInt64(&s.calls), "pre-load should have tried every marked chunk")
	time.Sleep(100 * time.Millisecond)

	// Step 2: Restart with the very same cache file, index and options. The store is back.
	s = &demoC10Store{Store: ls}
	sparse, err := NewSparseFile(cache, index, s, opt)
	require.NoError(t, err)
	h, err := sparse.Open()
	require.NoError(t, err)
	defer h.Close()

	// A small read in the middle of the 2nd chunk
	off := int64(index.Chunks[1].Start) + 100
	small := make([]byte, 1000)
	_, err = h.ReadAt(small, off)
	require.NoError(t, err)
	if string(small) != string(blob[off:off+1000]) {
		t.Errorf("read of 1000 bytes at offset %d doesn't match the blob (all zero: %v), upstream GetChunk calls so far: %d",
			off, string(small) == string(make([]byte, 1000)), atomic.LoadInt64(&s.calls))
	}

	// The whole blob
	whole := make([]byte, index.Length())
	_, err = h.ReadAt(whole, 0)
	require.NoError(t, err)
	if string(whole) != string(blob) {
		var zero int
		for _, c := range whole {
			if c == 0 {
				zero++
			}
		}
		t.Errorf("whole-file read doesn't match the blob: %d of %d bytes are zero, upstream GetChunk calls after restart: %d",
			zero, len(whole), atomic.LoadInt64(&s.calls))
	}
}
