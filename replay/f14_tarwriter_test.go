package desync

// Replay for the GNU tar output obligations (C05): a character device node and a set-uid file
// written through TarWriter, read back with archive/tar.

import (
	gnutar "archive/tar"
	"bytes"
	"fmt"
	"os"
	"testing"
	"time"
)

func TestZZReplayTarWriterCharDevice(t *testing.T) {
	var b bytes.Buffer
	w := NewTarWriter(&b)
	mode := StatModeToFilemode(0020644) // S_IFCHR | 0644
	if err := w.CreateDevice(NodeDevice{Name: "null", Mode: mode, Major: 1, Minor: 3, MTime: time.Unix(1, 0)}); err != nil {
		t.Fatal(err)
	}
	w.Close()
	hdr, err := gnutar.NewReader(&b).Next()
	if err != nil {
		t.Fatal(err)
	}
	t.Logf("typeflag %q mode %o", hdr.Typeflag, hdr.Mode)
	if hdr.Typeflag != gnutar.TypeChar {
		fmt.Printf("REPLAY-CONFIRMED: character device (mode %v) written with tar type flag %q (block device is '4', character device '3')\n", mode, hdr.Typeflag)
	}
}

func TestZZReplayTarWriterSetuid(t *testing.T) {
	var b bytes.Buffer
	w := NewTarWriter(&b)
	mode := StatModeToFilemode(0104755) // S_IFREG | setuid | 0755
	if err := w.CreateFile(NodeFile{Name: "su", Mode: mode, Size: 0, Data: bytes.NewReader(nil), MTime: time.Unix(1, 0)}); err != nil {
		t.Fatal(err)
	}
	w.Close()
	hdr, err := gnutar.NewReader(&b).Next()
	if err != nil {
		t.Fatal(err)
	}
	t.Logf("mode %o (%v)", hdr.Mode, os.FileMode(hdr.Mode))
	if hdr.Mode&04000 == 0 {
		fmt.Printf("REPLAY-CONFIRMED: set-uid file (mode %v) written with tar header mode %o: the unix set-uid bit 04000 is not set\n", mode, hdr.Mode)
	}
}
