package desync

// Demonstration for property C18 (unpacking never creates or modifies anything
// outside the destination directory).
//
// The archive contains nothing but a root directory and one symlink entry whose
// target is a file next to (not beneath) the destination. All names are valid
// single components. Unpacking with the default options (same owner, as
// `desync untar` does without --no-same-owner) must give the archive's owner
// to the link itself and must leave the file the link points to alone.
//
// Run from the worktree root (needs root, as chown to another uid does):
//   go test -mod=mod -vet=off -count=1 -run 'TestDemoC18' .

import (
	"bytes"
	"context"
	"fmt"
	"io/ioutil"
	"os"
	"path/filepath"
	"syscall"
	"testing"
	"time"
)

const (
	demoC18UID = 4242
	demoC18GID = 4343
)

// demoC18Archive builds: root dir entry, filename "link", symlink entry
// (owner 4242:4343) -> target, goodbye.
func demoC18Archive(t *testing.T, target string) []byte {
	var buf bytes.Buffer
	enc := NewFormatEncoder(&buf)
	mtime := time.Unix(1500000000, 0)
	elements := []interface{}{
		FormatEntry{
			FormatHeader: FormatHeader{Size: 64, Type: CaFormatEntry},
			Mode:         os.ModeDir | 0755,
			UID:          0,
			GID:          0,
			MTime:        mtime,
		},
		FormatFilename{
			FormatHeader: FormatHeader{Size: uint64(16 + len("link") + 1), Type: CaFormatFilename},
			Name:         "link",
		},
		FormatEntry{
			FormatHeader: FormatHeader{Size: 64, Type: CaFormatEntry},
			Mode:         os.ModeSymlink | 0777,
			UID:          demoC18UID,
			GID:          demoC18GID,
			MTime:        mtime,
		},
		FormatSymlink{
			FormatHeader: FormatHeader{Size: uint64(16 + len(target) + 1), Type: CaFormatSymlink},
			Target:       target,
		},
		FormatGoodbye{
			FormatHeader: FormatHeader{Size: 16 + 24, Type: CaFormatGoodbye},
			Items:        []FormatGoodbyeItem{{Offset: 0, Size: 0, Hash: CaFormatGoodbyeTailMarker}},
		},
	}
	for _, e := range elements {
		if _, err := enc.Encode(e); err != nil {
			t.Fatal(err)
		}
	}
	return buf.Bytes()
}

func demoC18Owner(t *testing.T, name string) string {
	info, err := os.Lstat(name)
	if err != nil {
		t.Fatal(err)
	}
	st := info.Sys().(*syscall.Stat_t)
	return fmt.Sprintf("%d:%d", st.Uid, st.Gid)
}

// demoC18Sandbox creates parent/{dest,sentinel.txt,sentineldir} and returns the
// paths. The sentinels are siblings of the destination.
func demoC18Sandbox(t *testing.T) (parent, dest, sentinel string) {
	parent, err := ioutil.TempDir("", "demoC18")
	if err != nil {
		t.Fatal(err)
	}
	dest = filepath.Join(parent, "dest")
	if err := os.Mkdir(dest, 0755); err != nil {
		t.Fatal(err)
	}
	sentinel = filepath.Join(parent, "sentinel.txt")
	if err := ioutil.WriteFile(sentinel, []byte("keep me\n"), 0600); err != nil {
		t.Fatal(err)
	}
	return parent, dest, sentinel
}

func demoC18Check(t *testing.T, dest, sentinel, before string) {
	if got := demoC18Owner(t, filepath.Join(dest, "link")); got != fmt.Sprintf("%d:%d", demoC18UID, demoC18GID) {
		t.Errorf("owner of the unpacked link itself is %s, want %d:%d", got, demoC18UID, demoC18GID)
	}
	if after := demoC18Owner(t, sentinel); after != before {
		t.Errorf("C18 violated: owner of %s (outside the destination %s) changed from %s to %s by unpacking",
			sentinel, dest, before, after)
	}
}

// Disk writer fed from a catar stream.
func TestDemoC18UnTar(t *testing.T) {
	if os.Getuid() != 0 {
		t.Skip("needs root to chown")
	}
	parent, dest, sentinel := demoC18Sandbox(t)
	defer os.RemoveAll(parent)
	before := demoC18Owner(t, sentinel)

	catar := demoC18Archive(t, "../sentinel.txt")
	if err := UnTar(context.Background(), bytes.NewReader(catar), NewLocalFS(dest, LocalFSOptions{})); err != nil {
		t.Logf("UnTar returned: %v", err) // failing is allowed, escaping is not
	}
	demoC18Check(t, dest, sentinel, before)
}

// Chunked path (untar -i): the same archive as a single chunk in a local store.
func TestDemoC18UnTarIndex(t *testing.T) {
	if os.Getuid() != 0 {
		t.Skip("needs root to chown")
	}
	parent, dest, sentinel := demoC18Sandbox(t)
	defer os.RemoveAll(parent)
	before := demoC18Owner(t, sentinel)

	storeDir := filepath.Join(parent, "store")
	if err := os.Mkdir(storeDir, 0755); err != nil {
		t.Fatal(err)
	}
	s, err := NewLocalStore(storeDir, StoreOptions{})
	if err != nil {
		t.Fatal(err)
	}
	// absolute target this time
	catar := demoC18Archive(t, sentinel)
	chunk := NewChunk(catar)
	if err := s.StoreChunk(chunk); err != nil {
		t.Fatal(err)
	}
	index := Index{Chunks: []IndexChunk{{ID: chunk.ID(), Start: 0, Size: uint64(len(catar))}}}

	if err := UnTarIndex(context.Background(), NewLocalFS(dest, LocalFSOptions{}), index, s, 2, NewProgressBar("")); err != nil {
		t.Logf("UnTarIndex returned: %v", err)
	}
	demoC18Check(t, dest, sentinel, before)
}
