// +build !windows

package desync

import (
	"bytes"
	"context"
	"errors"
	"io/ioutil"
	"os"
	"sync"
	"testing"

	"github.com/hanwen/go-fuse/v2/fs"
)

// demoC09FlakyStore wraps a store and fails GetChunk for one chunk ID while
// 'fail' is set (a transient store/network error).
type demoC09FlakyStore struct {
	Store
	mu     sync.Mutex
	failID ChunkID
	fail   bool
}

func (s *demoC09FlakyStore) GetChunk(id ChunkID) (*Chunk, error) {
	s.mu.Lock()
	fail := s.fail && id == s.failID
	s.mu.Unlock()
	if fail {
		return nil, errors.New("demo: transient store failure")
	}
	return s.Store.GetChunk(id)
}

func (s *demoC09FlakyStore) setFail(b bool) {
	s.mu.Lock()
	s.fail = b
	s.mu.Unlock()
}

// A FUSE read request that spans a chunk boundary fails with EIO because the
// store can't deliver the 2nd chunk. The same request is then repeated on the
// same handle once the store works again and must return exactly the bytes of
// the blob at that offset.
func TestDemoC09MountReadRetryAfterStoreError(t *testing.T) {
	local, err := NewLocalStore("testdata/blob1.store", StoreOptions{})
	if err != nil {
		t.Fatal(err)
	}
	defer local.Close()

	f, err := os.Open("testdata/blob1.caibx")
	if err != nil {
		t.Fatal(err)
	}
	defer f.Close()
	index, err := IndexFromReader(f)
	if err != nil {
		t.Fatal(err)
	}
	blob, err := ioutil.ReadFile("testdata/blob1")
	if err != nil {
		t.Fatal(err)
	}
	if len(index.Chunks) < 3 {
		t.Fatal("need an index with at least 3 chunks")
	}

	// Pick a chunk boundary with enough room in front of it. The chunk behind
	// the boundary is the one that's temporarily unavailable.
	const size = 4096
	k := -1
	for i := 0; i+2 < len(index.Chunks); i++ {
		if index.Chunks[i].Size >= 4*size && index.Chunks[i+1].Size >= 4*size && index.Chunks[i].ID != index.Chunks[i+1].ID {
			k = i
			break
		}
	}
	if k < 0 {
		t.Fatal("no suitable chunk boundary in the test index")
	}
	store := &demoC09FlakyStore{Store: local, failID: index.Chunks[k+1].ID}

	ctx := context.Background()
	node := &indexFile{idx: index, store: store}
	fh, _, errno := node.Open(ctx, 0)
	if errno != fs.OK {
		t.Fatalf("open: %v", errno)
	}

	read := func(off int64, size int) ([]byte, error) {
		res, errno := node.Read(ctx, fh, make([]byte, size), off)
		if errno != fs.OK {
			return nil, errno
		}
		b, st := res.Bytes(make([]byte, size))
		if !st.Ok() {
			return nil, errors.New(st.String())
		}
		return b, nil
	}

	boundary := int64(index.Chunks[k+1].Start) // end of chunk k / start of chunk k+1

	// 1. a read inside chunk k, all fine
	first := boundary - 3*size
	got, err := read(first, size)
	if err != nil {
		t.Fatalf("read at %d: %v", first, err)
	}
	if !bytes.Equal(got, blob[first:first+size]) {
		t.Fatalf("read at %d returned wrong data", first)
	}

	// 2. the next sequential request spans the chunk boundary while the store
	// fails for chunk k+1: that has to be an error
	off := boundary - size/2
	got, err = read(first+size, size) // still in chunk k, keeps the handle sequential
	if err != nil || !bytes.Equal(got, blob[first+size:first+2*size]) {
		t.Fatalf("read at %d: err=%v", first+size, err)
	}
	if _, err = read(off-size/2, size/2); err != nil { // up to 'off'
		t.Fatalf("read at %d: %v", off-size/2, err)
	}
	store.setFail(true)
	if _, err = read(off, size); err == nil {
		t.Fatalf("read at %d spanning into the unavailable chunk did not fail", off)
	}

	// 3. the store recovered, the request is retried on the same handle
	store.setFail(false)
	got, err = read(off, size)
	if err != nil {
		t.Fatalf("retried read at %d: %v", off, err)
	}
	want := blob[off : off+size]
	if !bytes.Equal(got, want) {
		if i := bytes.Index(blob, got); i >= 0 {
			t.Fatalf("retried read of %d bytes at offset %d returned the blob's bytes from offset %d instead", size, off, i)
		}
		t.Fatalf("retried read of %d bytes at offset %d returned wrong data", size, off)
	}

	// 4. and everything after that is still right
	got, err = read(off+size, size)
	if err != nil || !bytes.Equal(got, blob[off+size:off+2*size]) {
		t.Fatalf("read at %d after the retry: err=%v, data ok=%v", off+size, err, err == nil && bytes.Equal(got, blob[off+size:off+2*size]))
	}
}
