package desync

// Replay for SFTPStore.Prune with a pool of one connection (C16, `-n 1`): Prune holds the connection it walks
// with and RemoveChunk waits for a free one - with a single connection the first unreferenced chunk blocks forever.

import (
	"context"
	"fmt"
	"io"
	"os"
	"path/filepath"
	"testing"
	"time"

	"github.com/pkg/sftp"
)

type zzPipeRWC struct {
	io.Reader
	io.WriteCloser
}

func TestZZReplaySFTPPruneSingleConnection(t *testing.T) {
	dir := t.TempDir()
	cr, sw := io.Pipe()
	sr, cw := io.Pipe()
	server, err := sftp.NewServer(zzPipeRWC{sr, sw})
	if err != nil {
		t.Fatal(err)
	}
	go server.Serve()
	client, err := sftp.NewClientPipe(cr, cw)
	if err != nil {
		t.Fatal(err)
	}

	// a local store in the same directory provides the chunk files
	ls, err := NewLocalStore(dir, StoreOptions{})
	if err != nil {
		t.Fatal(err)
	}
	keep := NewChunk([]byte("referenced chunk"))
	drop := NewChunk([]byte("unreferenced chunk"))
	for _, c := range []*Chunk{keep, drop} {
		if err := ls.StoreChunk(c); err != nil {
			t.Fatal(err)
		}
	}
	keepID, dropID := keep.ID(), drop.ID()

	base := &SFTPStoreBase{path: dir + "/", client: client, cancel: func() {}, opt: StoreOptions{}}
	s := &SFTPStore{pool: make(chan *SFTPStoreBase, 1), n: 1}
	s.pool <- base

	done := make(chan error, 1)
	go func() { done <- s.Prune(context.Background(), map[ChunkID]struct{}{keepID: {}}) }()
	select {
	case err := <-done:
		if err != nil {
			fmt.Printf("REPLAY-CONFIRMED: prune over a single sftp connection fails: %v\n", err)
			return
		}
	case <-time.After(10 * time.Second):
		fmt.Printf("REPLAY-CONFIRMED: prune over a single sftp connection does not finish (blocked for 10s with one unreferenced chunk)\n")
		return
	}
	_, dropName := ls.nameFromID(dropID)
	_, keepName := ls.nameFromID(keepID)
	if _, err := os.Stat(dropName); err == nil {
		fmt.Printf("REPLAY-CONFIRMED: prune left the unreferenced chunk %s\n", filepath.Base(dropName))
	}
	if _, err := os.Stat(keepName); err != nil {
		fmt.Printf("REPLAY-CONFIRMED: prune removed the referenced chunk %s\n", filepath.Base(keepName))
	}
}
