package main

// Demonstration for property C03 ("no chunk is delivered that does not hash to
// the requested ID ... consequently extract, cat, untar-from-index and mounts
// fail rather than emit bytes that differ from the indexed blob").
//
// Drop this file into cmd/desync and run, from the worktree root:
//
//   go test -mod=mod -vet=off -count=1 -run 'TestDemoC03' ./cmd/desync/
//
// For every kind of damage to ONE stored chunk object of a copy of
// testdata/blob1.store, "desync cat" (to stdout and to a file, without -l) must
// either fail or produce exactly the blob. It must never report success while
// having produced something else than the blob.

import (
	"bytes"
	"context"
	"io"
	"io/ioutil"
	"os"
	"path/filepath"
	"testing"

	"github.com/folbricht/desync"
	"github.com/stretchr/testify/require"
)

func demoC03CopyStore(t *testing.T, src, dst string) {
	err := filepath.Walk(src, func(p string, info os.FileInfo, err error) error {
		if err != nil {
			return err
		}
		rel, err := filepath.Rel(src, p)
		if err != nil {
			return err
		}
		target := filepath.Join(dst, rel)
		if info.IsDir() {
			return os.MkdirAll(target, 0755)
		}
		b, err := ioutil.ReadFile(p)
		if err != nil {
			return err
		}
		return ioutil.WriteFile(target, b, 0644)
	})
	require.NoError(t, err)
}

func demoC03ChunkFile(store string, id desync.ChunkID) string {
	s := id.String()
	return filepath.Join(store, s[0:4], s+".cacnk")
}

func TestDemoC03CatPoisonedStore(t *testing.T) {
	blob, err := ioutil.ReadFile("testdata/blob1")
	require.NoError(t, err)

	f, err := os.Open("testdata/blob1.caibx")
	require.NoError(t, err)
	idx, err := desync.IndexFromReader(f)
	f.Close()
	require.NoError(t, err)
	require.True(t, len(idx.Chunks) > 10)

	// The chunk that gets damaged, somewhere in the middle of the blob, and another
	// (different) chunk whose valid object can be planted in its place.
	victim := idx.Chunks[len(idx.Chunks)/2]
	var other desync.IndexChunk
	for _, c := range idx.Chunks {
		if c.ID != victim.ID {
			other = c
			break
		}
	}

	corruptions := []struct {
		name  string
		apply func(t *testing.T, store string)
	}{
		{"bit flip", func(t *testing.T, store string) {
			p := demoC03ChunkFile(store, victim.ID)
			b, err := ioutil.ReadFile(p)
			require.NoError(t, err)
			b[len(b)/2] ^= 0x10
			require.NoError(t, ioutil.WriteFile(p, b, 0644))
		}},
		{"truncated", func(t *testing.T, store string) {
			p := demoC03ChunkFile(store, victim.ID)
			b, err := ioutil.ReadFile(p)
			require.NoError(t, err)
			require.NoError(t, ioutil.WriteFile(p, b[:len(b)/2], 0644))
		}},
		{"emptied", func(t *testing.T, store string) {
			require.NoError(t, ioutil.WriteFile(demoC03ChunkFile(store, victim.ID), nil, 0644))
		}},
		{"garbage", func(t *testing.T, store string) {
			require.NoError(t, ioutil.WriteFile(demoC03ChunkFile(store, victim.ID), bytes.Repeat([]byte("garbage!"), 512), 0644))
		}},
		{"other chunk's valid object", func(t *testing.T, store string) {
			b, err := ioutil.ReadFile(demoC03ChunkFile(store, other.ID))
			require.NoError(t, err)
			require.NoError(t, ioutil.WriteFile(demoC03ChunkFile(store, victim.ID), b, 0644))
		}},
		{"valid zstd frame of other data of the same length", func(t *testing.T, store string) {
			data := make([]byte, victim.Size)
			copy(data, blob[victim.Start:victim.Start+victim.Size])
			data[0] ^= 0xff
			b, err := desync.Compress(data)
			require.NoError(t, err)
			require.NoError(t, ioutil.WriteFile(demoC03ChunkFile(store, victim.ID), b, 0644))
		}},
		{"removed", func(t *testing.T, store string) {
			require.NoError(t, os.Remove(demoC03ChunkFile(store, victim.ID)))
		}},
	}

	for _, c := range corruptions {
		for _, toFile := range []bool{false, true} {
			name := c.name + "/stdout"
			if toFile {
				name = c.name + "/file"
			}
			t.Run(name, func(t *testing.T) {
				dir, err := ioutil.TempDir("", "demoC03")
				require.NoError(t, err)
				defer os.RemoveAll(dir)
				store := filepath.Join(dir, "store")
				demoC03CopyStore(t, "testdata/blob1.store", store)
				c.apply(t, store)

				args := []string{"--store", store, "testdata/blob1.caibx"}
				outName := filepath.Join(dir, "out")
				if toFile {
					args = append(args, outName)
				}

				cmd := newCatCommand(context.Background())
				cmd.SetArgs(args)
				b := new(bytes.Buffer)
				oldStdout := stdout
				stdout = b
				defer func() { stdout = oldStdout }()
				cmd.SetOutput(ioutil.Discard)
				_, err = cmd.ExecuteC()

				out := b.Bytes()
				if toFile {
					out, _ = ioutil.ReadFile(outName)
				}
				t.Logf("cat: err=%v, %d bytes written, blob has %d bytes, damaged chunk covers [%d,%d)",
					err, len(out), len(blob), victim.Start, victim.Start+victim.Size)
				if err == nil && !bytes.Equal(out, blob) {
					t.Fatalf("C03 violated: cat reported success but the output (%d bytes) differs from the indexed blob (%d bytes)", len(out), len(blob))
				}
				require.Error(t, err, "store object is damaged, cat must fail")
			})
		}
	}
}

// The same at the library level: copying out of the reader the way cat does
// (io.Copy) must report the failed chunk.
func TestDemoC03IndexReaderCopy(t *testing.T) {
	blob, err := ioutil.ReadFile("testdata/blob1")
	require.NoError(t, err)
	f, err := os.Open("testdata/blob1.caibx")
	require.NoError(t, err)
	idx, err := desync.IndexFromReader(f)
	f.Close()
	require.NoError(t, err)

	dir, err := ioutil.TempDir("", "demoC03")
	require.NoError(t, err)
	defer os.RemoveAll(dir)
	store := filepath.Join(dir, "store")
	demoC03CopyStore(t, "testdata/blob1.store", store)

	victim := idx.Chunks[3]
	p := demoC03ChunkFile(store, victim.ID)
	b, err := ioutil.ReadFile(p)
	require.NoError(t, err)
	b[len(b)-1] ^= 0x01
	require.NoError(t, ioutil.WriteFile(p, b, 0644))

	s, err := desync.NewLocalStore(store, desync.StoreOptions{})
	require.NoError(t, err)

	// The store itself refuses the object
	_, err = s.GetChunk(victim.ID)
	require.IsType(t, desync.ChunkInvalid{}, err)

	out := new(bytes.Buffer)
	n, err := io.Copy(out, desync.NewIndexReadSeeker(idx, s))
	t.Logf("io.Copy: n=%d err=%v (blob %d bytes)", n, err, len(blob))
	if err == nil && !bytes.Equal(out.Bytes(), blob) {
		t.Fatalf("C03 violated: io.Copy from the index reader returned nil after %d of %d bytes although chunk %s is invalid in the store", n, len(blob), victim.ID.String())
	}
	require.Error(t, err)
}
