package desync

import (
	"bytes"
	"context"
	"fmt"
	"io/ioutil"
	"os"
	"strings"
	"testing"
)

// Demonstration for property C16 (verify reports exactly the chunks whose content
// does not match their ID and, with repair, removes exactly those), for every
// worker count.
//
// The store holds a handful of good chunks and a few planted invalid ones. Verify is
// run with several worker counts, every invalid chunk has to be reported, and with
// repair every invalid chunk has to be gone while all good chunks stay.
func TestDemoC16VerifyWorkerCounts(t *testing.T) {
	for _, uncompressed := range []bool{false, true} {
		for _, n := range []int{1, 2, 3, 4, 7, 10, 16} {
			name := fmt.Sprintf("uncompressed=%v/n=%d", uncompressed, n)
			t.Run(name, func(t *testing.T) {
				dir, err := ioutil.TempDir("", "demo-c16-")
				if err != nil {
					t.Fatal(err)
				}
				defer os.RemoveAll(dir)
				s, err := NewLocalStore(dir, StoreOptions{Uncompressed: uncompressed})
				if err != nil {
					t.Fatal(err)
				}

				// 5 good chunks
				var good []ChunkID
				for i := 0; i < 5; i++ {
					c := NewChunk([]byte(fmt.Sprintf("good chunk number %d", i)))
					if err := s.StoreChunk(c); err != nil {
						t.Fatal(err)
					}
					good = append(good, c.ID())
				}
				// 3 invalid chunks: at the start, in the middle and at the end of the walk order
				var bad []ChunkID
				for _, h := range []string{"00", "80", "ff"} {
					id, err := ChunkIDFromString(h + strings.Repeat("0", 60) + h)
					if err != nil {
						t.Fatal(err)
					}
					d, p := s.nameFromID(id)
					if err := os.MkdirAll(d, 0755); err != nil {
						t.Fatal(err)
					}
					if err := ioutil.WriteFile(p, []byte("this is not what the name says"), 0644); err != nil {
						t.Fatal(err)
					}
					bad = append(bad, id)
				}

				// Without repair: every bad chunk is reported, none is removed
				out := new(bytes.Buffer)
				if err := s.Verify(context.Background(), n, false, out); err != nil {
					t.Fatal(err)
				}
				for _, id := range bad {
					if !strings.Contains(out.String(), id.String()) {
						t.Errorf("verify with %d workers did not report invalid chunk %s", n, id.String())
					}
					if ok, _ := s.HasChunk(id); !ok {
						t.Errorf("verify without repair removed %s", id.String())
					}
				}
				for _, id := range good {
					if strings.Contains(out.String(), id.String()) {
						t.Errorf("verify reported good chunk %s", id.String())
					}
				}

				// With repair: every bad chunk is reported and gone, all good ones stay
				out = new(bytes.Buffer)
				if err := s.Verify(context.Background(), n, true, out); err != nil {
					t.Fatal(err)
				}
				for _, id := range bad {
					if !strings.Contains(out.String(), id.String()) {
						t.Errorf("verify -r with %d workers did not report invalid chunk %s", n, id.String())
					}
					if ok, _ := s.HasChunk(id); ok {
						t.Errorf("verify -r with %d workers left invalid chunk %s in the store", n, id.String())
					}
				}
				for _, id := range good {
					if ok, _ := s.HasChunk(id); !ok {
						t.Errorf("verify -r removed good chunk %s", id.String())
					}
				}
			})
		}
	}
}
