package desync

import (
	"bytes"
	"context"
	"io/ioutil"
	"math/rand"
	"os"
	"path/filepath"
	"testing"
)

// Demo for property C01: assembling a file from an index must succeed and
// reproduce the blob whatever the target path held beforehand, as long as the
// store holds every chunk. Here the target already exists and is SHORTER than
// the indexed blob: a partially written copy (e.g. an interrupted download that
// is to be completed in place, the documented use of in-place extraction), and
// a short file with unrelated content.
func TestDemoC01ShorterTarget(t *testing.T) {
	dir, err := ioutil.TempDir("", "demoC01")
	if err != nil {
		t.Fatal(err)
	}
	defer os.RemoveAll(dir)

	const (
		min = 1024
		avg = 4096
		max = 16384
	)
	rnd := rand.New(rand.NewSource(1))
	blob := make([]byte, 1<<20)
	rnd.Read(blob)
	garbage := make([]byte, 100<<10)
	rnd.Read(garbage)

	blobFile := filepath.Join(dir, "blob")
	if err := ioutil.WriteFile(blobFile, blob, 0644); err != nil {
		t.Fatal(err)
	}

	ctx := context.Background()
	idx, _, err := IndexFromFile(ctx, blobFile, 4, min, avg, max, NullProgressBar{})
	if err != nil {
		t.Fatal(err)
	}

	// The store holds every chunk of the blob
	storeDir := filepath.Join(dir, "store")
	if err := os.Mkdir(storeDir, 0755); err != nil {
		t.Fatal(err)
	}
	s, err := NewLocalStore(storeDir, StoreOptions{})
	if err != nil {
		t.Fatal(err)
	}
	if err := ChopFile(ctx, blobFile, idx.Chunks, s, 4, NullProgressBar{}); err != nil {
		t.Fatal(err)
	}

	priors := []struct {
		name    string
		content []byte
	}{
		{"partially written copy", blob[:len(blob)/2]},
		{"one byte short", blob[:len(blob)-1]},
		{"single byte", []byte{0x42}},
		{"short garbage", garbage},
		// control cases, these work on the changed tree too
		{"complete copy", blob},
		{"longer garbage", append(append([]byte{}, blob...), garbage...)},
		{"empty", nil},
	}
	for _, prior := range priors {
		for _, n := range []int{1, 8} {
			out := filepath.Join(dir, "out")
			os.Remove(out)
			if err := ioutil.WriteFile(out, prior.content, 0644); err != nil {
				t.Fatal(err)
			}
			_, err := AssembleFile(ctx, out, idx, s, nil, AssembleOptions{N: n, InvalidSeedAction: InvalidSeedActionBailOut})
			if err != nil {
				t.Errorf("prior content %q (%d bytes), N=%d: AssembleFile failed although the store holds every chunk: %v", prior.name, len(prior.content), n, err)
				continue
			}
			got, err := ioutil.ReadFile(out)
			if err != nil {
				t.Fatal(err)
			}
			if !bytes.Equal(got, blob) {
				t.Errorf("prior content %q, N=%d: output differs from the indexed blob (len %d, want %d)", prior.name, n, len(got), len(blob))
			}
		}
	}
}
