// +build !windows

package desync

// Demonstration for property C09 (random-access reads through an index return
// exactly the blob's bytes).
//
// Drop into the root package directory of the worktree and run
//
//   go test -mod=mod -vet=off -count=1 -run 'TestDemoC09' -v .
//
// The blobs used here contain a non-null chunk A, then a run of null chunks
// (all-zero chunks of the maximum size, served from memory by the null-chunk
// shortcut of IndexPos.loadChunk), then data of chunk A again. Every read
// result is compared with the corresponding bytes of the blob.

import (
	"bytes"
	"context"
	"fmt"
	"io"
	"io/ioutil"
	"math/rand"
	"os"
	"path/filepath"
	"testing"
)

const (
	demoC09Min = 16 * 1024
	demoC09Avg = 64 * 1024
	demoC09Max = 256 * 1024
)

type demoC09Store map[ChunkID][]byte

func (s demoC09Store) GetChunk(id ChunkID) (*Chunk, error) {
	b, ok := s[id]
	if !ok {
		return nil, ChunkMissing{id}
	}
	return NewChunk(b), nil
}
func (s demoC09Store) HasChunk(id ChunkID) (bool, error) { _, ok := s[id]; return ok, nil }
func (s demoC09Store) Close() error                      { return nil }
func (s demoC09Store) String() string                    { return "demoC09Store" }

// Builds blob, index and store by hand out of the given chunk payloads. The
// null chunk (all zero, max size) is deliberately NOT put into the store: a
// correct reader never asks the store for it.
func demoC09Build(parts ...[]byte) ([]byte, Index, demoC09Store) {
	var (
		blob  []byte
		idx   = Index{Index: FormatIndex{ChunkSizeMin: demoC09Min, ChunkSizeAvg: demoC09Avg, ChunkSizeMax: demoC09Max}}
		store = demoC09Store{}
		null  = make([]byte, demoC09Max)
		start uint64
	)
	for _, p := range parts {
		id := Digest.Sum(p)
		idx.Chunks = append(idx.Chunks, IndexChunk{ID: id, Start: start, Size: uint64(len(p))})
		if !bytes.Equal(p, null) {
			store[id] = p
		}
		blob = append(blob, p...)
		start += uint64(len(p))
	}
	return blob, idx, store
}

func demoC09Random(seed int64, n int) []byte {
	b := make([]byte, n)
	rand.New(rand.NewSource(seed)).Read(b)
	return b
}

func demoC09FirstDiff(a, b []byte) string {
	n := len(a)
	if len(b) < n {
		n = len(b)
	}
	for i := 0; i < n; i++ {
		if a[i] != b[i] {
			return fmt.Sprintf("first difference at byte %d (want %#x got %#x), lengths want %d got %d", i, a[i], b[i], len(a), len(b))
		}
	}
	return fmt.Sprintf("lengths want %d got %d", len(a), len(b))
}

// Sequential read (what `desync cat` does) of A, null, null, A, B.
func TestDemoC09SequentialAcrossNullRun(t *testing.T) {
	a := demoC09Random(1, 100*1024)
	b := demoC09Random(2, 70*1024)
	null := make([]byte, demoC09Max)
	blob, idx, store := demoC09Build(a, null, null, a, b)

	r := NewIndexReadSeeker(idx, store)
	got, err := ioutil.ReadAll(r)
	if err != nil {
		t.Fatal(err)
	}
	if !bytes.Equal(blob, got) {
		t.Fatalf("sequential read returned altered data: %s", demoC09FirstDiff(blob, got))
	}
}

// Seek/Read history: read inside A, read inside the null run, go back into A.
func TestDemoC09SeekBackFromNullChunk(t *testing.T) {
	a := demoC09Random(1, 100*1024)
	b := demoC09Random(2, 70*1024)
	null := make([]byte, demoC09Max)
	blob, idx, store := demoC09Build(a, null, b)

	r := NewIndexReadSeeker(idx, store)
	for i, step := range []struct{ off, n int64 }{
		{1000, 4096},               // inside A
		{int64(len(a)) + 10, 4096}, // inside the null chunk
		{2000, 4096},               // back inside A
		{int64(len(a)) - 100, 300}, // from A into the null chunk
		{0, int64(len(blob))},      // everything
	} {
		if _, err := r.Seek(step.off, io.SeekStart); err != nil {
			t.Fatal(err)
		}
		buf := make([]byte, step.n)
		n, err := io.ReadFull(r, buf)
		if err != nil {
			t.Fatalf("step %d: %v", i, err)
		}
		want := blob[step.off : step.off+step.n]
		if !bytes.Equal(want, buf[:n]) {
			t.Fatalf("step %d (offset %d, %d bytes) returned altered data: %s", i, step.off, step.n, demoC09FirstDiff(want, buf[:n]))
		}
	}
}

// The same history as FUSE read requests on one handle of the mounted file.
func TestDemoC09FuseHandleReads(t *testing.T) {
	a := demoC09Random(1, 100*1024)
	b := demoC09Random(2, 70*1024)
	null := make([]byte, demoC09Max)
	blob, idx, store := demoC09Build(a, null, b)

	fh := newIndexFileHandle(idx, store)
	for i, req := range []struct{ off, n int64 }{
		{0, 4096},
		{int64(len(a)) + 8192, 4096},
		{4096, 4096},
	} {
		res, errno := fh.read(make([]byte, req.n), req.off)
		if errno != 0 {
			t.Fatalf("request %d: errno %v", i, errno)
		}
		got, st := res.Bytes(make([]byte, req.n))
		if !st.Ok() {
			t.Fatalf("request %d: status %v", i, st)
		}
		want := blob[req.off : req.off+req.n]
		if !bytes.Equal(want, got) {
			t.Fatalf("FUSE read request %d (offset %d, size %d) returned altered data: %s", i, req.off, req.n, demoC09FirstDiff(want, got))
		}
	}
}

// End to end with the real chunker and a local store: a file made of a small
// record followed by a large zero padding, twice. The chunker yields
// A(record+zeros up to max), null, null, A, null, null.
func TestDemoC09ChunkedFileWithZeroPadding(t *testing.T) {
	dir, err := ioutil.TempDir("", "demoC09")
	if err != nil {
		t.Fatal(err)
	}
	defer os.RemoveAll(dir)

	record := append(demoC09Random(3, 4096), make([]byte, 3*demoC09Max-4096)...)
	blob := append(append([]byte{}, record...), record...)
	name := filepath.Join(dir, "blob")
	if err := ioutil.WriteFile(name, blob, 0644); err != nil {
		t.Fatal(err)
	}
	idx, _, err := IndexFromFile(context.Background(), name, 1, demoC09Min, demoC09Avg, demoC09Max, NullProgressBar{})
	if err != nil {
		t.Fatal(err)
	}
	nullID := NewNullChunk(demoC09Max).ID
	var shape string
	for _, c := range idx.Chunks {
		if c.ID == nullID {
			shape += "0"
		} else {
			shape += "x"
		}
	}
	t.Logf("chunks of the blob (x data, 0 null chunk): %s", shape)

	storeDir := filepath.Join(dir, "store")
	if err := os.Mkdir(storeDir, 0755); err != nil {
		t.Fatal(err)
	}
	s, err := NewLocalStore(storeDir, StoreOptions{})
	if err != nil {
		t.Fatal(err)
	}
	if err := ChopFile(context.Background(), name, idx.Chunks, s, 1, NullProgressBar{}); err != nil {
		t.Fatal(err)
	}

	got, err := ioutil.ReadAll(NewIndexReadSeeker(idx, s))
	if err != nil {
		t.Fatal(err)
	}
	if !bytes.Equal(blob, got) {
		t.Fatalf("reading the blob through its index returned altered data: %s", demoC09FirstDiff(blob, got))
	}
}
