package desync

import (
	"bytes"
	"context"
	"io/ioutil"
	"os"
	"path/filepath"
	"strings"
	"testing"
	"time"
)

// c18dArchive builds catar byte streams element by element.
type c18dArchive struct {
	buf bytes.Buffer
	enc FormatEncoder
	t   *testing.T
}

func newC18dArchive(t *testing.T) *c18dArchive {
	a := &c18dArchive{t: t}
	a.enc = NewFormatEncoder(&a.buf)
	return a
}

func (a *c18dArchive) put(v interface{}) {
	if _, err := a.enc.Encode(v); err != nil {
		a.t.Fatal(err)
	}
}

func (a *c18dArchive) entry(mode os.FileMode) {
	a.put(FormatEntry{
		FormatHeader: FormatHeader{Size: 64, Type: CaFormatEntry},
		FeatureFlags: TarFeatureFlags,
		Mode:         mode,
		UID:          os.Getuid(),
		GID:          os.Getgid(),
		MTime:        time.Unix(1500000000, 0),
	})
}

func (a *c18dArchive) filename(name string) {
	a.put(FormatFilename{
		FormatHeader: FormatHeader{Size: uint64(16 + len(name) + 1), Type: CaFormatFilename},
		Name:         name,
	})
}

func (a *c18dArchive) symlink(target string) {
	a.put(FormatSymlink{
		FormatHeader: FormatHeader{Size: uint64(16 + len(target) + 1), Type: CaFormatSymlink},
		Target:       target,
	})
}

func (a *c18dArchive) payload(data string) {
	a.put(FormatPayload{
		FormatHeader: FormatHeader{Size: uint64(16 + len(data)), Type: CaFormatPayload},
		Data:         strings.NewReader(data),
	})
}

func (a *c18dArchive) goodbye() {
	a.put(FormatGoodbye{
		FormatHeader: FormatHeader{Size: 16 + 24, Type: CaFormatGoodbye},
		Items:        []FormatGoodbyeItem{{Offset: 0, Size: 0, Hash: CaFormatGoodbyeTailMarker}},
	})
}

// c18dSnapshot lists everything below dir (names, types, link targets, file
// content) so that any creation or modification shows up as a difference.
func c18dSnapshot(t *testing.T, dir string) string {
	var sb strings.Builder
	err := filepath.Walk(dir, func(p string, info os.FileInfo, err error) error {
		if err != nil {
			return err
		}
		rel, _ := filepath.Rel(dir, p)
		sb.WriteString(rel + " " + info.Mode().String())
		if info.Mode()&os.ModeSymlink == 0 {
			sb.WriteString(" mtime=" + info.ModTime().UTC().Format(time.RFC3339))
		}
		if info.Mode()&os.ModeSymlink != 0 {
			l, _ := os.Readlink(p)
			sb.WriteString(" -> " + l)
		}
		if info.Mode().IsRegular() {
			b, _ := ioutil.ReadFile(p)
			sb.WriteString(" [" + string(b) + "]")
		}
		sb.WriteString("\n")
		return nil
	})
	if err != nil {
		t.Fatal(err)
	}
	return sb.String()
}

// Root entry of the archive is a symlink, target does not exist yet.
func TestDefectC18RootSymlink(t *testing.T) {
	base, err := ioutil.TempDir("", "c18d")
	if err != nil {
		t.Fatal(err)
	}
	defer os.RemoveAll(base)
	outside := filepath.Join(base, "outside")
	dest := filepath.Join(base, "dest")
	if err := os.Mkdir(outside, 0755); err != nil {
		t.Fatal(err)
	}
	before := c18dSnapshot(t, outside)

	a := newC18dArchive(t)
	a.entry(os.ModeSymlink | 0777)
	a.symlink(outside)
	a.filename("evil")
	a.entry(0644)
	a.payload("pwned")

	fs := NewLocalFS(dest, LocalFSOptions{NoSameOwner: true})
	uerr := UnTar(context.Background(), bytes.NewReader(a.buf.Bytes()), fs)
	after := c18dSnapshot(t, outside)
	if before != after {
		t.Fatalf("UnTar (err=%v) modified a directory outside the destination:\nbefore:\n%safter:\n%s", uerr, before, after)
	}
}
