package desync

import (
	"net/http"
	"net/http/httptest"
	"net/url"
	"sync/atomic"
	"testing"
	"time"
)

// An index that does not exist in the local index store behind an HTTP index
// server has to be reported as missing: the server answers 404 and the client
// (RemoteHTTPIndex) returns NoSuchObject after a single attempt. It must not
// come back as some other error.
func TestDemoC14MissingIndexOverHTTP(t *testing.T) {
	upstream, err := NewLocalIndexStore(t.TempDir())
	if err != nil {
		t.Fatal(err)
	}

	var requests int32
	handler := NewHTTPIndexHandler(upstream, false, "")
	ts := httptest.NewServer(http.HandlerFunc(func(w http.ResponseWriter, r *http.Request) {
		atomic.AddInt32(&requests, 1)
		handler.ServeHTTP(w, r)
	}))
	defer ts.Close()

	// What the server says on the wire
	resp, err := http.Get(ts.URL + "/missing.caibx")
	if err != nil {
		t.Fatal(err)
	}
	resp.Body.Close()
	if resp.StatusCode != http.StatusNotFound {
		t.Errorf("GET of a missing index: server answered %d, want %d", resp.StatusCode, http.StatusNotFound)
	}

	// What the client reports
	u, _ := url.Parse(ts.URL)
	s, err := NewRemoteHTTPIndexStore(u, StoreOptions{ErrorRetry: 3, ErrorRetryBaseInterval: time.Millisecond})
	if err != nil {
		t.Fatal(err)
	}
	atomic.StoreInt32(&requests, 0)
	_, err = s.GetIndex("missing.caibx")
	if err == nil {
		t.Fatal("GetIndex of a missing index succeeded")
	}
	if _, ok := err.(NoSuchObject); !ok {
		t.Errorf("GetIndex of a missing index: got error %q (%T), want NoSuchObject", err, err)
	}
	if n := atomic.LoadInt32(&requests); n != 1 {
		t.Errorf("GetIndex of a missing index took %d requests, want 1", n)
	}
}
