package main

import (
	"bytes"
	"context"
	"io/ioutil"
	"math/rand"
	"os"
	"path/filepath"
	"strconv"
	"testing"

	"github.com/folbricht/desync"
)

// Builds a blob <random><zeroes><random><zeroes><random>, a store and an index for it
// in dir. The runs of zeroes are long enough to end up as several null chunks.
func demoC09Blob(t *testing.T, dir string) (blob []byte, store, index string) {
	const max = 256 * 1024
	rnd := rand.New(rand.NewSource(9))
	random := func(n int) []byte {
		b := make([]byte, n)
		rnd.Read(b)
		return b
	}
	blob = append(blob, random(300000)...)
	blob = append(blob, make([]byte, 4*max)...)
	blob = append(blob, random(200000)...)
	blob = append(blob, make([]byte, 3*max)...)
	blob = append(blob, random(100000)...)

	store = filepath.Join(dir, "store")
	if err := os.Mkdir(store, 0755); err != nil {
		t.Fatal(err)
	}
	s, err := desync.NewLocalStore(store, desync.StoreOptions{})
	if err != nil {
		t.Fatal(err)
	}
	c, err := desync.NewChunker(bytes.NewReader(blob), 16*1024, 64*1024, max)
	if err != nil {
		t.Fatal(err)
	}
	idx, err := desync.ChunkStream(context.Background(), c, s, 2)
	if err != nil {
		t.Fatal(err)
	}
	null := desync.NewNullChunk(max)
	var nulls int
	for _, ch := range idx.Chunks {
		if ch.ID == null.ID {
			nulls++
		}
	}
	if nulls < 4 {
		t.Fatalf("expected null chunks in the index, got %d", nulls)
	}
	index = filepath.Join(dir, "blob.caibx")
	f, err := os.Create(index)
	if err != nil {
		t.Fatal(err)
	}
	defer f.Close()
	if _, err := idx.WriteTo(f); err != nil {
		t.Fatal(err)
	}
	return blob, store, index
}

func demoC09Cat(t *testing.T, out *os.File, args ...string) {
	oldStdout := stdout
	defer func() { stdout = oldStdout }()
	if out != nil {
		stdout = out
	}
	cmd := newCatCommand(context.Background())
	cmd.SetArgs(args)
	cmd.SetOutput(ioutil.Discard)
	if _, err := cmd.ExecuteC(); err != nil {
		t.Fatalf("cat failed: %v", err)
	}
}

// Whatever stdout of `desync cat` is connected to, if cat succeeds the bytes of the
// blob (from the offset) must have been written to it, in order.
func TestDemoC09CatOutputHasBlobBytes(t *testing.T) {
	dir, err := ioutil.TempDir("", "demoC09")
	if err != nil {
		t.Fatal(err)
	}
	defer os.RemoveAll(dir)
	blob, store, index := demoC09Blob(t, dir)

	for _, offset := range []int{0, 1000, 300000 + 100, 300000 + 3*256*1024} {
		offset := offset
		want := blob[offset:]

		// desync cat -o <offset> blob.caibx >> out
		t.Run("append/offset="+strconv.Itoa(offset), func(t *testing.T) {
			name := filepath.Join(dir, "append")
			header := []byte("existing content\n")
			if err := ioutil.WriteFile(name, header, 0644); err != nil {
				t.Fatal(err)
			}
			f, err := os.OpenFile(name, os.O_WRONLY|os.O_APPEND, 0644)
			if err != nil {
				t.Fatal(err)
			}
			demoC09Cat(t, f, "-s", store, "-o", strconv.Itoa(offset), index)
			f.Close()
			got, _ := ioutil.ReadFile(name)
			if !bytes.Equal(got, append(header, want...)) {
				t.Fatalf("cat succeeded, but the output has %d bytes, expected %d; equal prefix %d",
					len(got)-len(header), len(want), demoC09Prefix(got[len(header):], want))
			}
		})

		// desync cat -o <offset> blob.caibx 1<> dev, where dev isn't empty and can't be
		// truncated (a block device, or a preallocated image file)
		t.Run("overwrite/offset="+strconv.Itoa(offset), func(t *testing.T) {
			name := filepath.Join(dir, "dev")
			if err := ioutil.WriteFile(name, bytes.Repeat([]byte{0xff}, len(want)), 0644); err != nil {
				t.Fatal(err)
			}
			f, err := os.OpenFile(name, os.O_WRONLY, 0644)
			if err != nil {
				t.Fatal(err)
			}
			demoC09Cat(t, f, "-s", store, "-o", strconv.Itoa(offset), index)
			f.Close()
			got, _ := ioutil.ReadFile(name)
			if !bytes.Equal(got, want) {
				t.Fatalf("cat succeeded, but the output differs from the blob at byte %d of %d (got 0x%02x, want 0x%02x)",
					demoC09Prefix(got, want), len(want), got[demoC09Prefix(got, want)], want[demoC09Prefix(got, want)])
			}
		})

		// Control: desync cat -o <offset> blob.caibx out and desync cat ... > out (new file)
		t.Run("newfile/offset="+strconv.Itoa(offset), func(t *testing.T) {
			name := filepath.Join(dir, "new")
			demoC09Cat(t, nil, "-s", store, "-o", strconv.Itoa(offset), index, name)
			got, _ := ioutil.ReadFile(name)
			if !bytes.Equal(got, want) {
				t.Fatalf("output file differs from the blob")
			}
			os.Remove(name)
		})
	}
}

func demoC09Prefix(a, b []byte) int {
	n := 0
	for n < len(a) && n < len(b) && a[n] == b[n] {
		n++
	}
	return n
}
