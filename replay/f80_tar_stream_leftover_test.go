//go:build !windows
// +build !windows

package desync

import (
	gnutar "archive/tar"
	"bytes"
	"context"
	"io"
	"os"
	"path/filepath"
	"strings"
	"testing"
	"time"
)

// All of these fail on the UNCHANGED code.

// D1: mtime of a directory that has children is not reproduced on disk
func TestDefectC05DirMtime(t *testing.T) {
	src, dst := t.TempDir(), t.TempDir()
	os.MkdirAll(filepath.Join(src, "d"), 0755)
	os.WriteFile(filepath.Join(src, "d/f"), []byte("x"), 0644)
	mt := time.Unix(1500000000, 0)
	os.Chtimes(filepath.Join(src, "d/f"), mt, mt)
	os.Chtimes(filepath.Join(src, "d"), mt, mt)
	var b bytes.Buffer
	if err := Tar(context.Background(), &b, NewLocalFS(src, LocalFSOptions{})); err != nil {
		t.Fatal(err)
	}
	if err := UnTar(context.Background(), &b, NewLocalFS(dst, LocalFSOptions{})); err != nil {
		t.Fatal(err)
	}
	info, _ := os.Lstat(filepath.Join(dst, "d"))
	if !info.ModTime().Equal(mt) {
		t.Fatalf("directory d: mtime %v, source has %v", info.ModTime(), mt)
	}
}

func tarStream(t *testing.T, hdrs ...*gnutar.Header) *bytes.Buffer {
	var tb bytes.Buffer
	tw := gnutar.NewWriter(&tb)
	for _, h := range hdrs {
		h.ModTime = time.Unix(1000, 0)
		if err := tw.WriteHeader(h); err != nil {
			t.Fatal(err)
		}
		if h.Size > 0 {
			tw.Write(bytes.Repeat([]byte("x"), int(h.Size)))
		}
	}
	tw.Close()
	return &tb
}

// D2: gnu-tar output loses setuid/setgid/sticky (Go FileMode bits are written into the tar mode field)
func TestDefectC05GnuTarSetuid(t *testing.T) {
	in := tarStream(t,
		&gnutar.Header{Typeflag: gnutar.TypeDir, Name: "root/", Mode: 0755},
		&gnutar.Header{Typeflag: gnutar.TypeReg, Name: "root/a", Mode: 04755, Size: 3},
	)
	var c, out bytes.Buffer
	if err := Tar(context.Background(), &c, NewTarReader(in, TarReaderOptions{})); err != nil {
		t.Fatal(err)
	}
	w := NewTarWriter(&out)
	if err := UnTar(context.Background(), &c, w); err != nil {
		t.Fatal(err)
	}
	w.Close()
	tr := gnutar.NewReader(&out)
	for {
		h, err := tr.Next()
		if err == io.EOF {
			break
		}
		if err != nil {
			t.Fatal(err)
		}
		if h.Name == "a" {
			if h.Mode&04000 == 0 || h.FileInfo().Mode()&os.ModeSetuid == 0 {
				t.Fatalf("a: mode field %#o (%v), setuid is gone", h.Mode, h.FileInfo().Mode())
			}
		}
	}
}

// D3: gnu-tar output fails for any entry with an extended attribute
func TestDefectC05GnuTarXattr(t *testing.T) {
	in := tarStream(t,
		&gnutar.Header{Typeflag: gnutar.TypeDir, Name: "root/", Mode: 0755},
		&gnutar.Header{Typeflag: gnutar.TypeReg, Name: "root/a", Mode: 0644, Xattrs: map[string]string{"user.k": "v"}},
	)
	var c, out bytes.Buffer
	if err := Tar(context.Background(), &c, NewTarReader(in, TarReaderOptions{})); err != nil {
		t.Fatal(err)
	}
	if err := UnTar(context.Background(), &c, NewTarWriter(&out)); err != nil {
		t.Fatalf("untar to gnu-tar: %v", err)
	}
}

// D4: mtree output pads the nanoseconds of directories, symlinks and devices
// with blanks (%9d, files use %09d) and never shows setuid/setgid/sticky
func TestDefectC05Mtree(t *testing.T) {
	var out bytes.Buffer
	m, _ := NewMtreeFS(&out)
	m.CreateDir(NodeDirectory{Name: "d", Mode: os.ModeDir | os.ModeSticky | 0777, MTime: time.Unix(1000, 5)})
	line := strings.Split(out.String(), "\n")[1]
	if strings.Contains(line, "time=1000. ") {
		t.Errorf("blank-padded time: %q", line)
	}
	if !strings.Contains(line, "mode=1777") {
		t.Errorf("sticky bit not shown: %q", line)
	}
}

// D5: Tar() returns success and silently drops every entry that follows the
// end of the root directory's subtree. With tar-stream input that happens when
// the members of a directory are not contiguous (appended archives, tar -r) or
// when there are several top-level entries.
func TestDefectC05TarStreamLeftover(t *testing.T) {
	in := tarStream(t,
		&gnutar.Header{Typeflag: gnutar.TypeDir, Name: "a/", Mode: 0755},
		&gnutar.Header{Typeflag: gnutar.TypeDir, Name: "b/", Mode: 0755},
		&gnutar.Header{Typeflag: gnutar.TypeReg, Name: "a/late", Mode: 0644, Size: 3},
		&gnutar.Header{Typeflag: gnutar.TypeReg, Name: "c", Mode: 0644, Size: 3},
	)
	var c bytes.Buffer
	if err := Tar(context.Background(), &c, NewTarReader(in, TarReaderOptions{AddRoot: true})); err != nil {
		t.Skipf("refused, fine: %v", err)
	}
	var names []string
	dec := NewArchiveDecoder(&c)
	for {
		n, err := dec.Next()
		if err != nil {
			t.Fatal(err)
		}
		if n == nil {
			break
		}
		switch v := n.(type) {
		case NodeDirectory:
			names = append(names, v.Name)
		case NodeFile:
			names = append(names, v.Name)
		}
	}
	got := strings.Join(names, " ")
	if !strings.Contains(got, "late") || !strings.Contains(got, "c") {
		t.Fatalf("Tar reported success, archive has only: %s", got)
	}
}

// D6: with OneFileSystem the directory of a mount point is left out but the walk
// goes on below it; the first file found there ends the archive early, with success.
// Needs: mkdir -p $MNT/a/m $MNT/a/z; mount -t tmpfs none $MNT/a/m; touch $MNT/a/m/f $MNT/a/z/keep
func TestDefectC05OneFileSystem(t *testing.T) {
	root := os.Getenv("MNT")
	if root == "" {
		t.Skip("MNT not set")
	}
	var c bytes.Buffer
	if err := Tar(context.Background(), &c, NewLocalFS(filepath.Join(root, "a"), LocalFSOptions{OneFileSystem: true})); err != nil {
		t.Fatal(err)
	}
	var names []string
	dec := NewArchiveDecoder(&c)
	for {
		n, err := dec.Next()
		if err != nil {
			t.Fatal(err)
		}
		if n == nil {
			break
		}
		switch v := n.(type) {
		case NodeDirectory:
			names = append(names, v.Name)
		case NodeFile:
			names = append(names, v.Name)
		}
	}
	got := strings.Join(names, " ")
	if !strings.Contains(got, "z/keep") {
		t.Fatalf("Tar reported success, archive has only: %s", got)
	}
}
