package desync

// Demonstration for property C18: unpacking an archive never writes outside
// the destination directory.
//
// Run from the worktree root after copying this file there:
//   go test -mod=mod -vet=off -count=1 -run 'TestDemoC18' -v .
//
// Every sub-test builds a hostile catar in memory (all filename elements are
// valid single components), unpacks it into <sandbox>/dst and compares a
// recursive snapshot of everything in <sandbox> that is not dst before and
// after. Unpacking may fail, but it must not create or change anything outside
// of dst.

import (
	"bytes"
	"context"
	"fmt"
	"io/ioutil"
	"os"
	"path/filepath"
	"sort"
	"strings"
	"testing"
	"time"
)

type demoC18Elems struct {
	buf bytes.Buffer
	t   *testing.T
}

func (e *demoC18Elems) add(v interface{}) {
	enc := NewFormatEncoder(&e.buf)
	if _, err := enc.Encode(v); err != nil {
		e.t.Fatal(err)
	}
}

func (e *demoC18Elems) entry(mode os.FileMode) {
	e.add(FormatEntry{
		FormatHeader: FormatHeader{Size: 64, Type: CaFormatEntry},
		FeatureFlags: TarFeatureFlags,
		Mode:         mode,
		UID:          os.Getuid(),
		GID:          os.Getgid(),
		MTime:        time.Unix(1500000000, 0),
	})
}

func (e *demoC18Elems) filename(name string) {
	e.add(FormatFilename{
		FormatHeader: FormatHeader{Size: uint64(16 + len(name) + 1), Type: CaFormatFilename},
		Name:         name,
	})
}

func (e *demoC18Elems) payload(data string) {
	e.add(FormatPayload{
		FormatHeader: FormatHeader{Size: uint64(16 + len(data)), Type: CaFormatPayload},
		Data:         strings.NewReader(data),
	})
}

func (e *demoC18Elems) symlink(target string) {
	e.add(FormatSymlink{
		FormatHeader: FormatHeader{Size: uint64(16 + len(target) + 1), Type: CaFormatSymlink},
		Target:       target,
	})
}

func (e *demoC18Elems) goodbye() {
	e.add(FormatGoodbye{
		FormatHeader: FormatHeader{Size: 16 + 24, Type: CaFormatGoodbye},
		Items:        []FormatGoodbyeItem{{Offset: 0, Size: 0, Hash: CaFormatGoodbyeTailMarker}},
	})
}

// Archive A: a complete (empty) root directory, and then, after the root's
// goodbye, entries that come without a filename element followed by named ones.
func demoC18ArchiveAfterRootGoodbye(t *testing.T, outside string) []byte {
	e := &demoC18Elems{t: t}
	e.entry(os.ModeDir | 0755) // root directory
	e.goodbye()                // end of the root directory
	e.entry(0644)              // nameless file, takes the place of dst
	e.payload("x")
	e.entry(os.ModeSymlink | 0777) // nameless symlink, takes the place of dst
	e.symlink(outside)
	e.filename("pwned.txt") // valid names from here on
	e.entry(0644)
	e.payload("owned\n")
	e.filename("keep.txt")
	e.entry(0644)
	e.payload("overwritten\n")
	return e.buf.Bytes()
}

// Archive B: no directory at all, the root entry is a file, and it's followed
// by another entry without filename element.
func demoC18ArchiveNoRootDir(t *testing.T, outside string) []byte {
	e := &demoC18Elems{t: t}
	e.entry(0644) // nameless file as root entry
	e.payload("x")
	e.entry(os.ModeSymlink | 0777) // second nameless entry
	e.symlink(outside)
	e.filename("pwned.txt")
	e.entry(0644)
	e.payload("owned\n")
	e.filename("keep.txt")
	e.entry(0644)
	e.payload("overwritten\n")
	return e.buf.Bytes()
}

// Snapshot of everything below root, except skip (and what's underneath it)
func demoC18Snapshot(t *testing.T, root, skip string) string {
	var lines []string
	err := filepath.Walk(root, func(p string, info os.FileInfo, err error) error {
		if err != nil {
			return err
		}
		if p == skip {
			if info.IsDir() {
				return filepath.SkipDir
			}
			return nil
		}
		rel, _ := filepath.Rel(root, p)
		line := fmt.Sprintf("%s mode=%v", rel, info.Mode())
		switch {
		case info.Mode().IsRegular():
			b, err := ioutil.ReadFile(p)
			if err != nil {
				return err
			}
			line += fmt.Sprintf(" content=%q", b)
		case info.Mode()&os.ModeSymlink != 0:
			l, _ := os.Readlink(p)
			line += " -> " + l
		}
		lines = append(lines, line)
		return nil
	})
	if err != nil {
		t.Fatal(err)
	}
	sort.Strings(lines)
	return strings.Join(lines, "\n")
}

func demoC18Sandbox(t *testing.T) (sandbox, dst, outside string) {
	sandbox, err := ioutil.TempDir("", "demoC18")
	if err != nil {
		t.Fatal(err)
	}
	dst = filepath.Join(sandbox, "dst")
	outside = filepath.Join(sandbox, "outside")
	for _, d := range []string{dst, outside} {
		if err := os.Mkdir(d, 0755); err != nil {
			t.Fatal(err)
		}
	}
	if err := ioutil.WriteFile(filepath.Join(outside, "keep.txt"), []byte("precious\n"), 0644); err != nil {
		t.Fatal(err)
	}
	return sandbox, dst, outside
}

func TestDemoC18(t *testing.T) {
	archives := map[string]func(*testing.T, string) []byte{
		"after-root-goodbye": demoC18ArchiveAfterRootGoodbye,
		"no-root-directory":  demoC18ArchiveNoRootDir,
	}
	for name, mk := range archives {
		mk := mk

		// Disk writer fed from a catar
		t.Run("untar/"+name, func(t *testing.T) {
			sandbox, dst, outside := demoC18Sandbox(t)
			defer os.RemoveAll(sandbox)
			catar := mk(t, outside)

			before := demoC18Snapshot(t, sandbox, dst)
			fs := NewLocalFS(dst, LocalFSOptions{NoSameOwner: true})
			err := UnTar(context.Background(), bytes.NewReader(catar), fs)
			after := demoC18Snapshot(t, sandbox, dst)
			t.Logf("UnTar returned: %v", err)
			if before != after {
				t.Fatalf("objects outside the destination were created/modified\n--- before\n%s\n--- after\n%s", before, after)
			}
		})

		// Chunked path (untar -i)
		t.Run("untar-index/"+name, func(t *testing.T) {
			sandbox, dst, outside := demoC18Sandbox(t)
			defer os.RemoveAll(sandbox)
			catar := mk(t, outside)

			storeDir, err := ioutil.TempDir("", "demoC18store")
			if err != nil {
				t.Fatal(err)
			}
			defer os.RemoveAll(storeDir)
			s, err := NewLocalStore(storeDir, StoreOptions{})
			if err != nil {
				t.Fatal(err)
			}
			chunk := NewChunk(catar)
			if err := s.StoreChunk(chunk); err != nil {
				t.Fatal(err)
			}
			index := Index{
				Index: FormatIndex{
					FormatHeader: FormatHeader{Size: 48, Type: CaFormatIndex},
					FeatureFlags: TarFeatureFlags,
					ChunkSizeMin: ChunkSizeMinDefault,
					ChunkSizeAvg: ChunkSizeAvgDefault,
					ChunkSizeMax: ChunkSizeMaxDefault,
				},
				Chunks: []IndexChunk{{ID: chunk.ID(), Start: 0, Size: uint64(len(catar))}},
			}

			before := demoC18Snapshot(t, sandbox, dst)
			fs := NewLocalFS(dst, LocalFSOptions{NoSameOwner: true})
			err = UnTarIndex(context.Background(), fs, index, s, 2, NullProgressBar{})
			after := demoC18Snapshot(t, sandbox, dst)
			t.Logf("UnTarIndex returned: %v", err)
			if before != after {
				t.Fatalf("objects outside the destination were created/modified\n--- before\n%s\n--- after\n%s", before, after)
			}
		})
	}
}
