package desync

import (
	"bytes"
	"fmt"
	"net/http"
	"net/http/httptest"
	"runtime"
	"testing"
)

// gatedStore is a local (uncompressed) chunk store whose StoreChunk can be held
// at the very beginning for one particular chunk ID, like a slow upstream store
// (S3, sftp, a loaded disk) would.
type gatedStore struct {
	LocalStore
	holdID  ChunkID
	entered chan struct{}
	release chan struct{}
}

func (s *gatedStore) StoreChunk(c *Chunk) error {
	if c.ID() == s.holdID {
		close(s.entered)
		<-s.release
	}
	return s.LocalStore.StoreChunk(c)
}

func demoC15Data(seed byte, n int) []byte {
	b := make([]byte, n)
	for i := range b {
		b[i] = seed + byte(i*7)
	}
	return b
}

// A writable chunk server with write verification ENABLED serving uncompressed
// chunks. Two clients upload two different, perfectly valid chunks at about the
// same time; the upstream write of the first is slow. Both uploads are reported
// as successful, so afterwards the store must hold, under each ID, content that
// hashes to that ID.
func TestDemoC15VerifiedUploadKeepsContent(t *testing.T) {
	// One P so that the second request is served by the same scheduler context
	// as the first one (makes the schedule deterministic).
	defer runtime.GOMAXPROCS(runtime.GOMAXPROCS(1))

	for round := 0; round < 5; round++ {
		local, err := NewLocalStore(t.TempDir(), StoreOptions{Uncompressed: true})
		if err != nil {
			t.Fatal(err)
		}
		dataA := demoC15Data(byte(1+2*round), 4096)
		dataB := demoC15Data(byte(2+2*round), 4096)
		idA, idB := Digest.Sum(dataA), Digest.Sum(dataB)

		store := &gatedStore{LocalStore: local, holdID: idA, entered: make(chan struct{}), release: make(chan struct{})}
		// writable, verification of uploads on, no compression, with authorization
		h := NewHTTPHandler(store, true, false, nil, "secret")

		put := func(id ChunkID, data []byte) int {
			sID := id.String()
			req := httptest.NewRequest("PUT", "/"+sID[0:4]+"/"+sID, bytes.NewReader(data))
			req.Header.Set("Authorization", "secret")
			rec := httptest.NewRecorder()
			h.ServeHTTP(rec, req)
			return rec.Code
		}

		// Sanity: verification really is on - content that doesn't match the ID is refused
		if code := put(idA, dataB); code != http.StatusBadRequest {
			t.Fatalf("mismatching upload not refused, status %d", code)
		}

		// Client 1 uploads chunk A, the upstream write hangs for a moment
		codeA := make(chan int)
		go func() { codeA <- put(idA, dataA) }()
		<-store.entered

		// Meanwhile client 2 uploads chunk B
		if code := put(idB, dataB); code != http.StatusOK {
			t.Fatalf("upload of B failed with status %d", code)
		}

		// The upstream write of A completes
		close(store.release)
		if code := <-codeA; code != http.StatusOK {
			t.Fatalf("upload of A failed with status %d", code)
		}

		// Both uploads succeeded and were verified. Read them back with verification.
		for _, c := range []struct {
			name string
			id   ChunkID
			data []byte
		}{{"A", idA, dataA}, {"B", idB, dataB}} {
			chunk, err := local.GetChunk(c.id) // verifies (SkipVerify is false)
			if err != nil {
				raw, _ := NewLocalStore(local.Base, StoreOptions{Uncompressed: true, SkipVerify: true})
				got, _ := raw.GetChunk(c.id)
				what := "?"
				if got != nil {
					d, _ := got.Data()
					switch {
					case bytes.Equal(d, dataA):
						what = "the content of A"
					case bytes.Equal(d, dataB):
						what = "the content of B"
					default:
						what = fmt.Sprintf("%d unknown bytes", len(d))
					}
				}
				t.Fatalf("round %d: server with write verification answered 200 to both uploads, but chunk %s (%s) in the store is invalid: %v; it holds %s", round, c.name, c.id.String(), err, what)
			}
			d, _ := chunk.Data()
			if !bytes.Equal(d, c.data) {
				t.Fatalf("round %d: chunk %s differs from what was uploaded", round, c.name)
			}
		}
	}
}
