package desync

import (
	"bytes"
	"errors"
	"sync"
	"sync/atomic"
	"testing"
	"time"
)

// demoC12Store is a gate-controlled upstream store: every call announces itself on
// 'entered' and then blocks until 'release' is closed.
type demoC12Store struct {
	chunk    *Chunk
	storeErr error
	entered  chan struct{}
	release  chan struct{}
	gets     int64
	stores   int64
}

func (s *demoC12Store) GetChunk(id ChunkID) (*Chunk, error) {
	atomic.AddInt64(&s.gets, 1)
	s.entered <- struct{}{}
	<-s.release
	return s.chunk, nil
}

func (s *demoC12Store) HasChunk(id ChunkID) (bool, error) { return true, nil }

func (s *demoC12Store) StoreChunk(c *Chunk) error {
	atomic.AddInt64(&s.stores, 1)
	s.entered <- struct{}{}
	<-s.release
	return s.storeErr
}

func (s *demoC12Store) Close() error   { return nil }
func (s *demoC12Store) String() string { return "demoC12Store" }

// One owner plus several callers that are de-duplicated onto the owner's in-flight
// GetChunk. Every one of them has to come back with the chunk of that request.
func TestDemoC12GetChunkAllWaitersGetResult(t *testing.T) {
	const waiters = 3
	want := []byte{1, 2, 3, 4}
	chunk := NewChunk(want)
	id := chunk.ID()
	store := &demoC12Store{chunk: chunk, entered: make(chan struct{}, 16), release: make(chan struct{})}
	q := NewDedupQueue(store)

	type res struct {
		c   *Chunk
		err error
	}
	results := make(chan res, waiters+1)
	call := func() {
		c, err := q.GetChunk(id)
		results <- res{c, err}
	}

	go call()       // the owner
	<-store.entered // ... is now blocked in the upstream store
	for i := 0; i < waiters; i++ {
		go call()
	}
	time.Sleep(300 * time.Millisecond) // let the others join the in-flight request
	close(store.release)

	for i := 0; i < waiters+1; i++ {
		select {
		case r := <-results:
			if r.err != nil {
				t.Errorf("caller %d: unexpected error %v", i, r.err)
				continue
			}
			if r.c == nil {
				t.Errorf("caller %d: got (nil chunk, nil error); want the chunk of the in-flight request", i)
				continue
			}
			b, _ := r.c.Data()
			if !bytes.Equal(b, want) {
				t.Errorf("caller %d: got %v; want %v", i, b, want)
			}
		case <-time.After(5 * time.Second):
			t.Fatalf("caller did not return (lost wake-up)")
		}
	}
	if n := atomic.LoadInt64(&store.gets); n != 1 {
		t.Errorf("%d upstream GetChunk requests; want 1", n)
	}
}

// One writer plus several de-duplicated writers of the same chunk while the upstream
// write fails. Every writer has to report the failure of the one upstream write.
func TestDemoC12StoreChunkAllWaitersGetError(t *testing.T) {
	const waiters = 3
	chunk := NewChunk([]byte{5, 6, 7, 8})
	boom := errors.New("disk full")
	store := &demoC12Store{storeErr: boom, entered: make(chan struct{}, 16), release: make(chan struct{})}
	q := NewWriteDedupQueue(store)

	var wg sync.WaitGroup
	errs := make([]error, waiters+1)
	call := func(i int) {
		defer wg.Done()
		errs[i] = q.StoreChunk(chunk)
	}

	wg.Add(1)
	go call(0)
	<-store.entered
	for i := 1; i <= waiters; i++ {
		wg.Add(1)
		go call(i)
	}
	time.Sleep(300 * time.Millisecond)
	close(store.release)
	wg.Wait()

	for i, err := range errs {
		if err != boom {
			t.Errorf("writer %d: StoreChunk() = %v; want %q (the only upstream write failed)", i, err, boom)
		}
	}
	if n := atomic.LoadInt64(&store.stores); n != 1 {
		t.Errorf("%d upstream StoreChunk requests; want 1", n)
	}
}
