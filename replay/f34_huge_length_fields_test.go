package desync

import (
	"bytes"
	"encoding/binary"
	"fmt"
	"io/ioutil"
	"math"
	"testing"
)

// Demonstration for property C19: decoders must return an error (never panic,
// never silently accept) for elements whose size field is huge.

func demoC19u64(vals ...uint64) []byte {
	b := make([]byte, 8*len(vals))
	for i, v := range vals {
		binary.LittleEndian.PutUint64(b[8*i:], v)
	}
	return b
}

// runs f and converts a panic into an error string prefixed with "PANIC"
func demoC19safe(f func() (interface{}, error)) (v interface{}, err error, panicked string) {
	defer func() {
		if r := recover(); r != nil {
			panicked = fmt.Sprint(r)
		}
	}()
	v, err = f()
	return
}

func TestDemoC19FormatDecoderHugeSize(t *testing.T) {
	types := map[string]uint64{
		"filename": CaFormatFilename,
		"symlink":  CaFormatSymlink,
		"user":     CaFormatUser,
		"xattr":    CaFormatXAttr,
	}
	sizes := []uint64{math.MaxUint64, 1<<63 + 16, 1<<63 + 17, 1 << 63}
	for name, typ := range types {
		for _, size := range sizes {
			// header followed by a short, 0-terminated string; the size field is a lie
			in := append(demoC19u64(size, typ), []byte("hello\x00")...)
			d := NewFormatDecoder(bytes.NewReader(in))
			v, err, p := demoC19safe(d.Next)
			if p != "" {
				t.Errorf("%s size=%#x: FormatDecoder.Next panicked: %s", name, size, p)
				continue
			}
			if err == nil {
				t.Errorf("%s size=%#x: malformed element accepted without error: %#v", name, size, v)
			}
		}
	}
}

func TestDemoC19FCapsHugeSizeAccepted(t *testing.T) {
	in := append(demoC19u64(math.MaxUint64, CaFormatFCaps), []byte{1, 2, 3, 4}...)
	d := NewFormatDecoder(bytes.NewReader(in))
	v, err, p := demoC19safe(d.Next)
	if p != "" {
		t.Fatalf("panic: %s", p)
	}
	if err == nil {
		t.Fatalf("fcaps element with size MAX_UINT64 and 4 bytes of data accepted without error: %#v", v)
	}
}

func TestDemoC19ArchiveDecoderHugeFilename(t *testing.T) {
	// Valid root directory entry followed by a filename element with a huge size
	var in []byte
	in = append(in, demoC19u64(64, CaFormatEntry, 0, 0040755, 0, 0, 0, 0)...)
	in = append(in, demoC19u64(1<<63+16, CaFormatFilename)...)
	in = append(in, []byte("x\x00")...)
	a := NewArchiveDecoder(bytes.NewReader(in))
	for i := 0; i < 3; i++ {
		v, err, p := demoC19safe(a.Next)
		if p != "" {
			t.Fatalf("ArchiveDecoder.Next panicked: %s", p)
		}
		if err != nil {
			return // expected: malformed input yields an error
		}
		if v == nil {
			t.Fatalf("archive with malformed filename element decoded to the end without error")
		}
	}
}

func TestDemoC19ProtocolHugeLength(t *testing.T) {
	for _, l := range []uint64{math.MaxUint64, 1<<63 + 8, 1<<63 + 100} {
		in := append(demoC19u64(l, CaProtocolRequest), make([]byte, 40)...)
		p := NewProtocol(bytes.NewReader(in), ioutil.Discard)
		_, err, pn := demoC19safe(func() (interface{}, error) {
			m, err := p.ReadMessage()
			return m, err
		})
		if pn != "" {
			t.Errorf("len=%#x: Protocol.ReadMessage panicked: %s", l, pn)
			continue
		}
		if err == nil {
			t.Errorf("len=%#x: message with bogus length accepted", l)
		}
	}
}
