package desync

// Replay for IndexFromReader's postconditions (C04): a chunk table whose end offsets decrease
// must be rejected, also when the declared maximum chunk size is close to 2^64.

import (
	"bytes"
	"fmt"
	"math"
	"testing"
)

func TestZZReplayIndexDecreasingOffsets(t *testing.T) {
	var buf bytes.Buffer
	enc := NewFormatEncoder(&buf)
	enc.Encode(FormatIndex{
		FormatHeader: FormatHeader{Size: 48, Type: CaFormatIndex},
		FeatureFlags: CaFormatSHA512256 | CaFormatExcludeNoDump,
		ChunkSizeMin: 1, ChunkSizeAvg: 2, ChunkSizeMax: math.MaxUint64,
	})
	enc.Encode(FormatTable{
		FormatHeader: FormatHeader{Size: math.MaxUint64, Type: CaFormatTable},
		Items: []FormatTableItem{{Offset: 100, Chunk: ChunkID{1}}, {Offset: 50, Chunk: ChunkID{2}}},
	})
	idx, err := IndexFromReader(&buf)
	if err == nil {
		fmt.Printf("REPLAY-CONFIRMED: offsets 100,50 accepted; chunk 1 = {Start:%d Size:%d}, Length()=%d\n", idx.Chunks[1].Start, idx.Chunks[1].Size, idx.Length())
	} else {
		fmt.Println("REPLAY-NOT-REPRODUCED:", err)
	}
}
