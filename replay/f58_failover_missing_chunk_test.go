package desync

// Demonstration for property C11 (failover group never masks a missing chunk;
// the active index is advanced only by a request that observed a failure of the
// active member; a router falls through to the next store on ChunkMissing).
//
// Drop into the root package directory and run:
//   go test -mod=mod -vet=off -count=1 -run 'TestDemoC11' .

import (
	"errors"
	"sync/atomic"
	"testing"
)

type demoC11Store struct {
	name   string
	chunks map[ChunkID]*Chunk
	down   bool
	gets   int64
}

func (s *demoC11Store) GetChunk(id ChunkID) (*Chunk, error) {
	atomic.AddInt64(&s.gets, 1)
	if s.down {
		return nil, errors.New(s.name + ": connection refused")
	}
	c, ok := s.chunks[id]
	if !ok {
		return nil, ChunkMissing{id}
	}
	return c, nil
}

func (s *demoC11Store) HasChunk(id ChunkID) (bool, error) {
	if s.down {
		return false, errors.New(s.name + ": connection refused")
	}
	_, ok := s.chunks[id]
	return ok, nil
}
func (s *demoC11Store) String() string { return s.name }
func (s *demoC11Store) Close() error   { return nil }

func demoC11With(name string, chunks ...*Chunk) *demoC11Store {
	s := &demoC11Store{name: name, chunks: make(map[ChunkID]*Chunk)}
	for _, c := range chunks {
		s.chunks[c.ID()] = c
	}
	return s
}

// A group [A|B] where the active member A is healthy but lacks the chunk must
// report ChunkMissing right away: B must not be asked, and the group must stay on A.
func TestDemoC11FailoverDoesNotMaskMissingChunk(t *testing.T) {
	x := NewChunk([]byte("chunk only present in the second member"))
	a := demoC11With("A")
	b := demoC11With("B", x)
	g := NewFailoverGroup(a, b)

	c, err := g.GetChunk(x.ID())
	if _, ok := err.(ChunkMissing); !ok {
		t.Errorf("expected ChunkMissing from the group, got chunk=%v err=%v", c != nil, err)
	}
	if n := atomic.LoadInt64(&b.gets); n != 0 {
		t.Errorf("member B was asked %d time(s) although the active member A is healthy", n)
	}
	if g.active != 0 {
		t.Errorf("active index moved to %d by a request that observed no failure", g.active)
	}
}

// Chain as built by the CLI for `-s "A|B" -s C`: router(failover(A,B), C).
// A is healthy but lacks the chunk, its mirror B is down, C has the chunk.
// The group has a healthy member that merely lacks the chunk, so the router
// has to fall through to C and return the chunk.
func TestDemoC11RouterFallsThroughFailoverGroup(t *testing.T) {
	x := NewChunk([]byte("chunk only present in the last store of the router"))
	a := demoC11With("A")
	b := demoC11With("B")
	b.down = true
	cStore := demoC11With("C", x)
	r := NewStoreRouter(NewFailoverGroup(a, b), cStore)

	c, err := r.GetChunk(x.ID())
	if err != nil {
		t.Fatalf("router over [A|B],C failed although A merely lacks the chunk and C has it: %v", err)
	}
	if c.ID() != x.ID() {
		t.Fatalf("wrong chunk returned")
	}
	if n := atomic.LoadInt64(&b.gets); n != 0 {
		t.Errorf("down member B was asked %d time(s)", n)
	}
}

// Same with real local stores on disk: the group consists of two directories,
// the first one is healthy and empty, the second one has been made unusable.
func TestDemoC11LocalStores(t *testing.T) {
	x := NewChunk([]byte("some chunk content for the local store scenario"))
	dirA, dirC := t.TempDir(), t.TempDir()
	la, err := NewLocalStore(dirA, StoreOptions{})
	if err != nil {
		t.Fatal(err)
	}
	lc, err := NewLocalStore(dirC, StoreOptions{})
	if err != nil {
		t.Fatal(err)
	}
	if err := lc.StoreChunk(x); err != nil {
		t.Fatal(err)
	}
	down := demoC11With("mirror-of-A")
	down.down = true

	g := NewFailoverGroup(la, down)
	r := NewStoreRouter(g, lc)
	if _, err := r.GetChunk(x.ID()); err != nil {
		t.Fatalf("router(failover(localA, down), localC): %v", err)
	}
	if g.active != 0 {
		t.Errorf("active index moved to %d", g.active)
	}
}
