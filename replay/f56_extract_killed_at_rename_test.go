package main

// Demonstration for property C08 (second clause): an extract WITHOUT --in-place
// that dies at any instant leaves the destination path in its previous state.
//
// The crash point exercised here is the very last step of writeWithTmpFile: the
// process is killed (SIGKILL) on entry to the rename(2) that moves the fully
// assembled temp file onto the destination, i.e. the rename itself never runs.
// On a correct tree the destination has not been touched before that syscall,
// so it still holds its previous content.
//
// The kill is injected with strace (ptrace), the same way a crash-point replay
// would do it:  strace -e inject=rename,renameat,renameat2:signal=SIGKILL
//
// Run from the worktree root after copying this file into cmd/desync:
//   go test -mod=mod -vet=off -count=1 -run TestDemoC08 ./cmd/desync

import (
	"bytes"
	"io/ioutil"
	"os"
	"os/exec"
	"path/filepath"
	"strings"
	"syscall"
	"testing"
)

func TestDemoC08ExtractKilledAtRename(t *testing.T) {
	strace, err := exec.LookPath("strace")
	if err != nil {
		t.Skip("strace not available")
	}

	dir, err := ioutil.TempDir("", "demoC08")
	if err != nil {
		t.Fatal(err)
	}
	defer os.RemoveAll(dir)

	// Build the real binary, the property is about a process that dies
	bin := filepath.Join(dir, "desync")
	if out, err := exec.Command("go", "build", "-o", bin, ".").CombinedOutput(); err != nil {
		t.Fatalf("go build: %v\n%s", err, out)
	}

	// The destination exists already and holds a previous version of the blob
	previous := []byte("previous version of the blob, must survive a killed extract\n")
	dst := filepath.Join(dir, "blob")
	if err := ioutil.WriteFile(dst, previous, 0644); err != nil {
		t.Fatal(err)
	}

	// Sanity: the same command line, not killed, replaces the destination
	ctl := filepath.Join(dir, "control")
	if err := ioutil.WriteFile(ctl, previous, 0644); err != nil {
		t.Fatal(err)
	}
	if out, err := exec.Command(bin, "extract", "-s", "testdata/blob1.store", "testdata/blob1.caibx", ctl).CombinedOutput(); err != nil {
		t.Fatalf("control extract failed: %v\n%s", err, out)
	}
	want, _ := ioutil.ReadFile("testdata/blob1")
	got, _ := ioutil.ReadFile(ctl)
	if !bytes.Equal(want, got) {
		t.Fatal("control extract did not produce the blob")
	}

	// Now the real thing: kill the process on entry to the final rename
	cmd := exec.Command(strace, "-f", "-o", filepath.Join(dir, "trace"),
		"-e", "trace=rename,renameat,renameat2,unlink,unlinkat",
		"-e", "inject=rename,renameat,renameat2:signal=SIGKILL",
		bin, "extract", "-s", "testdata/blob1.store", "testdata/blob1.caibx", dst)
	out, err := cmd.CombinedOutput()
	if err == nil {
		t.Fatalf("the extract was expected to be killed, but it completed\n%s", out)
	}
	killed := false
	if ee, ok := err.(*exec.ExitError); ok {
		if ws, ok := ee.Sys().(syscall.WaitStatus); ok {
			killed = (ws.Signaled() && ws.Signal() == syscall.SIGKILL) || ws.ExitStatus() == 128+int(syscall.SIGKILL)
		}
	}
	if !killed {
		t.Fatalf("the extract was expected to die from SIGKILL, got: %v\n%s", err, out)
	}
	trace, _ := ioutil.ReadFile(filepath.Join(dir, "trace"))
	var relevant []string
	for _, l := range strings.Split(string(trace), "\n") {
		if strings.Contains(l, "blob") || strings.Contains(l, "SIGKILL") {
			relevant = append(relevant, l)
		}
	}
	t.Logf("syscalls of the killed extract that name the destination:\n%s", strings.Join(relevant, "\n"))

	// The destination must be exactly what it was before the extract started
	got, err = ioutil.ReadFile(dst)
	if err != nil {
		t.Fatalf("destination lost after a killed extract (previous state was a %d byte file): %v", len(previous), err)
	}
	if !bytes.Equal(got, previous) {
		t.Fatalf("destination changed by a killed extract: %d bytes, previous state had %d bytes", len(got), len(previous))
	}
}
