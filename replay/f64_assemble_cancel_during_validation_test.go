package desync

import (
	"context"
	"io/ioutil"
	"math/rand"
	"os"
	"path/filepath"
	"testing"
	"time"
)

// Pre-existing defect (unchanged code): once the context is cancelled,
// AssembleFile with InvalidSeedActionSkip or InvalidSeedActionRegenerate never
// returns if the plan contains more than a handful of file-seed segments.
// Plan.Validate returns Interrupted{} without having marked any seed invalid,
// AssembleFile treats that like "a seed is invalid", re-plans (the same plan)
// and validates again, forever.
func TestDefectC01CancelDuringValidationSpins(t *testing.T) {
	ctx := context.Background()
	dir := t.TempDir()
	storeDir := filepath.Join(dir, "store")
	if err := os.Mkdir(storeDir, 0755); err != nil {
		t.Fatal(err)
	}
	s, err := NewLocalStore(storeDir, StoreOptions{})
	if err != nil {
		t.Fatal(err)
	}
	data := make([]byte, 2000000)
	rand.New(rand.NewSource(1)).Read(data)
	blob := filepath.Join(dir, "blob")
	if err := ioutil.WriteFile(blob, data, 0644); err != nil {
		t.Fatal(err)
	}
	idx, _, err := IndexFromFile(ctx, blob, 1, 64, 256, 1024, NullProgressBar{})
	if err != nil {
		t.Fatal(err)
	}
	if err := ChopFile(ctx, blob, idx.Chunks, s, 1, NullProgressBar{}); err != nil {
		t.Fatal(err)
	}
	out := filepath.Join(dir, "out")
	// A perfectly valid seed: the blob itself (~80 segments of 100 chunks each)
	seed, err := NewIndexSeed(out, blob, idx)
	if err != nil {
		t.Fatal(err)
	}

	for _, action := range []InvalidSeedAction{InvalidSeedActionBailOut, InvalidSeedActionSkip, InvalidSeedActionRegenerate} {
		cctx, cancel := context.WithCancel(ctx)
		cancel()
		done := make(chan error, 1)
		go func() {
			_, err := AssembleFile(cctx, out, idx, s, []Seed{seed}, AssembleOptions{N: 2, InvalidSeedAction: action})
			done <- err
		}()
		select {
		case err := <-done:
			if err == nil {
				t.Errorf("action %d: success reported for a cancelled extraction", action)
			}
		case <-time.After(10 * time.Second):
			t.Errorf("action %d: AssembleFile still running 10s after the context was cancelled", action)
		}
	}
}
