package desync

// Replay for the strict parsing of chunk IDs (C15/C16/C20): exactly 32 bytes / 64 hexadecimal digits.

import (
	"fmt"
	"strings"
	"testing"
)

func TestZZReplayChunkIDStrict(t *testing.T) {
	hex64 := strings.Repeat("ab", 32)
	for _, s := range []string{hex64 + "ff", hex64 + "deadbeef", hex64 + ".cacnk", hex64[:62], hex64 + "0", "", "zz" + hex64[2:]} {
		if id, err := ChunkIDFromString(s); err == nil {
			fmt.Printf("REPLAY-CONFIRMED: ChunkIDFromString(%q) is accepted as chunk %s\n", s, id.String())
		}
	}
	for _, n := range []int{0, 31, 33, 64} {
		if _, err := ChunkIDFromSlice(make([]byte, n)); err == nil {
			fmt.Printf("REPLAY-CONFIRMED: ChunkIDFromSlice accepts %d bytes\n", n)
		}
	}
	if id, err := ChunkIDFromString(hex64); err != nil || id.String() != hex64 {
		fmt.Printf("REPLAY-CONFIRMED: ChunkIDFromString rejects or changes a valid ID: %v %v\n", id, err)
	}
}
