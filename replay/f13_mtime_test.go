package desync

// Replay for the mtime-restoration obligations (C05): pack a small tree, unpack it, compare the
// modification time of every entry (lstat, so a symlink's own time is looked at).

import (
	"bytes"
	"context"
	"fmt"
	"os"
	"path/filepath"
	"testing"
	"time"

	"golang.org/x/sys/unix"
)

func zzF13Tree(t *testing.T) (string, time.Time) {
	src := t.TempDir()
	old := time.Date(2001, 2, 3, 4, 5, 6, 0, time.UTC)
	os.MkdirAll(filepath.Join(src, "d", "sub"), 0o755)
	os.WriteFile(filepath.Join(src, "d", "f"), []byte("x"), 0o644)
	os.Symlink("f", filepath.Join(src, "d", "l"))
	ts := []unix.Timespec{unix.NsecToTimespec(old.UnixNano()), unix.NsecToTimespec(old.UnixNano())}
	for _, p := range []string{"d/l", "d/f", "d/sub", "d", "."} {
		if err := unix.UtimesNanoAt(unix.AT_FDCWD, filepath.Join(src, p), ts, unix.AT_SYMLINK_NOFOLLOW); err != nil {
			t.Skip("cannot set times: ", err)
		}
	}
	return src, old
}

func zzF13RoundTrip(t *testing.T) (map[string]time.Time, time.Time) {
	src, old := zzF13Tree(t)
	var buf bytes.Buffer
	if err := Tar(context.Background(), &buf, NewLocalFS(src, LocalFSOptions{})); err != nil {
		t.Fatal(err)
	}
	dst := t.TempDir()
	if err := UnTar(context.Background(), &buf, NewLocalFS(dst, LocalFSOptions{NoSameOwner: true})); err != nil {
		t.Fatal(err)
	}
	got := map[string]time.Time{}
	for _, p := range []string{"d", "d/sub", "d/f", "d/l"} {
		fi, err := os.Lstat(filepath.Join(dst, p))
		if err != nil {
			t.Fatal(err)
		}
		got[p] = fi.ModTime()
	}
	return got, old
}

func TestZZReplayDirMtime(t *testing.T) {
	got, old := zzF13RoundTrip(t)
	t.Log(got)
	if !got["d"].Equal(old) && got["d/f"].Equal(old) {
		fmt.Printf("REPLAY-CONFIRMED: directory d (with children) was unpacked with mtime %v, packed with %v; file d/f kept its time\n", got["d"], old)
	}
}

func TestZZReplaySymlinkMtime(t *testing.T) {
	got, old := zzF13RoundTrip(t)
	t.Log(got)
	if !got["d/l"].Equal(old) && got["d/f"].Equal(old) {
		fmt.Printf("REPLAY-CONFIRMED: symlink d/l was unpacked with mtime %v, packed with %v\n", got["d/l"], old)
	}
}
