package desync

// Replay for the digest flag of ChunkStream's index (C02/C04): with the SHA256 digest configured the
// index must not be flagged SHA512/256, or its own reader rejects it.

import (
	"bytes"
	"context"
	"fmt"
	"testing"
)

func TestZZReplayChunkStreamDigestFlag(t *testing.T) {
	old := Digest
	defer func() { Digest = old }()
	Digest = SHA256{}
	data := make([]byte, 200000)
	for i := range data {
		data[i] = byte(i * 31 >> 3)
	}
	c, err := NewChunker(bytes.NewReader(data), ChunkSizeMinDefault, ChunkSizeAvgDefault, ChunkSizeMaxDefault)
	if err != nil {
		t.Fatal(err)
	}
	st, err := NewLocalStore(t.TempDir(), StoreOptions{})
	if err != nil {
		t.Fatal(err)
	}
	idx, err := ChunkStream(context.Background(), c, st, 2)
	if err != nil {
		t.Fatal(err)
	}
	var b bytes.Buffer
	if _, err := idx.WriteTo(&b); err != nil {
		t.Fatal(err)
	}
	_, rerr := IndexFromReader(&b)
	t.Logf("flags %x, reading back: %v", idx.Index.FeatureFlags, rerr)
	if idx.Index.FeatureFlags&CaFormatSHA512256 != 0 {
		fmt.Printf("REPLAY-CONFIRMED: ChunkStream with the SHA256 digest produced an index flagged SHA512/256 (flags %x); reading it back: %v\n", idx.Index.FeatureFlags, rerr)
	}
}
