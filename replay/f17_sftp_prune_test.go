package desync

// Replay for SFTPStore.Prune (C16): in uncompressed mode every unreferenced chunk file of the
// store's own format must be gone when Prune reports success. The SFTP peer is pkg/sftp's
// server running in a re-executed copy of this test binary (CASYNC_SSH_PATH wrapper script).

import (
	"context"
	"fmt"
	"io"
	"net/url"
	"os"
	"path/filepath"
	"testing"

	"github.com/pkg/sftp"
)

type zzStdio struct {
	io.Reader
	io.WriteCloser
}

func TestZZSftpServer(t *testing.T) {
	if os.Getenv("ZZ_SFTP_SERVER") != "1" {
		t.Skip("helper")
	}
	srv, err := sftp.NewServer(zzStdio{os.Stdin, os.Stdout})
	if err != nil {
		os.Exit(3)
	}
	srv.Serve()
	os.Exit(0)
}

func TestZZReplaySFTPPruneUncompressed(t *testing.T) {
	dir := t.TempDir()
	wrapper := filepath.Join(dir, "fakessh")
	script := fmt.Sprintf("#!/bin/sh\nexec env ZZ_SFTP_SERVER=1 %s -test.run '^TestZZSftpServer$'\n", os.Args[0])
	if err := os.WriteFile(wrapper, []byte(script), 0o755); err != nil {
		t.Fatal(err)
	}
	os.Setenv("CASYNC_SSH_PATH", wrapper)
	defer os.Unsetenv("CASYNC_SSH_PATH")
	storeDir := filepath.Join(dir, "store")
	os.MkdirAll(storeDir, 0o755)
	u, _ := url.Parse("sftp://localhost" + storeDir)
	s, err := NewSFTPStore(u, StoreOptions{N: 2, Uncompressed: true})
	if err != nil {
		t.Fatal(err)
	}
	defer s.Close()
	keep := NewChunk([]byte("referenced chunk"))
	drop := NewChunk([]byte("unreferenced chunk"))
	for _, c := range []*Chunk{keep, drop} {
		if err := s.StoreChunk(c); err != nil {
			t.Fatal(err)
		}
	}
	ids := map[ChunkID]struct{}{keep.ID(): {}}
	if err := s.Prune(context.Background(), ids); err != nil {
		fmt.Println("REPLAY-NOT-REPRODUCED: prune failed:", err)
		return
	}
	dropID := drop.ID()
	has, _ := s.HasChunk(dropID)
	hasKeep, _ := s.HasChunk(keep.ID())
	if has {
		fmt.Printf("REPLAY-CONFIRMED: SFTPStore.Prune (uncompressed) reported success but the unreferenced chunk %s is still there (referenced present: %v)\n", dropID.String()[:8], hasKeep)
	} else {
		fmt.Println("REPLAY-NOT-REPRODUCED")
	}
}
