package desync

import (
	"bytes"
	"io/ioutil"
	"net/http"
	"net/http/httptest"
	"net/url"
	"reflect"
	"sync"
	"testing"
	"time"
)

// Demonstration for property C04 (index files round-trip through every index
// store kind, here: HTTP). An index is stored through RemoteHTTPIndex while the
// first PUT attempt is answered with a transient 5xx (a restarting server, an
// overloaded proxy), so the store retries as configured with ErrorRetry. The
// index that ends up on the server must still be the one that was written.

func demoC04Index(t *testing.T) (Index, []byte) {
	t.Helper()
	in, err := ioutil.ReadFile("testdata/index.caibx")
	if err != nil {
		t.Fatal(err)
	}
	idx, err := IndexFromReader(bytes.NewReader(in))
	if err != nil {
		t.Fatal(err)
	}
	return idx, in
}

// flakyPut answers the first PUT with 503 (after consuming the request body, as
// a reverse proxy with a dead backend does) and passes everything else on.
type flakyPut struct {
	mu     sync.Mutex
	failed bool
	puts   int
	next   http.Handler
}

func (f *flakyPut) ServeHTTP(w http.ResponseWriter, r *http.Request) {
	if r.Method == "PUT" {
		f.mu.Lock()
		f.puts++
		first := !f.failed
		f.failed = true
		f.mu.Unlock()
		if first {
			ioutil.ReadAll(r.Body)
			http.Error(w, "backend unavailable", http.StatusServiceUnavailable)
			return
		}
	}
	f.next.ServeHTTP(w, r)
}

// A plain web server that keeps whatever is PUT (WebDAV/nginx style).
type plainPutServer struct {
	mu    sync.Mutex
	files map[string][]byte
}

func (p *plainPutServer) ServeHTTP(w http.ResponseWriter, r *http.Request) {
	p.mu.Lock()
	defer p.mu.Unlock()
	switch r.Method {
	case "PUT":
		b, err := ioutil.ReadAll(r.Body)
		if err != nil {
			http.Error(w, err.Error(), http.StatusBadRequest)
			return
		}
		p.files[r.URL.Path] = b
		w.WriteHeader(http.StatusCreated)
	case "GET":
		b, ok := p.files[r.URL.Path]
		if !ok {
			http.NotFound(w, r)
			return
		}
		w.Write(b)
	default:
		w.WriteHeader(http.StatusMethodNotAllowed)
	}
}

func TestDemoC04PlainHTTPServerRetry(t *testing.T) {
	idx, want := demoC04Index(t)

	backend := &plainPutServer{files: make(map[string][]byte)}
	front := &flakyPut{next: backend}
	ts := httptest.NewServer(front)
	defer ts.Close()

	u, _ := url.Parse(ts.URL + "/")
	s, err := NewRemoteHTTPIndexStore(u, StoreOptions{ErrorRetry: 3, ErrorRetryBaseInterval: time.Millisecond})
	if err != nil {
		t.Fatal(err)
	}
	if err := s.StoreIndex("blob.caibx", idx); err != nil {
		t.Fatalf("StoreIndex failed although the retry was answered with 201: %v", err)
	}
	if front.puts != 2 {
		t.Fatalf("expected 2 PUT attempts, got %d", front.puts)
	}

	// StoreIndex reported success, so the bytes on the server have to be the index
	got := backend.files["/blob.caibx"]
	if !bytes.Equal(got, want) {
		t.Errorf("server holds %d bytes after a successful StoreIndex, want the %d bytes of the index", len(got), len(want))
	}
	back, err := s.GetIndex("blob.caibx")
	if err != nil {
		t.Fatalf("reading back the index that was stored successfully: %v", err)
	}
	if !reflect.DeepEqual(back, idx) {
		t.Fatalf("index read back differs from the one written")
	}
}

func TestDemoC04IndexServerRetry(t *testing.T) {
	idx, want := demoC04Index(t)

	dir, err := ioutil.TempDir("", "demoC04")
	if err != nil {
		t.Fatal(err)
	}
	local, err := NewLocalIndexStore(dir)
	if err != nil {
		t.Fatal(err)
	}
	front := &flakyPut{next: NewHTTPIndexHandler(local, true, "")}
	ts := httptest.NewServer(front)
	defer ts.Close()

	u, _ := url.Parse(ts.URL + "/")
	s, err := NewRemoteHTTPIndexStore(u, StoreOptions{ErrorRetry: 3, ErrorRetryBaseInterval: time.Millisecond})
	if err != nil {
		t.Fatal(err)
	}
	if err := s.StoreIndex("blob.caibx", idx); err != nil {
		t.Fatalf("StoreIndex of a valid index failed after one transient 503: %v", err)
	}
	got, err := ioutil.ReadFile(dir + "/blob.caibx")
	if err != nil {
		t.Fatal(err)
	}
	if !bytes.Equal(got, want) {
		t.Fatalf("index file behind the index server differs from the index written")
	}
	back, err := s.GetIndex("blob.caibx")
	if err != nil {
		t.Fatal(err)
	}
	if !reflect.DeepEqual(back, idx) {
		t.Fatalf("index read back differs from the one written")
	}
}
