package desync

import (
	"bytes"
	"encoding/binary"
	"fmt"
	"io/ioutil"
	"math"
	"os"
	"path/filepath"
	"testing"
)

// Independent, tail-driven parser of a caibx/caidx file (the way casync locates
// the table: from the tail record at the end of the file backwards). Returns the
// end offsets and IDs of the table.
func demoC04ParseFromTail(b []byte) (offsets []uint64, ids [][32]byte, err error) {
	le := binary.LittleEndian
	if len(b) < 48+16+40 {
		return nil, nil, fmt.Errorf("file too short: %d", len(b))
	}
	tail := b[len(b)-40:]
	if le.Uint64(tail[0:]) != 0 || le.Uint64(tail[8:]) != 0 {
		return nil, nil, fmt.Errorf("tail record zero fill is not zero")
	}
	if le.Uint64(tail[32:]) != CaFormatTableTailMarker {
		return nil, nil, fmt.Errorf("tail marker not found at end of file")
	}
	indexOffset := le.Uint64(tail[16:])
	tableSize := le.Uint64(tail[24:])
	if indexOffset != 48 {
		return nil, nil, fmt.Errorf("tail record index offset is %d, want 48", indexOffset)
	}
	if tableSize > uint64(len(b)) || uint64(len(b))-tableSize != indexOffset {
		return nil, nil, fmt.Errorf("tail record says the table is %d bytes, but the file holds %d bytes after the %d byte index header",
			tableSize, len(b)-48, indexOffset)
	}
	table := b[uint64(len(b))-tableSize:]
	if le.Uint64(table[0:]) != math.MaxUint64 || le.Uint64(table[8:]) != CaFormatTable {
		return nil, nil, fmt.Errorf("no table header where the tail record says the table starts")
	}
	items := table[16 : len(table)-40]
	if len(items)%40 != 0 {
		return nil, nil, fmt.Errorf("table body of %d bytes is not a multiple of 40", len(items))
	}
	for ; len(items) > 0; items = items[40:] {
		var id [32]byte
		copy(id[:], items[8:40])
		offsets = append(offsets, le.Uint64(items[0:]))
		ids = append(ids, id)
	}
	return offsets, ids, nil
}

func demoC04Index(n int) Index {
	idx := Index{
		Index: FormatIndex{
			FeatureFlags: CaFormatExcludeNoDump | CaFormatSHA512256,
			ChunkSizeMin: 16 * 1024,
			ChunkSizeAvg: 64 * 1024,
			ChunkSizeMax: 256 * 1024,
		},
	}
	var start uint64
	for i := 0; i < n; i++ {
		var id ChunkID
		binary.LittleEndian.PutUint64(id[:], uint64(i)+1)
		id[31] = byte(i)
		size := uint64(16*1024 + i%1000)
		idx.Chunks = append(idx.Chunks, IndexChunk{ID: id, Start: start, Size: size})
		start += size
	}
	return idx
}

func demoC04Check(t *testing.T, idx Index, b []byte, n int64) {
	t.Helper()
	want := 48 + 16 + 40*len(idx.Chunks) + 40
	if len(b) != want {
		t.Fatalf("%d chunks: wrote %d bytes, want %d", len(idx.Chunks), len(b), want)
	}
	if n != int64(len(b)) {
		t.Errorf("%d chunks: WriteTo reported %d bytes but wrote %d", len(idx.Chunks), n, len(b))
	}
	offsets, ids, err := demoC04ParseFromTail(b)
	if err != nil {
		t.Fatalf("%d chunks: independent parser rejects the file: %v", len(idx.Chunks), err)
	}
	if len(offsets) != len(idx.Chunks) {
		t.Fatalf("%d chunks: independent parser found %d table items", len(idx.Chunks), len(offsets))
	}
	for i, c := range idx.Chunks {
		if offsets[i] != c.Start+c.Size || ids[i] != [32]byte(c.ID) {
			t.Fatalf("%d chunks: item %d differs", len(idx.Chunks), i)
		}
	}
	// desync's own reader
	got, err := IndexFromReader(bytes.NewReader(b))
	if err != nil {
		t.Fatalf("%d chunks: IndexFromReader: %v", len(idx.Chunks), err)
	}
	if len(got.Chunks) != len(idx.Chunks) {
		t.Fatalf("%d chunks: IndexFromReader returned %d chunks", len(idx.Chunks), len(got.Chunks))
	}
}

// The bytes written by Index.WriteTo have to follow the caibx layout including
// the sizes in the tail record, for every table length.
func TestDemoC04TailRecordSizes(t *testing.T) {
	for _, n := range []int{0, 1, 3, 162, 1023, 1024, 1025, 2048, 2049, 5000} {
		idx := demoC04Index(n)
		var buf bytes.Buffer
		written, err := idx.WriteTo(&buf)
		if err != nil {
			t.Fatal(err)
		}
		t.Run(fmt.Sprintf("WriteTo-%d", n), func(t *testing.T) {
			demoC04Check(t, idx, buf.Bytes(), written)
		})
	}
}

// Same through the local index store
func TestDemoC04LocalIndexStore(t *testing.T) {
	dir, err := ioutil.TempDir("", "demoC04")
	if err != nil {
		t.Fatal(err)
	}
	defer os.RemoveAll(dir)
	s, err := NewLocalIndexStore(dir)
	if err != nil {
		t.Fatal(err)
	}
	idx := demoC04Index(3000)
	if err := s.StoreIndex("big.caibx", idx); err != nil {
		t.Fatal(err)
	}
	b, err := ioutil.ReadFile(filepath.Join(dir, "big.caibx"))
	if err != nil {
		t.Fatal(err)
	}
	demoC04Check(t, idx, b, int64(len(b)))
}
