package desync

// Demonstration for property C19 (decoders survive arbitrary input), observed
// at "an HTTP PUT to the index handler": a PUT of a few garbage bytes has to be
// answered with an error without panicking and without allocating memory out
// of proportion to the bytes that were actually sent, whatever the request
// claims in its Content-Length header.
//
// Run from the worktree root after copying this file there:
//   go test -mod=mod -vet=off -count=1 -run 'TestDemoC19' .

import (
	"bytes"
	"fmt"
	"io"
	"io/ioutil"
	"net"
	"net/http"
	"net/http/httptest"
	"os"
	"runtime"
	"strings"
	"testing"
	"time"
)

const demoC19Announced = 256 << 20 // what the client claims to send
const demoC19Budget = 8 << 20      // generous budget for handling a 64 byte body

func demoC19Handler(t *testing.T) (http.Handler, string) {
	dir, err := ioutil.TempDir("", "demo-c19")
	if err != nil {
		t.Fatal(err)
	}
	s, err := NewLocalIndexStore(dir)
	if err != nil {
		t.Fatal(err)
	}
	return NewHTTPIndexHandler(s, true, ""), dir
}

func demoC19TotalAlloc() uint64 {
	var m runtime.MemStats
	runtime.ReadMemStats(&m)
	return m.TotalAlloc
}

// 64 bytes that are not an index (unknown element type)
var demoC19Garbage = bytes.Repeat([]byte{0xab}, 64)

// A real server, a raw client that announces 256MiB, sends 64 bytes of garbage
// and then stops sending.
func TestDemoC19IndexPutAnnouncedSizeServer(t *testing.T) {
	h, dir := demoC19Handler(t)
	defer os.RemoveAll(dir)
	srv := httptest.NewServer(h)
	defer srv.Close()

	conn, err := net.Dial("tcp", srv.Listener.Addr().String())
	if err != nil {
		t.Fatal(err)
	}
	defer conn.Close()

	before := demoC19TotalAlloc()

	fmt.Fprintf(conn, "PUT /garbage.caibx HTTP/1.1\r\nHost: demo\r\nContent-Length: %d\r\nConnection: close\r\n\r\n", demoC19Announced)
	conn.Write(demoC19Garbage)
	conn.(*net.TCPConn).CloseWrite()

	conn.SetReadDeadline(time.Now().Add(30 * time.Second))
	resp, _ := ioutil.ReadAll(conn)
	status := strings.SplitN(string(resp), "\r\n", 2)[0]

	allocated := demoC19TotalAlloc() - before
	t.Logf("response: %q, allocated while handling a %d byte body: %d bytes", status, len(demoC19Garbage), allocated)

	if !strings.Contains(status, " 4") {
		t.Errorf("expected a 4xx response to a garbage index, got %q", status)
	}
	if allocated > demoC19Budget {
		t.Errorf("PUT of %d bytes made the index handler allocate %d bytes (budget %d)", len(demoC19Garbage), allocated, demoC19Budget)
	}
}

// The same with a direct call of the handler
func TestDemoC19IndexPutAnnouncedSizeDirect(t *testing.T) {
	h, dir := demoC19Handler(t)
	defer os.RemoveAll(dir)

	req := httptest.NewRequest("PUT", "/garbage.caibx", io.MultiReader(bytes.NewReader(demoC19Garbage)))
	req.ContentLength = demoC19Announced
	rec := httptest.NewRecorder()

	before := demoC19TotalAlloc()
	h.ServeHTTP(rec, req)
	allocated := demoC19TotalAlloc() - before
	t.Logf("status %d, allocated while handling a %d byte body: %d bytes", rec.Code, len(demoC19Garbage), allocated)

	if rec.Code != http.StatusUnsupportedMediaType {
		t.Errorf("expected status 415 for a garbage index, got %d", rec.Code)
	}
	if allocated > demoC19Budget {
		t.Errorf("PUT of %d bytes made the index handler allocate %d bytes (budget %d)", len(demoC19Garbage), allocated, demoC19Budget)
	}
}

// An absurd announced size must not make the handler panic
func TestDemoC19IndexPutHugeAnnouncedSizeNoPanic(t *testing.T) {
	h, dir := demoC19Handler(t)
	defer os.RemoveAll(dir)

	req := httptest.NewRequest("PUT", "/garbage.caibx", io.MultiReader(bytes.NewReader(demoC19Garbage)))
	req.ContentLength = 1 << 62
	rec := httptest.NewRecorder()

	func() {
		defer func() {
			if r := recover(); r != nil {
				t.Errorf("index handler panicked on a garbage PUT: %v", r)
			}
		}()
		h.ServeHTTP(rec, req)
	}()
	t.Logf("status %d", rec.Code)
	if rec.Code != http.StatusUnsupportedMediaType {
		t.Errorf("expected status 415 for a garbage index, got %d", rec.Code)
	}
}
