package desync

import (
	"bytes"
	"context"
	"io/ioutil"
	"os"
	"path/filepath"
	"testing"
	"time"
)

// Packs a small tree from disk into a catar and unpacks it again into a fresh
// directory, then compares the modification time of every regular file with
// the source. Files carry mtimes after, at sub-second distance from, and before
// the Unix epoch (the latter is what tools leave behind for "unknown" dates,
// e.g. 1969-12-31 in US timezones, or vintage source trees).
func TestDemoC05TarUntarMtime(t *testing.T) {
	src, err := ioutil.TempDir("", "demo-c05-src")
	if err != nil {
		t.Fatal(err)
	}
	defer os.RemoveAll(src)
	dst, err := ioutil.TempDir("", "demo-c05-dst")
	if err != nil {
		t.Fatal(err)
	}
	defer os.RemoveAll(dst)

	mtimes := map[string]time.Time{
		"recent.txt":   time.Date(2021, 3, 4, 5, 6, 7, 0, time.UTC),
		"y2k.txt":      time.Date(2000, 1, 1, 0, 0, 0, 0, time.UTC),
		"epoch+1s.txt": time.Unix(1, 0),
		"pre1970.txt":  time.Date(1969, 12, 31, 16, 0, 0, 0, time.UTC),
		"vintage.txt":  time.Date(1955, 11, 5, 6, 15, 0, 0, time.UTC),
	}
	for name, mt := range mtimes {
		p := filepath.Join(src, name)
		if err := ioutil.WriteFile(p, []byte("content of "+name), 0644); err != nil {
			t.Fatal(err)
		}
		if err := os.Chtimes(p, mt, mt); err != nil {
			t.Fatal(err)
		}
		// Make sure the filesystem used for the test can hold the timestamp at all
		info, err := os.Lstat(p)
		if err != nil {
			t.Fatal(err)
		}
		if !info.ModTime().Equal(mt) {
			t.Skipf("filesystem can't store mtime %s (got %s)", mt, info.ModTime())
		}
	}

	// tar
	var catar bytes.Buffer
	if err := Tar(context.Background(), &catar, NewLocalFS(src, LocalFSOptions{})); err != nil {
		t.Fatal(err)
	}

	// untar
	out := NewLocalFS(dst, LocalFSOptions{NoSameOwner: true})
	if err := UnTar(context.Background(), bytes.NewReader(catar.Bytes()), out); err != nil {
		t.Fatal(err)
	}

	for name, want := range mtimes {
		info, err := os.Lstat(filepath.Join(dst, name))
		if err != nil {
			t.Fatal(err)
		}
		if got := info.ModTime(); !got.Equal(want) {
			t.Errorf("%s: mtime after tar+untar is %s, source had %s", name, got.UTC(), want.UTC())
		}
	}
}
