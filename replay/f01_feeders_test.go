package desync

// Replays for the feeder postconditions (C06, C07, C01): with a cancelled context the
// operation must not report success while work is incomplete.

import (
	"bytes"
	"context"
	"fmt"
	"os"
	"path/filepath"
	"testing"
)

func zzBlob(n, size int) ([]byte, Index) {
	data := make([]byte, n*size)
	for i := range data {
		data[i] = byte(i*31 + i/size)
	}
	var idx Index
	for i := 0; i < n; i++ {
		b := data[i*size : (i+1)*size]
		idx.Chunks = append(idx.Chunks, IndexChunk{ID: Digest.Sum(b), Start: uint64(i * size), Size: uint64(size)})
	}
	idx.Index.ChunkSizeMax = uint64(size)
	return data, idx
}

func zzCancelled() context.Context {
	ctx, cancel := context.WithCancel(context.Background())
	cancel()
	return ctx
}

func zzCountChunks(s LocalStore, idx Index) int {
	n := 0
	for _, c := range idx.Chunks {
		if ok, _ := s.HasChunk(c.ID); ok {
			n++
		}
	}
	return n
}

func TestZZReplayChopFileCancelled(t *testing.T) {
	dir := t.TempDir()
	data, idx := zzBlob(300, 64)
	name := filepath.Join(dir, "blob")
	os.WriteFile(name, data, 0o644)
	hits := 0
	for r := 0; r < 10; r++ {
		sd := filepath.Join(dir, fmt.Sprintf("store%d", r))
		os.MkdirAll(sd, 0o755)
		s, err := NewLocalStore(sd, StoreOptions{})
		if err != nil {
			t.Fatal(err)
		}
		if err := ChopFile(zzCancelled(), name, idx.Chunks, s, 2, NullProgressBar{}); err == nil && zzCountChunks(s, idx) < len(idx.Chunks) {
			hits++
		}
	}
	if hits > 0 {
		fmt.Printf("REPLAY-CONFIRMED: ChopFile returned nil with chunks missing from the store in %d of 10 cancelled runs\n", hits)
	} else {
		fmt.Println("REPLAY-NOT-REPRODUCED")
	}
}

func TestZZReplayCopyCancelled(t *testing.T) {
	dir := t.TempDir()
	data, idx := zzBlob(300, 64)
	name := filepath.Join(dir, "blob")
	os.WriteFile(name, data, 0o644)
	srcDir := filepath.Join(dir, "src")
	os.MkdirAll(srcDir, 0o755)
	src, _ := NewLocalStore(srcDir, StoreOptions{})
	if err := ChopFile(context.Background(), name, idx.Chunks, src, 2, NullProgressBar{}); err != nil {
		t.Fatal(err)
	}
	var ids []ChunkID
	for _, c := range idx.Chunks {
		ids = append(ids, c.ID)
	}
	hits := 0
	for r := 0; r < 10; r++ {
		dd := filepath.Join(dir, fmt.Sprintf("dst%d", r))
		os.MkdirAll(dd, 0o755)
		dst, _ := NewLocalStore(dd, StoreOptions{})
		if err := Copy(zzCancelled(), ids, src, dst, 2, NullProgressBar{}); err == nil && zzCountChunks(dst, idx) < len(ids) {
			hits++
		}
	}
	if hits > 0 {
		fmt.Printf("REPLAY-CONFIRMED: Copy returned nil with chunks missing from the destination in %d of 10 cancelled runs\n", hits)
	} else {
		fmt.Println("REPLAY-NOT-REPRODUCED")
	}
}

func TestZZReplayChunkStreamCancelled(t *testing.T) {
	dir := t.TempDir()
	data := make([]byte, 2<<20)
	for i := range data {
		data[i] = byte(i*i>>3 + i)
	}
	hits := 0
	for r := 0; r < 10; r++ {
		sd := filepath.Join(dir, fmt.Sprintf("store%d", r))
		os.MkdirAll(sd, 0o755)
		s, _ := NewLocalStore(sd, StoreOptions{})
		c, err := NewChunker(bytes.NewReader(data), 1024, 4096, 16384)
		if err != nil {
			t.Fatal(err)
		}
		idx, err := ChunkStream(zzCancelled(), c, s, 2)
		if err == nil && idx.Length() != int64(len(data)) {
			hits++
		}
	}
	if hits > 0 {
		fmt.Printf("REPLAY-CONFIRMED: ChunkStream returned nil and an index shorter than its input in %d of 10 cancelled runs\n", hits)
	} else {
		fmt.Println("REPLAY-NOT-REPRODUCED")
	}
}

func TestZZReplayAssembleFileCancelled(t *testing.T) {
	dir := t.TempDir()
	data, idx := zzBlob(300, 64)
	name := filepath.Join(dir, "blob")
	os.WriteFile(name, data, 0o644)
	sd := filepath.Join(dir, "store")
	os.MkdirAll(sd, 0o755)
	s, _ := NewLocalStore(sd, StoreOptions{})
	if err := ChopFile(context.Background(), name, idx.Chunks, s, 2, NullProgressBar{}); err != nil {
		t.Fatal(err)
	}
	hits := 0
	for r := 0; r < 10; r++ {
		out := filepath.Join(dir, fmt.Sprintf("out%d", r))
		_, err := AssembleFile(zzCancelled(), out, idx, s, nil, AssembleOptions{N: 2})
		got, _ := os.ReadFile(out)
		if err == nil && !bytes.Equal(got, data) {
			hits++
		}
	}
	if hits > 0 {
		fmt.Printf("REPLAY-CONFIRMED: AssembleFile returned nil with an output that differs from the blob in %d of 10 cancelled runs\n", hits)
	} else {
		fmt.Println("REPLAY-NOT-REPRODUCED")
	}
}

func TestZZReplayPlanValidateCancelled(t *testing.T) {
	dir := t.TempDir()
	data, idx := zzBlob(300, 64)
	seedFile := filepath.Join(dir, "seed")
	// the seed file does not match its index at all
	os.WriteFile(seedFile, make([]byte, len(data)), 0o644)
	hits := 0
	for r := 0; r < 10; r++ {
		seed, err := NewIndexSeed(filepath.Join(dir, "target"), seedFile, idx)
		if err != nil {
			t.Fatal(err)
		}
		// many one-chunk candidates keep the feeder busy
		var plan Plan
		for i := range idx.Chunks {
			seg := newFileSeedSegment(seedFile, idx.Chunks[i:i+1], false)
			plan = append(plan, SeedSegmentCandidate{seed: seed, source: seg, indexSegment: IndexSegment{index: idx, first: i, last: i}})
		}
		if err := plan.Validate(context.Background(), 2, NullProgressBar{}); err == nil {
			t.Fatal("harness broken: invalid seed accepted without cancellation")
		}
		seed.SetInvalid(false)
		if err := plan.Validate(zzCancelled(), 2, NullProgressBar{}); err == nil {
			hits++
		}
	}
	if hits > 0 {
		fmt.Printf("REPLAY-CONFIRMED: Plan.Validate returned nil for a seed that does not match its index in %d of 10 cancelled runs\n", hits)
	} else {
		fmt.Println("REPLAY-NOT-REPRODUCED")
	}
}
