package desync

import (
	"bytes"
	"context"
	"io/ioutil"
	"net/http"
	"net/http/httptest"
	"net/url"
	"os"
	"strconv"
	"sync"
	"testing"
	"time"

	minio "github.com/minio/minio-go/v6"
	"github.com/minio/minio-go/v6/pkg/credentials"
)

// Credentials with the V2 signer, that way PUT bodies arrive plain and not in the
// aws-chunked streaming format, which keeps the fake server below trivial.
type demoC06Creds struct{}

func (demoC06Creds) Retrieve() (credentials.Value, error) {
	return credentials.Value{
		AccessKeyID:     "demo",
		SecretAccessKey: "demodemodemodemo",
		SignerType:      credentials.SignatureV2,
	}, nil
}
func (demoC06Creds) IsExpired() bool { return false }

// demoC06S3 is a minimal, well-behaved in-memory S3 endpoint: PUT stores an object,
// HEAD and GET return it or 404. It never fails.
type demoC06S3 struct {
	mu      sync.Mutex
	objects map[string][]byte
	puts    int
}

func (s *demoC06S3) ServeHTTP(w http.ResponseWriter, r *http.Request) {
	key := r.URL.Path
	switch r.Method {
	case "PUT":
		b, err := ioutil.ReadAll(r.Body)
		if err != nil {
			http.Error(w, err.Error(), http.StatusInternalServerError)
			return
		}
		s.mu.Lock()
		s.objects[key] = b
		s.puts++
		s.mu.Unlock()
		w.Header().Set("ETag", `"00000000000000000000000000000000"`)
		w.WriteHeader(http.StatusOK)
	case "HEAD", "GET":
		s.mu.Lock()
		b, ok := s.objects[key]
		s.mu.Unlock()
		if !ok {
			w.Header().Set("Content-Type", "application/xml")
			w.WriteHeader(http.StatusNotFound)
			if r.Method == "GET" {
				w.Write([]byte(`<?xml version="1.0" encoding="UTF-8"?><Error><Code>NoSuchKey</Code><Message>The specified key does not exist.</Message></Error>`))
			}
			return
		}
		w.Header().Set("Last-Modified", time.Now().UTC().Format(http.TimeFormat))
		w.Header().Set("Content-Type", "application/octet-stream")
		w.Header().Set("Content-Length", strconv.Itoa(len(b)))
		w.Header().Set("ETag", `"00000000000000000000000000000000"`)
		w.WriteHeader(http.StatusOK)
		if r.Method == "GET" {
			w.Write(b)
		}
	default:
		w.WriteHeader(http.StatusMethodNotAllowed)
	}
}

// Returns an S3 chunk store talking to a fresh fake S3 endpoint, set up with the given
// number of retries (what --error-retry / "error-retry" in the config end up as).
func demoC06Setup(t *testing.T, errorRetry int) (S3Store, *demoC06S3) {
	t.Helper()
	backend := &demoC06S3{objects: make(map[string][]byte)}
	ts := httptest.NewServer(backend)
	t.Cleanup(ts.Close)
	u, _ := url.Parse(ts.URL)
	endpoint := url.URL{Scheme: "s3+http", Host: u.Host, Path: "/bucket/store/"}
	s, err := NewS3Store(&endpoint, credentials.New(demoC06Creds{}), "us-east-1",
		StoreOptions{N: 4, ErrorRetry: errorRetry}, minio.BucketLookupPath)
	if err != nil {
		t.Fatal(err)
	}
	return s, backend
}

// The property: if the bulk write reported success, every chunk of the index can be
// read back, valid, from the target store.
func demoC06Check(t *testing.T, what string, opErr error, chunks []IndexChunk, target Store, backend *demoC06S3) {
	t.Helper()
	if opErr != nil {
		// Nothing is failing in this test, an error would be odd but it's not
		// what is being demonstrated
		t.Fatalf("%s: unexpected error: %v", what, opErr)
	}
	if len(chunks) == 0 {
		t.Fatalf("%s: no chunks in the index", what)
	}
	for _, c := range chunks {
		chunk, err := target.GetChunk(c.ID)
		if err != nil {
			t.Fatalf("%s reported success, the store received %d uploads, but chunk %s of the index can't be read back from the target store: %v",
				what, backend.puts, c.ID.String(), err)
		}
		b, err := chunk.Data()
		if err != nil || Digest.Sum(b) != c.ID || uint64(len(b)) != c.Size {
			t.Fatalf("%s reported success but chunk %s read back from the target store is not valid", what, c.ID.String())
		}
	}
	t.Logf("%s: success reported, %d uploads, all %d index chunks read back valid", what, backend.puts, len(chunks))
}

func demoC06Index(t *testing.T) Index {
	t.Helper()
	f, err := os.Open("testdata/blob1.caibx")
	if err != nil {
		t.Fatal(err)
	}
	defer f.Close()
	index, err := IndexFromReader(f)
	if err != nil {
		t.Fatal(err)
	}
	return index
}

// Control: with the default number of retries everything is fine on both versions.
func TestDemoC06ChopDefaultRetry(t *testing.T) {
	index := demoC06Index(t)
	s, backend := demoC06Setup(t, DefaultErrorRetry)
	err := ChopFile(context.Background(), "testdata/blob1", index.Chunks, s, 4, NewProgressBar(""))
	demoC06Check(t, "chop/make, error-retry 3", err, index.Chunks, s, backend)
}

// desync chop/make -s s3+http://... --error-retry 0
func TestDemoC06ChopNoRetry(t *testing.T) {
	index := demoC06Index(t)
	s, backend := demoC06Setup(t, 0)
	err := ChopFile(context.Background(), "testdata/blob1", index.Chunks, s, 4, NewProgressBar(""))
	demoC06Check(t, "chop/make, error-retry 0", err, index.Chunks, s, backend)
}

// desync cache -c s3+http://... --error-retry 0
func TestDemoC06CacheNoRetry(t *testing.T) {
	index := demoC06Index(t)
	src, err := NewLocalStore("testdata/blob1.store", StoreOptions{})
	if err != nil {
		t.Fatal(err)
	}
	seen := make(map[ChunkID]struct{})
	var ids []ChunkID
	for _, c := range index.Chunks {
		if _, ok := seen[c.ID]; !ok {
			seen[c.ID] = struct{}{}
			ids = append(ids, c.ID)
		}
	}
	s, backend := demoC06Setup(t, 0)
	err = Copy(context.Background(), ids, src, s, 4, NewProgressBar(""))
	demoC06Check(t, "cache, error-retry 0", err, index.Chunks, s, backend)
}

// desync tar -i -s s3+http://... --error-retry 0
func TestDemoC06TarIndexNoRetry(t *testing.T) {
	b, err := ioutil.ReadFile("testdata/blob1")
	if err != nil {
		t.Fatal(err)
	}
	c, err := NewChunker(bytes.NewReader(b), ChunkSizeMinDefault, ChunkSizeAvgDefault, ChunkSizeMaxDefault)
	if err != nil {
		t.Fatal(err)
	}
	s, backend := demoC06Setup(t, 0)
	index, err := ChunkStream(context.Background(), c, s, 4)
	if err == nil && index.Length() != int64(len(b)) {
		t.Fatalf("index length %d, input %d", index.Length(), len(b))
	}
	demoC06Check(t, "tar -i, error-retry 0", err, index.Chunks, s, backend)
}
