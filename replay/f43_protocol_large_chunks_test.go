package desync

import (
	"bytes"
	"context"
	"io"
	"math/rand"
	"testing"
)

// Demo for C14: every chunk held by the store served with "desync pull" has to
// arrive unchanged at a client speaking the casync (SSH) protocol, and a present
// chunk must be reported as present. That has to hold for all chunks, including
// ones that don't compress (their storage form is a little larger than the plain
// data) and ones from stores/indexes made with a larger max chunk size.
func TestDemoC14ProtocolLargeChunks(t *testing.T) {
	rnd := rand.New(rand.NewSource(14))
	random := func(n int) []byte {
		b := make([]byte, n)
		rnd.Read(b)
		return b
	}

	cases := []struct {
		name string
		data []byte
	}{
		{"small", []byte{4, 3, 2, 1}},
		{"64k-random", random(64 * 1024)},
		{"256k-zeroes", make([]byte, 256*1024)},
		// max-sized chunk (default 16:64:256) of incompressible data
		{"256k-random", random(256 * 1024)},
		// chunk from an index made with -m 64:256:1024
		{"1m-random", random(1024 * 1024)},
	}

	store := &TestStore{}
	for _, c := range cases {
		if err := store.StoreChunk(NewChunk(c.data)); err != nil {
			t.Fatal(err)
		}
	}

	for _, c := range cases {
		c := c
		t.Run(c.name, func(t *testing.T) {
			// Fresh session per case, a failed one is not usable any more
			r1, w1 := io.Pipe()
			r2, w2 := io.Pipe()
			client := NewProtocol(r1, w2)
			ps := NewProtocolServer(r2, w1, store)
			ctx, cancel := context.WithCancel(context.Background())
			defer cancel()
			go ps.Serve(ctx)
			defer func() { w1.Close(); w2.Close(); r1.Close(); r2.Close() }()

			flags, err := client.Initialize(CaProtocolPullChunks)
			if err != nil {
				t.Fatal(err)
			}
			if flags&CaProtocolReadableStore == 0 {
				t.Fatal("server not offering chunks")
			}

			// Same thing NewRemoteSSHStore builds, just without spawning ssh
			remote := &RemoteSSH{pool: make(chan *Protocol, 1), n: 1}
			remote.pool <- client

			id := NewChunk(c.data).ID()
			chunk, err := remote.GetChunk(id)
			if err != nil {
				t.Fatalf("GetChunk of a present %d byte chunk failed: %v", len(c.data), err)
			}
			b, err := chunk.Data()
			if err != nil {
				t.Fatal(err)
			}
			if !bytes.Equal(b, c.data) {
				t.Fatal("chunk data was changed in transit")
			}

			has, err := remote.HasChunk(id)
			if err != nil || !has {
				t.Fatalf("HasChunk of a present chunk = (%v, %v), want (true, nil)", has, err)
			}

			// and a missing one is still reported as missing on the same session
			if _, err := remote.GetChunk(ChunkID{1}); err == nil {
				t.Fatal("expected ChunkMissing")
			} else if _, ok := err.(ChunkMissing); !ok {
				t.Fatalf("expected ChunkMissing, got %v", err)
			}
		})
	}
}
