package desync

import (
	"bytes"
	"context"
	"crypto/rand"
	"fmt"
	"io/ioutil"
	"os"
	"path/filepath"
	"testing"
)

// Demonstration for property C01: assembling a blob that contains a long run
// of zeros (more than 100 consecutive null chunks, as every sparse disk image
// does) must succeed and reproduce the blob byte-for-byte when the store
// holds every chunk. No file seeds are involved at all.
func TestDemoC01LongNullRun(t *testing.T) {
	const (
		min = 2048
		avg = 8192
		max = 32768
	)
	head := make([]byte, 3*max)
	rand.Read(head)
	tail := make([]byte, 3*max)
	rand.Read(tail)

	for _, nullChunks := range []int{100, 101, 150, 350} {
		for _, n := range []int{1, 4} {
			for _, prior := range []string{"absent", "empty", "garbage"} {
				name := fmt.Sprintf("null=%d/N=%d/target=%s", nullChunks, n, prior)
				t.Run(name, func(t *testing.T) {
					dir := t.TempDir()

					// head | nullChunks*max zeros | tail
					blob := append([]byte{}, head...)
					blob = append(blob, make([]byte, nullChunks*max)...)
					blob = append(blob, tail...)
					in := filepath.Join(dir, "in")
					if err := ioutil.WriteFile(in, blob, 0644); err != nil {
						t.Fatal(err)
					}

					idx, _, err := IndexFromFile(context.Background(), in, n, min, avg, max, NewProgressBar(""))
					if err != nil {
						t.Fatal(err)
					}
					run, longest := 0, 0
					nullID := NewNullChunk(max).ID
					for _, c := range idx.Chunks {
						if c.ID == nullID {
							run++
							if run > longest {
								longest = run
							}
						} else {
							run = 0
						}
					}
					t.Logf("index has %d chunks, longest run of null chunks: %d", len(idx.Chunks), longest)

					storeDir := filepath.Join(dir, "store")
					if err := os.Mkdir(storeDir, 0755); err != nil {
						t.Fatal(err)
					}
					s, err := NewLocalStore(storeDir, StoreOptions{})
					if err != nil {
						t.Fatal(err)
					}
					if err := ChopFile(context.Background(), in, idx.Chunks, s, n, NewProgressBar("")); err != nil {
						t.Fatal(err)
					}

					out := filepath.Join(dir, "out")
					switch prior {
					case "empty":
						if err := ioutil.WriteFile(out, nil, 0644); err != nil {
							t.Fatal(err)
						}
					case "garbage":
						g := make([]byte, len(blob)+12345)
						rand.Read(g)
						if err := ioutil.WriteFile(out, g, 0644); err != nil {
							t.Fatal(err)
						}
					}

					// The store holds every chunk and there are no (invalid) seeds:
					// this has to succeed
					if _, err := AssembleFile(context.Background(), out, idx, s, nil,
						AssembleOptions{N: n, InvalidSeedAction: InvalidSeedActionBailOut},
					); err != nil {
						t.Fatalf("AssembleFile failed although the store holds every chunk: %v", err)
					}
					got, err := ioutil.ReadFile(out)
					if err != nil {
						t.Fatal(err)
					}
					if len(got) != len(blob) {
						t.Fatalf("output has %d bytes, want %d", len(got), len(blob))
					}
					if !bytes.Equal(got, blob) {
						t.Fatal("output differs from the indexed blob")
					}
				})
			}
		}
	}
}
