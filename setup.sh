#!/bin/sh
# Build the verifier from files on disk only (offline).
set -e
cd "$(dirname "$0")"
export GOFLAGS=-mod=mod GOPROXY=off GOSUMDB=off GOTOOLCHAIN=local
mkdir -p bin evidence replays
(cd cmd/gocv && go build -o ../../bin/gocv .)
echo "setup ok"
