package main

// Statement execution: forward symbolic execution with forking at branches, merging at
// joins, and loop treatment by invariants (assert at entry, havoc the modified set, assume,
// execute body once, assert at every back edge).

import (
	"sort"
	"fmt"
	"os"
	"go/ast"
	"go/token"
	"go/types"
	"strings"
)

const (
	oNormal = iota
	oBreak
	oContinue
	oReturn
	oGoto
	oPanic
)

type Out struct {
	kind  int
	label string
	st    *State
}

func (o *Out) kindName() string {
	return [...]string{"normal", "break", "continue", "return", "goto", "panic"}[o.kind]
}

func normal(st *State) []*Out { return []*Out{{kind: oNormal, st: st}} }

// merge joins several states into one using fresh choice variables.
func (u *Unit) merge(states []*State) *State {
	if len(states) == 0 {
		return nil
	}
	cur := states[0]
	for _, s := range states[1:] {
		cur = u.merge2(cur, s)
	}
	return cur
}

func (u *Unit) merge2(a, b *State) *State {
	// common pc prefix
	n := 0
	for n < len(a.pc) && n < len(b.pc) && a.pc[n].S == b.pc[n].S {
		n++
	}
	restA, restB := a.pc[n:], b.pc[n:]
	var choice Term
	if len(restA) > 0 && len(restB) > 0 && restA[0].S == Not(restB[0]).S {
		// deterministic branch on a condition: reuse it
		choice = restA[0]
	} else {
		choice = u.d.Fresh("join", SBool)
	}
	m := newState()
	m.pc = append(m.pc, a.pc[:n]...)
	for _, t := range m.pc {
		m.facts[t.S] = true
	}
	for _, t := range restA {
		if t.S == choice.S {
			continue
		}
		m.assume(Imp(choice, t))
	}
	for _, t := range restB {
		if t.S == Not(choice).S {
			continue
		}
		m.assume(Imp(Not(choice), t))
	}
	for obj, va := range a.vars {
		vb, ok := b.vars[obj]
		if !ok {
			continue
		}
		m.vars[obj] = u.mergeNamed(m, choice, va, vb, obj.Name())
	}
	for obj, ra := range a.boxed {
		if rb, ok := b.boxed[obj]; ok {
			m.boxed[obj] = Ite(choice, ra, rb)
		}
	}
	for k, va := range a.names {
		if vb, ok := b.names[k]; ok {
			m.names[k] = mergeVal(choice, va, vb)
		}
	}
	keys := map[string]bool{}
	for k := range a.heap {
		keys[k] = true
	}
	for k := range b.heap {
		keys[k] = true
	}
	for k := range keys {
		ta, oka := a.heap[k]
		tb, okb := b.heap[k]
		var sort Sort
		if oka {
			sort = ta.Sort
		} else {
			sort = tb.Sort
		}
		if !oka {
			ta = u.heapBase(a, k, sort)
		}
		if !okb {
			tb = u.heapBase(b, k, sort)
		}
		ht := Ite(choice, ta, tb)
		if len(ht.S) > 160 {
			n := u.d.Fresh("hm", ht.Sort)
			m.assume(Eq(n, ht))
			ht = n
		}
		m.heap[k] = ht
	}
	m.clock = Ite(choice, a.clock, b.clock)
	// havoc histories
	i := 0
	for i < len(a.havocs) && i < len(b.havocs) && a.havocs[i].id == b.havocs[i].id {
		i++
	}
	m.havocs = append(m.havocs, a.havocs[:i]...)
	if i < len(a.havocs) || i < len(b.havocs) {
		// keys that were only read so far (no entry in either heap map) but are covered by one of
		// the differing havocs: keep their exact per-branch values
		for _, hk := range u.readHeapKeys() {
			if _, ok := m.heap[hk.key]; ok {
				continue
			}
			ta := u.heapBase(a, hk.key, hk.sort)
			tb := u.heapBase(b, hk.key, hk.sort)
			if ta.S != tb.S {
				m.heap[hk.key] = Ite(choice, ta, tb)
			}
		}
		tail := append(append([]havocEvent(nil), a.havocs[i:]...), b.havocs[i:]...)
		u.nextHavoc++
		m.havocs = append(m.havocs, havocEvent{id: u.nextHavoc, pred: func(key string) bool {
			for _, h := range tail {
				if h.pred(key) {
					return true
				}
			}
			return false
		}})
	}
	// defers: the common prefix stays; a defer registered on one side only becomes conditional
	nd := 0
	for nd < len(a.defers) && nd < len(b.defers) && a.defers[nd] == b.defers[nd] {
		nd++
	}
	m.defers = append(m.defers, a.defers[:nd]...)
	for _, d := range a.defers[nd:] {
		g := choice
		if d.guard.S != "" {
			g = And(choice, d.guard)
		}
		m.defers = append(m.defers, &deferEntry{run: d.run, guard: g})
	}
	for _, d := range b.defers[nd:] {
		g := Not(choice)
		if d.guard.S != "" {
			g = And(Not(choice), d.guard)
		}
		m.defers = append(m.defers, &deferEntry{run: d.run, guard: g})
	}
	return m
}

func (u *Unit) mergeNamed(st *State, c Term, a, b Value, hint string) Value {
	return u.nameBig(st, mergeVal(c, a, b), hint)
}

func mergeVal(c Term, a, b Value) Value {
	if len(a.L) != len(b.L) {
		return a
	}
	out := Value{T: a.T, L: make([]Term, len(a.L))}
	for i := range a.L {
		out.L[i] = Ite(c, a.L[i], b.L[i])
	}
	return out
}

// joinNormals merges all normal outs into one and keeps the others.
func (u *Unit) joinNormals(outs []*Out) []*Out {
	var normals []*State
	var rest []*Out
	for _, o := range outs {
		if o.kind == oNormal {
			normals = append(normals, o.st)
		} else {
			rest = append(rest, o)
		}
	}
	if len(normals) <= 1 {
		return outs
	}
	return append([]*Out{{kind: oNormal, st: u.merge(normals)}}, rest...)
}

func (u *Unit) execBlock(st *State, stmts []ast.Stmt) []*Out {
	cur := st
	var outs []*Out
	for i, s := range stmts {
		if cur == nil {
			break
		}
		// goto-label with invariant: handled as a loop head over the rest of the block
		if ls, ok := s.(*ast.LabeledStmt); ok {
			if spec := u.top().spec.Labels[ls.Label.Name]; spec != nil {
				if _, isLoop := ls.Stmt.(*ast.ForStmt); !isLoop {
					if _, isRange := ls.Stmt.(*ast.RangeStmt); !isRange {
						outs = append(outs, u.execGotoRegion(cur, ls, stmts[i:], spec)...)
						return u.joinNormals(outs)
					}
				}
			}
		}
		res := u.joinNormals(u.execStmt(cur, s, ""))
		cur = nil
		for _, o := range res {
			if o.kind == oNormal {
				cur = o.st
			} else {
				outs = append(outs, o)
			}
		}
	}
	if cur != nil {
		outs = append(outs, &Out{kind: oNormal, st: cur})
	}
	return outs
}

func (u *Unit) execStmt(st *State, s ast.Stmt, label string) []*Out {
	u.curPos = s.Pos()
	if len(u.frames) == 1 {
		if _, isBlock := s.(*ast.BlockStmt); !isBlock {
			u.curStmt = s.Pos()
		}
	}
	u.runAnchors(st, "before", s)
	outs := u.execStmt1(st, s, label)
	return outs
}

func (u *Unit) execStmt1(st *State, s ast.Stmt, label string) []*Out {
	switch x := s.(type) {
	case *ast.EmptyStmt:
		return normal(st)
	case *ast.BlockStmt:
		return u.execBlock(st, x.List)
	case *ast.ExprStmt:
		if call, ok := ast.Unparen(x.X).(*ast.CallExpr); ok {
			if id, ok := call.Fun.(*ast.Ident); ok && id.Name == "panic" {
				if _, isB := u.top().info.Uses[id].(*types.Builtin); isB {
					if u.checks["panic"] {
						u.oblige(st, fmt.Sprintf("panic@%s", u.siteName(call)), "panic", nil, TFalse, call.Pos(), "explicit panic reachable")
					}
					return []*Out{{kind: oPanic, st: st}}
				}
			}
		}
		u.eval(st, x.X)
		return normal(st)
	case *ast.DeclStmt:
		gd := x.Decl.(*ast.GenDecl)
		for _, sp := range gd.Specs {
			vs, ok := sp.(*ast.ValueSpec)
			if !ok {
				continue
			}
			if len(vs.Values) == 0 {
				for _, id := range vs.Names {
					obj := u.top().info.Defs[id]
					if obj == nil {
						continue
					}
					u.declare(st, obj, u.zeroValue(obj.Type()))
				}
			} else if len(vs.Values) == len(vs.Names) {
				for i, id := range vs.Names {
					obj := u.top().info.Defs[id]
					v := u.eval(st, vs.Values[i])
					if obj == nil {
						continue
					}
					u.declare(st, obj, u.convert(st, v, obj.Type()))
				}
			} else {
				vals := u.evalMulti(st, vs.Values[0], len(vs.Names))
				for i, id := range vs.Names {
					obj := u.top().info.Defs[id]
					if obj == nil {
						continue
					}
					u.declare(st, obj, u.convert(st, vals[i], obj.Type()))
				}
			}
		}
		return normal(st)
	case *ast.AssignStmt:
		u.execAssign(st, x)
		return normal(st)
	case *ast.IncDecStmt:
		lv := u.evalLV(st, x.X)
		v := u.load(st, lv)
		one := u.intConst(1, lv.T)
		var r Value
		if x.Tok == token.INC {
			r = u.binop(st, token.ADD, v, one, lv.T, x.Pos())
		} else {
			r = u.binop(st, token.SUB, v, one, lv.T, x.Pos())
		}
		u.store(st, lv, r)
		if len(u.frames) == 1 {
			// anchor "afterstmt:x++" / "afterstmt:x--"
			u.runAnchorsNamed(st, "afterstmt:"+exprText(x.X)+x.Tok.String(), x.Pos(), nil)
		}
		return normal(st)
	case *ast.ReturnStmt:
		fr := u.top()
		if len(x.Results) > 0 {
			var vals []Value
			if len(x.Results) == 1 && len(fr.results) > 1 {
				vals = u.evalMulti(st, x.Results[0], len(fr.results))
			} else {
				for _, r := range x.Results {
					vals = append(vals, u.eval(st, r))
				}
			}
			for i, rv := range fr.results {
				u.store(st, LV{kind: lvVar, obj: rv, T: rv.Type()}, u.convert(st, vals[i], rv.Type()))
			}
		}
		if len(u.frames) == 1 && u.spec != nil && (len(u.spec.Ghost) > 0 || len(u.spec.Asserts) > 0) {
			// anchor "returned": after the operands of a return statement were evaluated; $ret0.. are the results
			extra := map[string]Value{}
			for i, rv := range fr.results {
				extra[fmt.Sprintf("$ret%d", i)] = u.load(st, LV{kind: lvVar, obj: rv, T: rv.Type()})
			}
			u.runAnchorsNamed(st, "returned", x.Pos(), extra)
		}
		return []*Out{{kind: oReturn, st: st}}
	case *ast.IfStmt:
		return u.execIf(st, x)
	case *ast.ForStmt:
		return u.execFor(st, x, label)
	case *ast.RangeStmt:
		return u.execRange(st, x, label)
	case *ast.SwitchStmt:
		return u.execSwitch(st, x, label)
	case *ast.TypeSwitchStmt:
		return u.execTypeSwitch(st, x, label)
	case *ast.SelectStmt:
		return u.execSelect(st, x, label)
	case *ast.LabeledStmt:
		return u.execStmt(st, x.Stmt, x.Label.Name)
	case *ast.BranchStmt:
		lbl := ""
		if x.Label != nil {
			lbl = x.Label.Name
		}
		switch x.Tok {
		case token.BREAK:
			return []*Out{{kind: oBreak, label: lbl, st: st}}
		case token.CONTINUE:
			return []*Out{{kind: oContinue, label: lbl, st: st}}
		case token.GOTO:
			return []*Out{{kind: oGoto, label: lbl, st: st}}
		}
		u.unsupported("fallthrough")
	case *ast.DeferStmt:
		u.execDefer(st, x)
		return normal(st)
	case *ast.GoStmt:
		u.execGo(st, x.Call)
		return normal(st)
	case *ast.SendStmt:
		u.execSend(st, x)
		return normal(st)
	}
	u.unsupported("statement %T", s)
	return nil
}

func (u *Unit) declare(st *State, obj types.Object, v Value) {
	if u.top().escapes(obj) {
		ref := u.alloc(st, "box_"+obj.Name())
		st.boxed[obj] = ref
	} else {
		delete(st.boxed, obj)
	}
	u.store(st, LV{kind: lvVar, obj: obj, T: obj.Type()}, v)
}

func (u *Unit) intConst(n int64, t types.Type) Value {
	if u.bv && isInteger(t) {
		return scalar(t, Term{fmt.Sprintf("(_ bv%d %d)", n, bitWidth(t)), BVSort(bitWidth(t))})
	}
	return scalar(t, IntLit(n))
}

func (u *Unit) execAssign(st *State, x *ast.AssignStmt) {
	info := u.top().info
	if x.Tok != token.ASSIGN && x.Tok != token.DEFINE {
		// op=
		lv := u.evalLV(st, x.Lhs[0])
		l := u.load(st, lv)
		r := u.eval(st, x.Rhs[0])
		op := map[token.Token]token.Token{token.ADD_ASSIGN: token.ADD, token.SUB_ASSIGN: token.SUB, token.MUL_ASSIGN: token.MUL,
			token.QUO_ASSIGN: token.QUO, token.REM_ASSIGN: token.REM, token.AND_ASSIGN: token.AND, token.OR_ASSIGN: token.OR,
			token.XOR_ASSIGN: token.XOR, token.SHL_ASSIGN: token.SHL, token.SHR_ASSIGN: token.SHR, token.AND_NOT_ASSIGN: token.AND_NOT}[x.Tok]
		u.store(st, lv, u.binop(st, op, l, u.convertConst(r, lv.T), lv.T, x.Pos()))
		return
	}
	var vals []Value
	if len(x.Rhs) == 1 && len(x.Lhs) > 1 {
		vals = u.evalMulti(st, x.Rhs[0], len(x.Lhs))
	} else {
		for _, r := range x.Rhs {
			vals = append(vals, u.eval(st, r))
		}
	}
	// evaluate lvalues after rvalues (Go evaluates index operands first, but that rarely matters here)
	for i, l := range x.Lhs {
		if id, ok := l.(*ast.Ident); ok {
			if id.Name == "_" {
				continue
			}
			if x.Tok == token.DEFINE {
				if obj := info.Defs[id]; obj != nil {
					u.declare(st, obj, u.convert(st, vals[i], obj.Type()))
					continue
				}
			}
		}
		lv := u.evalLV(st, l)
		cv := u.convert(st, vals[i], lv.T)
		u.store(st, lv, cv)
		if ix, ok := ast.Unparen(l).(*ast.IndexExpr); ok && lv.kind == lvMap && len(u.frames) == 1 {
			// anchor "mapstore:<map expression>": $k the key, $v the value just stored
			if kt := u.typeOf(ix.Index); kt != nil {
				u.runAnchorsNamed(st, "mapstore:"+exprText(ix.X), l.Pos(), map[string]Value{"$k": scalar(kt, lv.idx), "$v": cv})
			}
		} else if ok && lv.kind == lvMem && len(u.frames) == 1 {
			// anchor "elemstore:<slice expression>": $k the index of the element just stored
			if _, isSlice := u.typeOf(ix.X).Underlying().(*types.Slice); isSlice {
				u.runAnchorsNamed(st, "elemstore:"+exprText(ix.X), l.Pos(), map[string]Value{"$k": u.eval(st, ix.Index)})
			}
		}
	}
}

func (u *Unit) execIf(st *State, x *ast.IfStmt) []*Out {
	if x.Init != nil {
		outs := u.execStmt(st, x.Init, "")
		if len(outs) != 1 || outs[0].kind != oNormal {
			u.unsupported("if-init with control flow")
		}
		st = outs[0].st
	}
	c := u.evalCond(st, x.Cond)
	if u.forceInline != nil && os.Getenv("GOCV_DEBUG") != "" {
		fmt.Fprintf(os.Stderr, "bounded: symbolic condition %s at %s: %s\n", exprText(x.Cond), u.pos(x.Pos()), c.S)
	}
	var outs []*Out
	if !c.IsFalse() {
		ts := st.clone()
		ts.assume(c)
		outs = append(outs, u.execBlock(ts, x.Body.List)...)
	}
	if !c.IsTrue() {
		es := st
		if !c.IsFalse() {
			es = st.clone()
		}
		es.assume(Not(c))
		if x.Else != nil {
			outs = append(outs, u.execStmt(es, x.Else, "")...)
		} else {
			outs = append(outs, &Out{kind: oNormal, st: es})
		}
	}
	return u.joinNormals(outs)
}

// evalCond evaluates a boolean expression; short-circuit operators with effects fork internally.
func (u *Unit) evalCond(st *State, e ast.Expr) Term {
	return u.eval(st, e).term()
}

// ---- loops

type modSet struct {
	vars      map[types.Object]bool
	keys      []string // heap key prefixes possibly written at pre-existing references
	allocKeys []string // heap key prefixes written only at references allocated inside the region
	all       bool
	ghost     map[string]bool
	local     map[types.Object]bool // variables holding memory allocated inside the region
}

func (m *modSet) allocPred() func(string) bool {
	return func(key string) bool {
		for _, p := range m.allocKeys {
			if strings.HasPrefix(key, p) {
				return true
			}
		}
		return false
	}
}

func (m *modSet) pred() func(string) bool {
	return func(key string) bool {
		if m.all {
			return true
		}
		for _, p := range m.keys {
			if strings.HasPrefix(key, p) {
				return true
			}
		}
		return false
	}
}

// localAllocs finds variables of the region that only ever hold memory allocated inside it:
// defined by := / var from make, new, &T{...} or a slice/map literal, and otherwise only
// reassigned by x = append(x, ...).
func (u *Unit) localAllocs(nodes ...ast.Node) map[types.Object]bool {
	info := u.top().info
	cand := map[types.Object]bool{}
	bad := map[types.Object]bool{}
	isAlloc := func(e ast.Expr) bool {
		switch x := ast.Unparen(e).(type) {
		case *ast.CallExpr:
			if id, ok := x.Fun.(*ast.Ident); ok {
				if _, isB := info.Uses[id].(*types.Builtin); isB && (id.Name == "make" || id.Name == "new") {
					return true
				}
			}
		case *ast.UnaryExpr:
			if x.Op == token.AND {
				_, ok := ast.Unparen(x.X).(*ast.CompositeLit)
				return ok
			}
		case *ast.CompositeLit:
			if t := info.TypeOf(x); t != nil {
				switch t.Underlying().(type) {
				case *types.Slice, *types.Map:
					return true
				}
			}
		}
		return false
	}
	// a named slice result starts as nil: a fine starting point for x = append(x, ...) as well
	if fr := u.top(); fr != nil && len(nodes) == 1 && nodes[0] == ast.Node(fr.body) {
		for _, rv := range fr.results {
			if rv.Name() != "" && rv.Name() != "_" {
				if _, isSlice := rv.Type().Underlying().(*types.Slice); isSlice {
					cand[rv] = true
				}
			}
		}
	}
	for _, n := range nodes {
		if n == nil {
			continue
		}
		ast.Inspect(n, func(n ast.Node) bool {
			switch x := n.(type) {
			case *ast.ValueSpec:
				// var x []T (nil) is a fine starting point for x = append(x, ...)
				if len(x.Values) == 0 {
					for _, id := range x.Names {
						if obj := info.Defs[id]; obj != nil {
							if _, isSlice := obj.Type().Underlying().(*types.Slice); isSlice {
								cand[obj] = true
							}
						}
					}
				}
			case *ast.AssignStmt:
				for i, l := range x.Lhs {
					id, ok := l.(*ast.Ident)
					if !ok {
						continue
					}
					obj := info.ObjectOf(id)
					if obj == nil {
						continue
					}
					if len(x.Rhs) == len(x.Lhs) {
						if x.Tok == token.DEFINE && isAlloc(x.Rhs[i]) {
							cand[obj] = true
							continue
						}
						if x.Tok == token.ASSIGN {
							if isAlloc(x.Rhs[i]) {
								continue
							}
							if c, ok := ast.Unparen(x.Rhs[i]).(*ast.CallExpr); ok {
								if f, ok := c.Fun.(*ast.Ident); ok && f.Name == "append" && len(c.Args) > 0 {
									if a0, ok := c.Args[0].(*ast.Ident); ok && info.ObjectOf(a0) == obj {
										continue
									}
								}
							}
						}
					}
					bad[obj] = true
				}
			case *ast.UnaryExpr:
				if x.Op == token.AND {
					if id, ok := ast.Unparen(x.X).(*ast.Ident); ok {
						if obj := info.ObjectOf(id); obj != nil {
							bad[obj] = true
						}
					}
				}
			case *ast.RangeStmt:
				for _, e := range []ast.Expr{x.Key, x.Value} {
					if id, ok := e.(*ast.Ident); ok {
						if obj := info.ObjectOf(id); obj != nil {
							bad[obj] = true
						}
					}
				}
			}
			return true
		})
	}
	for o := range bad {
		delete(cand, o)
	}
	return cand
}

// modified computes a syntactic over-approximation of what the given nodes may assign.
func (u *Unit) modified(nodes ...ast.Node) *modSet {
	m := &modSet{vars: map[types.Object]bool{}, ghost: map[string]bool{}}
	info := u.top().info
	// variables that, anywhere in this function, only ever hold memory allocated by it
	if fr := u.top(); fr.body != nil {
		if fr.localAllocs == nil {
			fr.localAllocs = u.localAllocs(fr.body)
		}
		m.local = fr.localAllocs
	} else {
		m.local = u.localAllocs(nodes...)
	}
	isLocal := func(e ast.Expr) bool {
		id, ok := ast.Unparen(e).(*ast.Ident)
		return ok && m.local[info.ObjectOf(id)]
	}
	var lhs func(e ast.Expr)
	lhs = func(e ast.Expr) {
		e = ast.Unparen(e)
		switch x := e.(type) {
		case *ast.Ident:
			if obj := info.ObjectOf(x); obj != nil {
				m.vars[obj] = true
				if obj.Pkg() != nil && obj.Parent() == obj.Pkg().Scope() {
					m.keys = append(m.keys, "G:"+globalKey(obj))
				}
			}
		case *ast.SelectorExpr:
			xt := info.TypeOf(x.X)
			if xt != nil && isPointer(xt) {
				k := "F:" + typeKey(xt.Underlying().(*types.Pointer).Elem()) + ":"
				if sel := info.Selections[x]; sel != nil && sel.Kind() == types.FieldVal && len(sel.Index()) == 1 {
					// a direct field: only the leaves of that field are written
					k += x.Sel.Name
				}
				if isLocal(x.X) {
					m.allocKeys = append(m.allocKeys, k)
				} else {
					m.keys = append(m.keys, k)
				}
			} else {
				lhs(x.X)
			}
		case *ast.IndexExpr:
			xt := info.TypeOf(x.X)
			if xt == nil {
				m.all = true
				return
			}
			switch t := xt.Underlying().(type) {
			case *types.Slice:
				if isLocal(x.X) {
					m.allocKeys = append(m.allocKeys, "M:"+typeKey(t.Elem())+":")
				} else {
					m.keys = append(m.keys, "M:"+typeKey(t.Elem())+":")
				}
			case *types.Map:
				if isLocal(x.X) {
					m.allocKeys = append(m.allocKeys, "MV:"+typeKey(xt)+":", "MD:"+typeKey(xt))
				} else {
					m.keys = append(m.keys, "MV:"+typeKey(xt)+":", "MD:"+typeKey(xt))
				}
			case *types.Array:
				lhs(x.X)
			case *types.Pointer:
				m.keys = append(m.keys, "F:"+typeKey(t.Elem())+":")
			default:
				m.all = true
			}
		case *ast.StarExpr:
			xt := info.TypeOf(x.X)
			if xt != nil && isPointer(xt) {
				m.keys = append(m.keys, "F:"+typeKey(xt.Underlying().(*types.Pointer).Elem())+":")
			} else {
				m.all = true
			}
		default:
			m.all = true
		}
	}
	for _, n := range nodes {
		if n == nil {
			continue
		}
		ast.Inspect(n, func(n ast.Node) bool {
			switch x := n.(type) {
			case *ast.ReturnStmt:
				if u.loopRegion {
					// what a return statement's operands do never reaches the loop head again
					return false
				}
			case *ast.AssignStmt:
				for _, l := range x.Lhs {
					lhs(l)
				}
			case *ast.IncDecStmt:
				lhs(x.X)
			case *ast.RangeStmt:
				if x.Key != nil {
					lhs(x.Key)
				}
				if x.Value != nil {
					lhs(x.Value)
				}
			case *ast.UnaryExpr:
				if x.Op == token.AND {
					if cl, ok := ast.Unparen(x.X).(*ast.CompositeLit); ok {
						if t := info.TypeOf(cl); t != nil {
							m.allocKeys = append(m.allocKeys, "F:"+typeKey(t)+":")
						}
					} else {
						lhs(x.X)
					}
				}
			case *ast.CompositeLit:
				if t := info.TypeOf(x); t != nil {
					switch tt := t.Underlying().(type) {
					case *types.Slice:
						m.allocKeys = append(m.allocKeys, "M:"+typeKey(tt.Elem())+":")
					case *types.Map:
						m.allocKeys = append(m.allocKeys, "MV:"+typeKey(t)+":", "MD:"+typeKey(t))
					}
				}
				// values converted to interfaces are boxed: fresh boxes only
			case *ast.CallExpr:
				u.callMods(x, m)
			}
			return true
		})
	}
	// ghost statements anchored anywhere but at entry may run inside the region
	if u.spec != nil && len(u.frames) == 1 {
		for _, c := range u.spec.Ghost {
			if c.Arg == "entry" || !u.anchorInRegion(c.Arg, nodes) {
				continue
			}
			if pair, ok := c.Expr.([2]SpecExpr); ok {
				if sg, ok := pair[0].(*SGo); ok {
					tgt := ast.Unparen(sg.E)
					for {
						// $m[k] = v writes the ghost map $m
						if ix, ok := tgt.(*ast.IndexExpr); ok {
							tgt = ast.Unparen(ix.X)
							continue
						}
						break
					}
					name := types.ExprString(tgt)
					if i := strings.LastIndex(name, ghostPrefix); i >= 0 {
						m.ghost[name[i+len(ghostPrefix):]] = true
					}
				}
			}
		}
	}
	// boxed variables live in the heap
	for obj := range m.vars {
		if u.top().escapes(obj) {
			m.keys = append(m.keys, "F:box:"+typeKey(obj.Type())+":")
		}
	}
	return m
}

// anchorInRegion: can the ghost anchor fire while executing the given nodes?
func (u *Unit) anchorInRegion(anchor string, nodes []ast.Node) bool {
	found := false
	fr := u.top()
	// anchor kinds this scan does not look for (mapstore:, afterstmt:, returned, ...) are taken to fire: what a
	// ghost statement there writes is havocked at the loop head like everything else the body may change
	known := false
	for _, p := range []string{"send:", "recv:", "close:", "call:", "after:", "before:", "loop"} {
		if strings.HasPrefix(anchor, p) {
			known = true
		}
	}
	if anchor == "return" || anchor == "wait" || anchor == "entry" || anchor == "returned" {
		known = true
	}
	if strings.HasPrefix(anchor, "afterstmt:") || strings.HasPrefix(anchor, "mapstore:") || strings.HasPrefix(anchor, "elemstore:") {
		// statement anchors: look for the inc/dec statement or the map store they name
		hit := false
		for _, n := range nodes {
			if n == nil {
				continue
			}
			ast.Inspect(n, func(n ast.Node) bool {
				switch x := n.(type) {
				case *ast.IncDecStmt:
					t := "afterstmt:" + exprText(x.X) + x.Tok.String()
					if anchor == t || anchor == u.stableText(t) {
						hit = true
					}
				case *ast.AssignStmt:
					for _, l := range x.Lhs {
						if ix, ok := ast.Unparen(l).(*ast.IndexExpr); ok {
							t := "mapstore:" + exprText(ix.X)
							if anchor == t || anchor == u.stableText(t) {
								hit = true
							}
							t = "elemstore:" + exprText(ix.X)
							if anchor == t || anchor == u.stableText(t) {
								hit = true
							}
						}
					}
				}
				return !hit
			})
		}
		return hit
	}
	if !known {
		return true
	}
	for _, n := range nodes {
		if n == nil || found {
			continue
		}
		ast.Inspect(n, func(n ast.Node) bool {
			switch x := n.(type) {
			case *ast.SendStmt:
				if anchor == "send:"+exprText(x.Chan) || anchor == u.stableText("send:"+exprText(x.Chan)) {
					found = true
				}
			case *ast.UnaryExpr:
				if x.Op == token.ARROW && (anchor == "recv:"+exprText(x.X) || anchor == u.stableText("recv:"+exprText(x.X))) {
					found = true
				}
			case *ast.ReturnStmt:
				if anchor == "return" {
					found = true
				}
			case *ast.CallExpr:
				if id, ok := x.Fun.(*ast.Ident); ok && id.Name == "close" && len(x.Args) == 1 && anchor == "close:"+exprText(x.Args[0]) {
					found = true
				}
				if sel, ok := x.Fun.(*ast.SelectorExpr); ok {
					if sel.Sel.Name == "Wait" && anchor == "wait" {
						found = true
					}
					if anchor == "call:"+sel.Sel.Name || anchor == "after:"+sel.Sel.Name || anchor == "before:"+sel.Sel.Name {
						found = true
					}
				}
				if id, ok := x.Fun.(*ast.Ident); ok && (anchor == "call:"+id.Name || anchor == "after:"+id.Name || anchor == "before:"+id.Name) {
					found = true
				}
			case *ast.ForStmt, *ast.RangeStmt:
				if k, ok := fr.loopOrd[n]; ok && strings.HasPrefix(anchor, fmt.Sprintf("loop%d.", k)) {
					found = true
				}
			}
			return !found
		})
	}
	return found
}

func globalKey(obj types.Object) string {
	if obj.Pkg() == nil {
		return obj.Name()
	}
	if strings.HasSuffix(obj.Pkg().Path(), "folbricht/desync") {
		return obj.Name()
	}
	return obj.Pkg().Name() + "." + obj.Name()
}

func (u *Unit) havocMods(st *State, m *modSet) { u.havocMods2(st, m, false) }

// havocLoop is havocMods at a loop head: in functions with a declared frame the havocked
// heap keeps the frame invariant.
func (u *Unit) havocLoop(st *State, m *modSet) { u.havocMods2(st, m, len(u.frames) == 1) }

func (u *Unit) havocMods2(st *State, m *modSet, loopFrame bool) {
	entryClock := st.clock
	u.tick(st)
	for obj := range m.vars {
		if _, boxed := st.boxed[obj]; boxed {
			continue
		}
		if _, ok := st.vars[obj]; ok {
			nv := u.freshValue(st, obj.Name(), obj.Type())
			st.vars[obj] = nv
			if m.local[obj] && nv.isSlice() {
				// only ever assigned make/new/literals/append-to-itself in this function
				st.assume(Or(Eq(nv.base(), IntLit(0)), Gt(nv.base(), u.clk0())))
				st.assume(Imp(Eq(nv.base(), IntLit(0)), Eq(nv.scap(), IntLit(0))))
			}
		}
	}
	if len(m.local) > 0 {
		entryClock = u.clk0()
	}
	if m.all || len(m.keys) > 0 || len(m.allocKeys) > 0 {
		var partial func(string) bool
		if !m.all && len(m.allocKeys) > 0 {
			partial = m.allocPred()
		}
		u.havocHeap3(st, m.pred(), partial, entryClock, loopFrame)
	}
	for g := range m.ghost {
		u.havocGhost2(st, g, loopFrame)
	}
}

func (u *Unit) loopSpec(n ast.Node) (*LoopSpec, int) {
	fr := u.top()
	ord := fr.loopOrd[n]
	ls := fr.spec.Loops[ord]
	if ls == nil && ord >= 1000 {
		ls = fr.spec.Loops[-1] // proof repair: invariants offered to any loop without a baseline counterpart
	}
	if ls == nil {
		ls = &LoopSpec{}
	}
	return ls, ord
}

// specEnvAt is the environment of clauses evaluated inside a body (invariants, assertions,
// ghost statements): parameters are ordinary variables there and denote their current
// values; old(p) gives the entry value.
func (u *Unit) specEnvAt(st *State) map[string]Value {
	env := map[string]Value{}
	if n := len(u.rangeStack); n > 0 {
		env["$i"] = intV(u.rangeStack[n-1])
	}
	return env
}

// checkInvariants asserts (or assumes) the loop invariants in st.
func (u *Unit) loopInvariants(st *State, ls *LoopSpec, ord int, phase string, pos token.Pos, extra map[string]Value, assume bool) {
	env := u.specEnvAt(st)
	for k, v := range extra {
		env[k] = v
	}
	for i, c := range ls.Invariants {
		t := u.specBoolAt(st, u.old, env, c.Expr, c, pos)
		if assume {
			st.assume(t)
		} else {
			u.oblige(st, fmt.Sprintf("loop%d/%s#%d", ord, phase, i+1), "invariant", c.Props, t, pos, c.Text)
			// cut: the following invariants may use this one (it has its own obligation)
			st.assume(t)
		}
	}
}

func (u *Unit) loopVariant(st *State, ls *LoopSpec, pos token.Pos, extra map[string]Value) (Term, bool) {
	if ls.Decreases == nil {
		return Term{}, false
	}
	env := u.specEnvAt(st)
	for k, v := range extra {
		env[k] = v
	}
	v := u.specValAt(st, u.old, env, ls.Decreases.Expr, ls.Decreases, pos)
	return v.term(), true
}

func (u *Unit) execFor(st *State, x *ast.ForStmt, label string) []*Out {
	if x.Init != nil {
		outs := u.execStmt(st, x.Init, "")
		st = outs[0].st
	}
	ls, ord := u.loopSpec(x)
	pos := x.Body.Lbrace
	u.loopInvariants(st, ls, ord, "init", pos, nil, false)
	u.loopFrame(st, ord, "init", pos)
	h := st.clone()
	u.loopRegion = true
	mods := u.modified(x.Body, x.Post, x.Cond)
	u.loopRegion = false
	u.applyLoopModifies(h, ls, mods)
	u.havocLoop(h, mods)
	u.loopInvariants(h, ls, ord, "", pos, nil, true)
	var outs []*Out
	c := TTrue
	if x.Cond != nil {
		c = u.evalCond(h, x.Cond)
	}
	if !c.IsTrue() {
		ex := h.clone()
		ex.assume(Not(c))
		u.loopAnchor(ex, ord, "exit", pos)
		outs = append(outs, &Out{kind: oNormal, st: ex})
	}
	b := h
	b.assume(c)
	u.cover(b, fmt.Sprintf("loop%d/body.sat", ord), nil, pos)
	u.loopAnchor(b, ord, "head", pos)
	v0, hasVar := u.loopVariant(b, ls, pos, nil)
	for _, o := range u.execBlock(b, x.Body.List) {
		switch {
		case o.kind == oNormal, o.kind == oContinue && (o.label == "" || o.label == label):
			s := o.st
			u.loopAnchor(s, ord, "iterend", x.Body.Rbrace)
			if x.Post != nil {
				po := u.execStmt(s, x.Post, "")
				s = po[0].st
			}
			u.loopInvariants(s, ls, ord, "preserve", pos, nil, false)
			u.loopFrame(s, ord, "preserve", pos)
			if hasVar {
				v1, _ := u.loopVariant(s, ls, pos, nil)
				u.oblige(s, fmt.Sprintf("loop%d/decreases", ord), "decreases", ls.Decreases.Props, And(Le(IntLit(0), v0), Lt(v1, v0)), pos, ls.Decreases.Text)
			}
		case o.kind == oBreak && (o.label == "" || o.label == label):
			u.loopFrame(o.st, ord, "break", pos)
			u.loopAnchor(o.st, ord, "break", pos)
			outs = append(outs, &Out{kind: oNormal, st: o.st})
		default:
			outs = append(outs, o)
		}
	}
	return u.joinLoop(outs)
}

// loopFrame asserts the frame invariant (state outside the declared frame equals the entry
// state) at loop entry and at every back edge; it is assumed for the havocked loop head.
func (u *Unit) loopFrame(st *State, ord int, phase string, pos token.Pos) {
	if len(u.frames) != 1 {
		return
	}
	u.checkFrameAt(st, u.frames[0], pos, fmt.Sprintf("loop%d/frame-%s:", ord, phase))
}

// joinLoop merges the exits of a loop; every exit state satisfies the frame invariant
// (assumed at the head, proved at breaks), so the merged state does too.
func (u *Unit) joinLoop(outs []*Out) []*Out {
	n := 0
	for _, o := range outs {
		if o.kind == oNormal {
			n++
		}
	}
	res := u.joinNormals(outs)
	if n > 1 && len(u.frames) == 1 && u.old != nil {
		for _, o := range res {
			if o.kind != oNormal {
				continue
			}
			if items, active := u.frameItems(u.frames[0]); active {
				for _, k := range sortedKeys(o.st.heap) {
					goals, covered := u.frameGoals(items, k, o.st.heap[k])
					if covered {
						continue
					}
					for _, g := range goals {
						o.st.assume(g)
					}
				}
			}
		}
	}
	return res
}

func (u *Unit) loopAnchor(st *State, ord int, what string, pos token.Pos) {
	if len(u.frames) == 1 {
		u.runAnchorsNamed(st, fmt.Sprintf("loop%d.%s", ord, what), pos, nil)
	}
}

func (u *Unit) applyLoopModifies(st *State, ls *LoopSpec, m *modSet) {
	// explicit "loop k: modifies" clauses narrow nothing (we only over-approximate); reserved
}

// execRange lowers range loops. The hidden index is available to invariants as $i
// (and under the key variable's name when there is one).
func (u *Unit) execRange(st *State, x *ast.RangeStmt, label string) []*Out {
	info := u.top().info
	xt := info.TypeOf(x.X)
	ls, ord := u.loopSpec(x)
	pos := x.Body.Lbrace
	var keyObj, valObj types.Object
	bind := func(e ast.Expr) types.Object {
		if e == nil {
			return nil
		}
		id, ok := e.(*ast.Ident)
		if !ok || id.Name == "_" {
			return nil
		}
		if x.Tok == token.DEFINE {
			return info.Defs[id]
		}
		return info.Uses[id]
	}
	keyObj, valObj = bind(x.Key), bind(x.Value)
	if (x.Key != nil && keyObj == nil && !isBlank(x.Key)) || (x.Value != nil && valObj == nil && !isBlank(x.Value)) {
		u.unsupported("range with non-identifier key/value")
	}
	switch t := xt.Underlying().(type) {
	case *types.Slice, *types.Array, *types.Basic:
		var n Term
		var coll Value
		var collLV LV
		isInt := false
		switch tt := t.(type) {
		case *types.Slice:
			coll = u.eval(st, x.X)
			n = coll.slen()
		case *types.Array:
			collLV = u.evalLV(st, x.X)
			n = IntLit(tt.Len())
		case *types.Basic:
			if tt.Info()&types.IsInteger != 0 {
				n = u.eval(st, x.X).term()
				isInt = true
			} else if tt.Info()&types.IsString != 0 {
				return u.execRangeOpaque(st, x, label, ls, ord)
			} else {
				u.unsupported("range over %v", xt)
			}
		}
		idx0 := IntLit(0)
		extra := map[string]Value{"$i": intV(idx0), "$n": intV(n)}
		if keyObj != nil {
			u.declareOrStore(st, keyObj, intV(idx0), x.Tok == token.DEFINE)
		}
		u.loopInvariants(st, ls, ord, "init", pos, extra, false)
		u.loopFrame(st, ord, "init", pos)
		h := st.clone()
		u.loopRegion = true
		mods := u.modified(x.Body)
		u.loopRegion = false
		if keyObj != nil {
			mods.vars[keyObj] = true
		}
		if valObj != nil {
			mods.vars[valObj] = true
		}
		u.havocLoop(h, mods)
		i := u.d.Fresh("range_i", SInt)
		h.assume(Le(IntLit(0), i))
		h.assume(Le(i, n))
		extra = map[string]Value{"$i": intV(i), "$n": intV(n)}
		if keyObj != nil {
			u.declareOrStore(h, keyObj, intV(i), x.Tok == token.DEFINE)
		}
		u.loopInvariants(h, ls, ord, "", pos, extra, true)
		var outs []*Out
		ex := h.clone()
		ex.assume(Eq(i, n))
		u.loopAnchor(ex, ord, "exit", pos)
		outs = append(outs, &Out{kind: oNormal, st: ex})
		b := h
		b.assume(Lt(i, n))
		u.cover(b, fmt.Sprintf("loop%d/body.sat", ord), nil, pos)
		if valObj != nil && !isInt {
			var ev Value
			if coll.T != nil {
				elemT := coll.T.Underlying().(*types.Slice).Elem()
				ev = u.load(b, LV{kind: lvMem, keyT: typeKey(elemT), ref: coll.base(), idx: Add(coll.off(), i), T: elemT})
			} else {
				elv := collLV
				elv.T = t.(*types.Array).Elem()
				elv.arrIdx = append(append([]Term(nil), collLV.arrIdx...), i)
				ev = u.load(b, elv)
			}
			u.declareOrStore(b, valObj, ev, x.Tok == token.DEFINE)
		}
		u.rangeStack = append(u.rangeStack, i)
		u.loopAnchor(b, ord, "head", pos)
		bodyOuts := u.execBlock(b, x.Body.List)
		for _, o := range bodyOuts {
			if o.kind == oNormal || o.kind == oContinue && (o.label == "" || o.label == label) {
				u.loopAnchor(o.st, ord, "iterend", x.Body.Rbrace)
			}
		}
		u.rangeStack = u.rangeStack[:len(u.rangeStack)-1]
		for _, o := range bodyOuts {
			switch {
			case o.kind == oNormal, o.kind == oContinue && (o.label == "" || o.label == label):
				s := o.st
				i1 := Add(i, IntLit(1))
				ex2 := map[string]Value{"$i": intV(i1), "$n": intV(n)}
				if keyObj != nil {
					u.store(s, LV{kind: lvVar, obj: keyObj, T: keyObj.Type()}, intV(i1))
				}
				u.loopInvariants(s, ls, ord, "preserve", pos, ex2, false)
				u.loopFrame(s, ord, "preserve", pos)
			case o.kind == oBreak && (o.label == "" || o.label == label):
				u.loopFrame(o.st, ord, "break", pos)
				u.loopAnchor(o.st, ord, "break", pos)
				outs = append(outs, &Out{kind: oNormal, st: o.st})
			default:
				outs = append(outs, o)
			}
		}
		return u.joinLoop(outs)
	case *types.Map, *types.Chan:
		return u.execRangeOpaque(st, x, label, ls, ord)
	}
	u.unsupported("range over %v", xt)
	return nil
}

func isBlank(e ast.Expr) bool {
	id, ok := e.(*ast.Ident)
	return ok && id.Name == "_"
}

func (u *Unit) declareOrStore(st *State, obj types.Object, v Value, define bool) {
	if define {
		u.declare(st, obj, Value{T: obj.Type(), L: v.L})
	} else {
		u.store(st, LV{kind: lvVar, obj: obj, T: obj.Type()}, Value{T: obj.Type(), L: v.L})
	}
}

// execRangeOpaque: range over map / channel / string: an unknown number of iterations with
// unconstrained (type-correct) key and value; channel receives assume the channel invariant.
func (u *Unit) execRangeOpaque(st *State, x *ast.RangeStmt, label string, ls *LoopSpec, ord int) []*Out {
	info := u.top().info
	pos := x.Body.Lbrace
	xt := info.TypeOf(x.X)
	coll := u.eval(st, x.X)
	u.loopInvariants(st, ls, ord, "init", pos, nil, false)
	u.loopFrame(st, ord, "init", pos)
	h := st.clone()
	u.loopRegion = true
	mods := u.modified(x.Body)
	u.loopRegion = false
	bind := func(e ast.Expr) types.Object {
		if e == nil {
			return nil
		}
		id, ok := e.(*ast.Ident)
		if !ok || id.Name == "_" {
			return nil
		}
		if x.Tok == token.DEFINE {
			return info.Defs[id]
		}
		return info.Uses[id]
	}
	keyObj, valObj := bind(x.Key), bind(x.Value)
	if keyObj != nil {
		mods.vars[keyObj] = true
	}
	if valObj != nil {
		mods.vars[valObj] = true
	}
	u.havocLoop(h, mods)
	u.loopInvariants(h, ls, ord, "", pos, nil, true)
	var outs []*Out
	exs := h.clone()
	u.loopAnchor(exs, ord, "exit", pos)
	outs = append(outs, &Out{kind: oNormal, st: exs})
	b := h
	if keyObj != nil {
		kv := u.freshValue(b, keyObj.Name(), keyObj.Type())
		u.declareOrStore(b, keyObj, kv, x.Tok == token.DEFINE)
		switch t := xt.Underlying().(type) {
		case *types.Map:
			ksort := flatten(t.Key())[0].Sort
			dom := u.heapArr(b, "MD:"+typeKey(xt), ArrSort(SInt, ArrSort(ksort, SBool)))
			b.assume(Select(Select(dom, coll.term()), kv.term()))
			if valObj != nil {
				vv := u.load(b, LV{kind: lvMap, keyT: typeKey(xt), ref: coll.term(), idx: kv.term(), T: t.Elem(), mapT: t})
				u.declareOrStore(b, valObj, vv, x.Tok == token.DEFINE)
			}
		case *types.Chan:
			u.chanRecvFacts(b, x.X, coll, kv)
		}
	} else if valObj != nil {
		vv := u.freshValue(b, valObj.Name(), valObj.Type())
		u.declareOrStore(b, valObj, vv, x.Tok == token.DEFINE)
	}
	u.cover(b, fmt.Sprintf("loop%d/body.sat", ord), nil, pos)
	u.loopAnchor(b, ord, "head", x.Body.Rbrace)
	for _, o := range u.execBlock(b, x.Body.List) {
		switch {
		case o.kind == oNormal, o.kind == oContinue && (o.label == "" || o.label == label):
			u.loopAnchor(o.st, ord, "iterend", x.Body.Rbrace)
			u.loopInvariants(o.st, ls, ord, "preserve", pos, nil, false)
			u.loopFrame(o.st, ord, "preserve", pos)
		case o.kind == oBreak && (o.label == "" || o.label == label):
			u.loopFrame(o.st, ord, "break", pos)
			u.loopAnchor(o.st, ord, "break", pos)
			outs = append(outs, &Out{kind: oNormal, st: o.st})
		default:
			outs = append(outs, o)
		}
	}
	return u.joinLoop(outs)
}

// execGotoRegion treats "label: stmts..." with a label invariant like a loop whose back
// edges are the gotos.
func (u *Unit) execGotoRegion(st *State, ls *ast.LabeledStmt, stmts []ast.Stmt, spec *LoopSpec) []*Out {
	name := ls.Label.Name
	pos := ls.Pos()
	env := u.specEnvAt(st)
	for i, c := range spec.Invariants {
		t := u.specBoolAt(st, u.old, env, c.Expr, c, pos)
		u.oblige(st, fmt.Sprintf("label_%s/init#%d", name, i+1), "invariant", c.Props, t, pos, c.Text)
	}
	h := st.clone()
	nodes := []ast.Node{}
	for _, s := range stmts {
		nodes = append(nodes, s)
	}
	mods := u.modified(nodes...)
	u.havocMods(h, mods)
	for _, c := range spec.Invariants {
		h.assume(u.specBoolAt(h, u.old, u.specEnvAt(h), c.Expr, c, pos))
	}
	var v0 Term
	hasVar := spec.Decreases != nil
	if hasVar {
		v0 = u.specValAt(h, u.old, u.specEnvAt(h), spec.Decreases.Expr, spec.Decreases, pos).term()
	}
	body := append([]ast.Stmt{ls.Stmt}, stmts[1:]...)
	// temporarily hide the label spec so the recursive execBlock does not re-enter
	saved := u.top().spec.Labels[name]
	delete(u.top().spec.Labels, name)
	res := u.execBlock(h, body)
	u.top().spec.Labels[name] = saved
	var outs []*Out
	for _, o := range res {
		if o.kind == oGoto && o.label == name {
			for i, c := range spec.Invariants {
				t := u.specBoolAt(o.st, u.old, u.specEnvAt(o.st), c.Expr, c, pos)
				u.oblige(o.st, fmt.Sprintf("label_%s/preserve#%d", name, i+1), "invariant", c.Props, t, pos, c.Text)
			}
			if hasVar {
				v1 := u.specValAt(o.st, u.old, u.specEnvAt(o.st), spec.Decreases.Expr, spec.Decreases, pos).term()
				u.oblige(o.st, fmt.Sprintf("label_%s/decreases", name), "decreases", spec.Decreases.Props, And(Le(IntLit(0), v0), Lt(v1, v0)), pos, spec.Decreases.Text)
			}
			continue
		}
		outs = append(outs, o)
	}
	return outs
}

// ---- switch / select

func (u *Unit) execSwitch(st *State, x *ast.SwitchStmt, label string) []*Out {
	if x.Init != nil {
		st = u.execStmt(st, x.Init, "")[0].st
	}
	var tag Value
	hasTag := x.Tag != nil
	if hasTag {
		tag = u.eval(st, x.Tag)
	}
	var outs []*Out
	rest := st
	var def *ast.CaseClause
	for _, cc := range x.Body.List {
		c := cc.(*ast.CaseClause)
		if c.List == nil {
			def = c
			continue
		}
		var conds []Term
		for _, e := range c.List {
			v := u.eval(rest, e)
			if hasTag {
				conds = append(conds, u.valuesEqual(rest, tag, u.convertConst(v, tag.T)))
			} else {
				conds = append(conds, v.term())
			}
		}
		cond := Or(conds...)
		if !cond.IsFalse() {
			ts := rest.clone()
			ts.assume(cond)
			outs = append(outs, u.execBlock(ts, c.Body)...)
		}
		rest = rest.clone()
		rest.assume(Not(cond))
	}
	if def != nil {
		outs = append(outs, u.execBlock(rest, def.Body)...)
	} else {
		outs = append(outs, &Out{kind: oNormal, st: rest})
	}
	return u.joinNormals(u.breakToNormal(outs, label))
}

func (u *Unit) breakToNormal(outs []*Out, label string) []*Out {
	for _, o := range outs {
		if o.kind == oBreak && (o.label == "" || (label != "" && o.label == label)) {
			o.kind = oNormal
			o.label = ""
		}
	}
	return outs
}

func (u *Unit) execTypeSwitch(st *State, x *ast.TypeSwitchStmt, label string) []*Out {
	info := u.top().info
	if x.Init != nil {
		st = u.execStmt(st, x.Init, "")[0].st
	}
	var subject ast.Expr
	var bindName *ast.Ident
	switch a := x.Assign.(type) {
	case *ast.ExprStmt:
		subject = ast.Unparen(a.X).(*ast.TypeAssertExpr).X
	case *ast.AssignStmt:
		subject = ast.Unparen(a.Rhs[0]).(*ast.TypeAssertExpr).X
		bindName = a.Lhs[0].(*ast.Ident)
	}
	_ = bindName
	sv := u.eval(st, subject)
	var outs []*Out
	rest := st
	var def *ast.CaseClause
	for _, cc := range x.Body.List {
		c := cc.(*ast.CaseClause)
		if c.List == nil {
			def = c
			continue
		}
		var conds []Term
		var oneT types.Type
		for _, e := range c.List {
			if id, ok := e.(*ast.Ident); ok && id.Name == "nil" {
				conds = append(conds, Eq(sv.term(), IntLit(0)))
				continue
			}
			t := info.TypeOf(e)
			oneT = t
			conds = append(conds, u.hasDynType(rest, sv, t))
		}
		cond := Or(conds...)
		ts := rest.clone()
		ts.assume(cond)
		if obj := info.Implicits[c]; obj != nil {
			var bv Value
			if len(c.List) == 1 && oneT != nil {
				bv = u.unbox(ts, sv, oneT)
			} else {
				bv = Value{T: obj.Type(), L: sv.L}
			}
			u.declare(ts, obj, Value{T: obj.Type(), L: bv.L})
		}
		outs = append(outs, u.execBlock(ts, c.Body)...)
		rest = rest.clone()
		rest.assume(Not(cond))
	}
	if def != nil {
		if obj := info.Implicits[def]; obj != nil {
			u.declare(rest, obj, Value{T: obj.Type(), L: sv.L})
		}
		outs = append(outs, u.execBlock(rest, def.Body)...)
	} else {
		outs = append(outs, &Out{kind: oNormal, st: rest})
	}
	return u.joinNormals(u.breakToNormal(outs, label))
}

func (u *Unit) execSelect(st *State, x *ast.SelectStmt, label string) []*Out {
	var outs []*Out
	for _, cc := range x.Body.List {
		c := cc.(*ast.CommClause)
		s := st.clone()
		// a fresh choice literal keeps the branches distinguishable after merging
		s.assume(u.d.Fresh("select", SBool))
		if c.Comm != nil {
			// the receive anchors of a comm clause fire here (with the received value bound), not in the
			// evaluation of the receive expression
			u.inComm++
			switch cm := c.Comm.(type) {
			case *ast.SendStmt:
				u.execSend(s, cm)
			case *ast.ExprStmt:
				v := u.eval(s, cm.X)
				u.inComm--
				u.recvAnchor(s, cm.X, &v)
				u.inComm++
			case *ast.AssignStmt:
				u.execAssign(s, cm)
				if len(cm.Rhs) == 1 {
					if lv := cm.Lhs[0]; lv != nil {
						if id, ok := lv.(*ast.Ident); ok && id.Name != "_" {
							v := u.eval(s, id)
							u.recvAnchor(s, cm.Rhs[0], &v)
						} else {
							u.recvAnchor(s, cm.Rhs[0], nil)
						}
					}
				}
			}
			u.inComm--
		}
		outs = append(outs, u.execBlock(s, c.Body)...)
	}
	return u.joinNormals(u.breakToNormal(outs, label))
}

// recvAnchor runs ghost statements anchored at "recv:<channel expression>".
func (u *Unit) recvAnchor(st *State, e ast.Expr, v *Value) {
	ue, ok := ast.Unparen(e).(*ast.UnaryExpr)
	if !ok || ue.Op != token.ARROW || !u.anchorsApply() {
		return
	}
	extra := map[string]Value{}
	if v != nil && len(v.L) > 0 {
		extra["v"] = *v
	}
	u.runAnchorsNamed(st, "recv:"+exprText(ue.X), e.Pos(), extra)
}

func (u *Unit) siteName(n ast.Node) string {
	// ordinal of the node among same-kind nodes is brittle; use source line relative to function start
	fr := u.frames[0]
	base := 0
	if fr.body != nil {
		base = u.eng.fset.Position(fr.body.Pos()).Line
	}
	return fmt.Sprintf("L%d", u.eng.fset.Position(n.Pos()).Line-base)
}

// ---- memory this function allocated and has not given away yet

// escapePositions: for the variables of localAllocs (they only ever hold memory this function allocated), the
// position from which on that memory may be known to someone else: the first statement - lifted to its outermost
// enclosing loop - in which the variable occurs other than as v[i], len(v), cap(v), range v, delete(v, k),
// v = append(v, ...) or v = make(...). Inside a function literal counts at the statement creating the literal.
// A variable without such an occurrence never escapes (position beyond the body).
func (u *Unit) escapePositions(fr *frame) map[types.Object]token.Pos {
	if fr.escPos != nil {
		return fr.escPos
	}
	fr.escPos = map[types.Object]token.Pos{}
	if fr.body == nil {
		return fr.escPos
	}
	if fr.localAllocs == nil {
		saved := u.frames
		u.frames = []*frame{fr}
		fr.localAllocs = u.localAllocs(fr.body)
		u.frames = saved
	}
	info := fr.info
	hasGoto := false
	never := fr.body.End() + 1
	for v := range fr.localAllocs {
		fr.escPos[v] = never
	}
	var stack []ast.Node
	note := func(id *ast.Ident) {
		obj := info.ObjectOf(id)
		if obj == nil || !fr.localAllocs[obj] {
			return
		}
		// statement position: outermost enclosing loop, else outermost statement holding an enclosing literal,
		// else the innermost enclosing non-block statement
		var pos token.Pos
		var innermost ast.Stmt
		for _, n := range stack {
			switch x := n.(type) {
			case *ast.ForStmt, *ast.RangeStmt:
				if !pos.IsValid() {
					pos = n.Pos()
				}
			case ast.Stmt:
				if _, isBlock := x.(*ast.BlockStmt); !isBlock {
					innermost = x
				}
			}
		}
		if !pos.IsValid() {
			// literal: the outermost statement that contains a FuncLit on the stack
			var lastStmtBeforeLit ast.Stmt
			var cur ast.Stmt
			for _, n := range stack {
				if s, ok := n.(ast.Stmt); ok {
					if _, isBlock := s.(*ast.BlockStmt); !isBlock {
						cur = s
					}
				}
				if _, ok := n.(*ast.FuncLit); ok && lastStmtBeforeLit == nil {
					lastStmtBeforeLit = cur
				}
			}
			if lastStmtBeforeLit != nil {
				pos = lastStmtBeforeLit.Pos()
			} else if innermost != nil {
				pos = innermost.Pos()
			} else {
				pos = fr.body.Pos()
			}
		}
		if pos < fr.escPos[obj] {
			fr.escPos[obj] = pos
		}
	}
	var walk func(n ast.Node, benign bool)
	walk = func(n ast.Node, benign bool) {
		if n == nil {
			return
		}
		stack = append(stack, n)
		defer func() { stack = stack[:len(stack)-1] }()
		switch x := n.(type) {
		case *ast.Ident:
			if !benign {
				note(x)
			}
			return
		case *ast.BranchStmt:
			if x.Tok == token.GOTO {
				hasGoto = true
			}
		case *ast.IndexExpr:
			// v[i]: v itself is used benignly, the index is an ordinary expression
			if id, ok := ast.Unparen(x.X).(*ast.Ident); ok {
				walk(id, true)
			} else {
				walk(x.X, false)
			}
			walk(x.Index, false)
			return
		case *ast.UnaryExpr:
			if x.Op == token.AND {
				// &v[i], &v: the address leaves
				ast.Inspect(x.X, func(m ast.Node) bool {
					if id, ok := m.(*ast.Ident); ok {
						stack = append(stack, id)
						note(id)
						stack = stack[:len(stack)-1]
					}
					return true
				})
				return
			}
		case *ast.RangeStmt:
			walk(x.Key, false)
			walk(x.Value, false)
			if id, ok := ast.Unparen(x.X).(*ast.Ident); ok {
				walk(id, true)
			} else {
				walk(x.X, false)
			}
			walk(x.Body, false)
			return
		case *ast.CallExpr:
			if id, ok := ast.Unparen(x.Fun).(*ast.Ident); ok {
				if _, isB := info.Uses[id].(*types.Builtin); isB {
					switch id.Name {
					case "len", "cap":
						for _, a := range x.Args {
							if aid, ok := ast.Unparen(a).(*ast.Ident); ok {
								walk(aid, true)
							} else {
								walk(a, false)
							}
						}
						return
					case "delete":
						for i, a := range x.Args {
							if aid, ok := ast.Unparen(a).(*ast.Ident); ok && i == 0 {
								walk(aid, true)
							} else {
								walk(a, false)
							}
						}
						return
					case "make", "new":
						for _, a := range x.Args[1:] {
							walk(a, false)
						}
						return
					}
				}
			}
		case *ast.AssignStmt:
			// v = append(v, e...) and v = make(...): v on both sides is benign
			for i, l := range x.Lhs {
				lid, isId := ast.Unparen(l).(*ast.Ident)
				if isId {
					walk(lid, true)
				} else {
					walk(l, false)
				}
				if len(x.Rhs) != len(x.Lhs) {
					continue
				}
				r := ast.Unparen(x.Rhs[i])
				if c, ok := r.(*ast.CallExpr); ok && isId {
					if f, ok := ast.Unparen(c.Fun).(*ast.Ident); ok && f.Name == "append" && len(c.Args) > 0 {
						if a0, ok := ast.Unparen(c.Args[0]).(*ast.Ident); ok && info.ObjectOf(a0) == info.ObjectOf(lid) {
							walk(a0, true)
							for _, a := range c.Args[1:] {
								walk(a, false)
							}
							continue
						}
					}
				}
				walk(x.Rhs[i], false)
			}
			if len(x.Rhs) != len(x.Lhs) {
				for _, r := range x.Rhs {
					walk(r, false)
				}
			}
			return
		case *ast.SelectorExpr:
			// v.f does not occur for slices / maps; walk the operand only
			walk(x.X, false)
			return
		case *ast.KeyValueExpr:
			// composite literal keys may be field names (not variables)
			walk(x.Value, false)
			if _, isId := x.Key.(*ast.Ident); !isId {
				walk(x.Key, false)
			}
			return
		}
		// generic traversal of children
		var kids []ast.Node
		ast.Inspect(n, func(m ast.Node) bool {
			if m == n {
				return true
			}
			if m != nil {
				kids = append(kids, m)
			}
			return false
		})
		for _, k := range kids {
			walk(k, false)
		}
	}
	walk(fr.body, false)
	if hasGoto {
		for v := range fr.escPos {
			fr.escPos[v] = fr.body.Pos()
		}
	}
	return fr.escPos
}

// localKeep: the rows (slice backing arrays, maps) held right now by variables whose memory has not been given
// away before the current statement. Only for the function under contract's own frame.
func (u *Unit) localKeep(st *State) []keepRef {
	// (while a contract-less helper is inlined the current statement is still the caller's: the helper cannot
	// reach the caller's unshared memory either)
	if len(u.frames) == 0 || !u.curStmt.IsValid() {
		return nil
	}
	fr := u.frames[0]
	if fr.body == nil || u.curStmt < fr.body.Pos() || u.curStmt > fr.body.End() {
		return nil
	}
	esc := u.escapePositions(fr)
	var objs []types.Object
	for v, p := range esc {
		if u.curStmt < p {
			objs = append(objs, v)
		}
	}
	sort.Slice(objs, func(i, j int) bool { return objs[i].Pos() < objs[j].Pos() })
	var out []keepRef
	for _, v := range objs {
		val, ok := st.vars[v]
		if !ok {
			continue
		}
		switch t := v.Type().Underlying().(type) {
		case *types.Slice:
			if val.isSlice() {
				out = append(out, keepRef{ref: val.base(), prefixes: []string{"M:" + typeKey(t.Elem()) + ":"}})
			}
		case *types.Map:
			if len(val.L) == 1 {
				out = append(out, keepRef{ref: val.term(), prefixes: []string{"MD:" + typeKey(v.Type()), "MV:" + typeKey(v.Type()) + ":"}})
			}
		}
	}
	return out
}
