package main

// Calls: builtins, conversions, library models, contract application (assert requires,
// havoc modifies, assume ensures), inlining of small repo callees, defer / go / channels.

import (
	"fmt"
	"go/ast"
	"go/token"
	"go/types"
	"sort"
	"strconv"
	"strings"

	"golang.org/x/tools/go/types/typeutil"
)

func (u *Unit) evalCall(st *State, call *ast.CallExpr) []Value {
	info := u.top().info
	u.curPos = call.Pos()
	// conversion?
	if tv, ok := info.Types[call.Fun]; ok && tv.IsType() {
		return []Value{u.evalConversion(st, call, tv.Type)}
	}
	callee := typeutil.Callee(info, call)
	switch c := callee.(type) {
	case *types.Builtin:
		return u.evalBuiltin(st, call, c.Name())
	case *types.Func:
		return u.callFunc(st, call, c)
	case *types.Var:
		// call of a function value: closure known in this unit?
		fv := u.eval(st, call.Fun)
		if cl, ok := u.closures[fv.term().S]; ok {
			args := u.evalArgs(st, call, cl.info.TypeOf(cl.lit).(*types.Signature))
			u.closureAnchors(st, "before:"+c.Name(), call, args)
			r := u.inlineLit(st, cl, args)
			u.closureAnchors(st, "after:"+c.Name(), call, args)
			return r
		}
		// a variable that may hold one of the top-level functions this unit has used as values: the call is a
		// call of each of them under the condition that the variable holds it (with everything a direct call is
		// subject to), and an opaque call otherwise
		if len(fv.L) == 1 && len(u.funcConsts) > 0 && u.capturedClosure(c) == nil {
			var cands []*types.Func
			var keys []string
			for k, fn := range u.funcConsts {
				if fn.Type().(*types.Signature).Recv() == nil && types.Identical(fn.Type(), c.Type().Underlying()) {
					keys = append(keys, k)
				}
			}
			sort.Strings(keys)
			for _, k := range keys {
				cands = append(cands, u.funcConsts[k])
			}
			if len(cands) > 0 && len(cands) <= 4 {
				var sts []*State
				var vals [][]Value
				var conds []Term
				none := TTrue
				// different functions are different values, none of them nil
				for i := range keys {
					st.assume(Ne(Term{keys[i], SInt}, IntLit(0)))
					for j := i + 1; j < len(keys); j++ {
						st.assume(Ne(Term{keys[i], SInt}, Term{keys[j], SInt}))
					}
				}
				if u.calleeAlias == nil {
					u.calleeAlias = map[*ast.CallExpr]string{}
				}
				for i, fn := range cands {
					is := Eq(fv.term(), Term{keys[i], SInt})
					s := st.clone()
					s.assume(is)
					u.calleeAlias[call] = fn.Name() // obligations are named after the function that is called
					vals = append(vals, u.callFunc(s, call, fn))
					delete(u.calleeAlias, call)
					sts = append(sts, s)
					conds = append(conds, is)
					none = And(none, Not(is))
				}
				// none of them: an unknown function
				{
					s := st.clone()
					s.assume(none)
					sig := c.Type().Underlying().(*types.Signature)
					u.evalArgs(s, call, sig)
					u.abstract("call through function value %s: results unconstrained, heap havocked (when it is none of the functions assigned to it here)", exprText(call.Fun))
					u.havocHeap(s, func(string) bool { return true })
					vals = append(vals, u.freshResults(s, sig, "fv"))
					sts = append(sts, s)
				}
				m := u.merge(sts)
				*st = *m
				out := vals[len(vals)-1]
				for k := len(cands) - 1; k >= 0; k-- {
					nxt := make([]Value, len(out))
					for i := range out {
						nxt[i] = mergeVal(conds[k], vals[k][i], out[i])
					}
					out = nxt
				}
				return out
			}
		}
		// a closure captured from the enclosing function (this unit is one of its literals)
		if cl := u.capturedClosure(c); cl != nil {
			args := u.evalArgs(st, call, cl.info.TypeOf(cl.lit).(*types.Signature))
			u.closureAnchors(st, "before:"+c.Name(), call, args)
			r := u.inlineLit(st, cl, args)
			u.closureAnchors(st, "after:"+c.Name(), call, args)
			return r
		}
	case nil:
		if lit, ok := ast.Unparen(call.Fun).(*ast.FuncLit); ok {
			cv := u.closureValue(st, lit)
			cl := u.closures[cv.term().S]
			args := u.evalArgs(st, call, cl.info.TypeOf(lit).(*types.Signature))
			return u.inlineLit(st, cl, args)
		}
	}
	// unknown function value
	sig, _ := info.TypeOf(call.Fun).Underlying().(*types.Signature)
	if sig == nil {
		u.unsupported("call of %s", exprText(call.Fun))
	}
	u.evalArgs(st, call, sig)
	u.abstract("call through function value %s: results unconstrained, heap havocked", exprText(call.Fun))
	u.havocHeap(st, func(string) bool { return true })
	return u.freshResults(st, sig, "fv")
}

func (u *Unit) freshResults(st *State, sig *types.Signature, name string) []Value {
	var out []Value
	if sig.Results().Len() > 0 && st.clock.S != "" {
		u.tick(st)
	}
	for i := 0; i < sig.Results().Len(); i++ {
		v := u.freshValue(st, fmt.Sprintf("%s_r%d", name, i), sig.Results().At(i).Type())
		u.refFacts(st, v, st.clock)
		out = append(out, v)
	}
	return out
}

func (u *Unit) evalArgs(st *State, call *ast.CallExpr, sig *types.Signature) []Value {
	var args []Value
	np := sig.Params().Len()
	if len(call.Args) == 0 {
		if sig.Variadic() {
			st2 := sig.Params().At(np - 1).Type().(*types.Slice)
			if np == 1 {
				return []Value{sliceV(st2, IntLit(0), IntLit(0), IntLit(0), IntLit(0))}
			}
		}
		return nil
	}
	if _, isTuple := u.typeOf(call.Args[0]).(*types.Tuple); len(call.Args) == 1 && np > 1 && isTuple {
		// f(g()) with multi-value g
		vs := u.evalMulti(st, call.Args[0], np)
		for i, v := range vs {
			args = append(args, u.convert(st, v, sig.Params().At(i).Type()))
		}
		return args
	}
	for i, a := range call.Args {
		var pt types.Type
		if sig.Variadic() && i >= np-1 {
			pt = sig.Params().At(np - 1).Type()
			if !call.Ellipsis.IsValid() {
				pt = pt.(*types.Slice).Elem()
			}
		} else if i < np {
			pt = sig.Params().At(i).Type()
		}
		v := u.eval(st, a)
		if pt != nil {
			v = u.convert(st, v, pt)
		}
		args = append(args, v)
	}
	if sig.Variadic() && !call.Ellipsis.IsValid() {
		// pack the variadic tail into a fresh slice
		fixed := np - 1
		st2 := sig.Params().At(np - 1).Type().(*types.Slice)
		tail := args[fixed:]
		base := IntLit(0)
		if len(tail) > 0 {
			base = u.alloc(st, "variadic")
			for i, v := range tail {
				u.store(st, LV{kind: lvMem, keyT: typeKey(st2.Elem()), ref: base, idx: IntLit(int64(i)), T: st2.Elem()}, v)
			}
		}
		n := IntLit(int64(len(tail)))
		args = append(args[:fixed:fixed], sliceV(st2, base, IntLit(0), n, n))
	}
	return args
}

func (u *Unit) evalConversion(st *State, call *ast.CallExpr, t types.Type) Value {
	v := u.eval(st, call.Args[0])
	from := v.T
	switch {
	case isInterface(t):
		if isInterface(from) || from == types.Typ[types.UntypedNil] {
			return Value{T: t, L: v.L}
		}
		return u.box(st, v, t)
	case isInteger(t) && from != nil && (isInteger(from) || from == tUntyped):
		x := v.term()
		if x.Sort.isBV() {
			return scalar(t, bvResize(x, bitWidth(t), !isUnsigned(from)))
		}
		if u.bv {
			if n, ok := x.intVal(); ok {
				return scalar(t, BVLit(n, bitWidth(t)))
			}
		}
		lo, hi, ok := intRange(t)
		if !ok {
			return scalar(t, x)
		}
		if _, lit := x.intVal(); lit {
			return scalar(t, x)
		}
		// value-preserving when the source range is inside the target range
		flo, fhi, fok := intRange(from)
		if fok && rangeWithin(flo, fhi, lo, hi) {
			return scalar(t, x)
		}
		if u.checks["conv"] {
			u.oblige(st, "conv@"+exprText(call), "conv", nil, And(App("<=", SBool, Term{lo, SInt}, x), App("<=", SBool, x, Term{hi, SInt})), call.Pos(), "conversion preserves the value")
		}
		// exact two's complement semantics
		w := bitWidth(t)
		if fok && bitWidth(from) == w {
			if isUnsigned(t) { // signed -> unsigned, same width
				return scalar(t, Ite(Ge(x, IntLit(0)), x, Add(x, pow2(w))))
			}
			return scalar(t, Ite(Lt(x, pow2(w-1)), x, Sub(x, pow2(w)))) // unsigned -> signed
		}
		return scalar(t, u.wrapTo(x, t, false))
	case isInteger(t) && v.term().Sort == SFlt:
		f := u.d.Fun("ftoi", []Sort{SFlt}, SInt)
		r := App(f, SInt, v.term())
		val := scalar(t, r)
		u.typeFacts(st, val)
		return val
	case len(flatten(t)) == 1 && flatten(t)[0].Sort == SFlt:
		if v.term().Sort == SFlt {
			return scalar(t, v.term())
		}
		f := u.d.Fun("itof", []Sort{SInt}, SFlt)
		return scalar(t, App(f, SFlt, u.asInt(v.term())))
	case isString(t) && v.isSlice():
		// string(b)
		f := u.d.Fun("str_of_bytes", []Sort{Sort("Bytes")}, SStr)
		row := Select(u.heapArr(st, mKey(typeKey(v.T.Underlying().(*types.Slice).Elem()), ""), ArrSort(SInt, ArrSort(SInt, SInt))), v.base())
		r := App(f, SStr, u.bytesTerm(row, v.off(), v.slen()))
		st.assume(Eq(u.slenOf(st, r), v.slen()))
		return scalar(t, r)
	case isString(t) && isString(from):
		return scalar(t, v.term())
	case isString(t) && isInteger(from):
		return scalar(t, App(u.d.Fun("str_of_rune", []Sort{SInt}, SStr), SStr, v.term()))
	}
	if sl, ok := t.Underlying().(*types.Slice); ok && isString(from) {
		// []byte(s): fresh backing array whose content is a function of s
		base := u.alloc(st, "bytes_of_str")
		f := u.d.Fun("bytes_of_str", []Sort{SStr}, ArrSort(SInt, SInt))
		key := mKey(typeKey(sl.Elem()), "")
		arr := u.heapArr(st, key, ArrSort(SInt, ArrSort(SInt, SInt)))
		st.heap[key] = Store(arr, base, App(f, ArrSort(SInt, SInt), v.term()))
		n := u.slenOf(st, v.term())
		return sliceV(t, base, IntLit(0), n, n)
	}
	// same underlying representation (named types, struct conversions)
	if len(v.L) == len(flatten(t)) {
		return Value{T: t, L: v.L}
	}
	u.unsupported("conversion %v -> %v", from, t)
	return Value{}
}

func bvResize(x Term, w int, signed bool) Term {
	fw := x.Sort.bvWidth()
	switch {
	case fw == w:
		return x
	case fw > w:
		return Term{fmt.Sprintf("((_ extract %d 0) %s)", w-1, x.S), BVSort(w)}
	case signed:
		return Term{fmt.Sprintf("((_ sign_extend %d) %s)", w-fw, x.S), BVSort(w)}
	}
	return Term{fmt.Sprintf("((_ zero_extend %d) %s)", w-fw, x.S), BVSort(w)}
}

func rangeWithin(flo, fhi, lo, hi string) bool {
	p := func(s string) (neg bool, mag string) {
		if strings.HasPrefix(s, "(- ") {
			return true, strings.TrimSuffix(s[3:], ")")
		}
		return false, s
	}
	cmp := func(a, b string) int { // compare decimal strings as signed
		an, am := p(a)
		bn, bm := p(b)
		if an != bn {
			if an {
				return -1
			}
			return 1
		}
		c := 0
		if len(am) != len(bm) {
			if len(am) < len(bm) {
				c = -1
			} else {
				c = 1
			}
		} else {
			c = strings.Compare(am, bm)
		}
		if an {
			return -c
		}
		return c
	}
	return cmp(flo, lo) >= 0 && cmp(fhi, hi) <= 0
}

// allocation cap for the "make" obligation (C19: allocation in proportion to the input).
const allocCapBytes = 1 << 20

func (u *Unit) evalBuiltin(st *State, call *ast.CallExpr, name string) []Value {
	switch name {
	case "len", "cap":
		v := u.eval(st, call.Args[0])
		t := v.T
		if p, ok := t.Underlying().(*types.Pointer); ok {
			t = p.Elem()
		}
		switch tt := t.Underlying().(type) {
		case *types.Slice:
			if name == "len" {
				return []Value{intV(v.slen())}
			}
			return []Value{intV(v.scap())}
		case *types.Array:
			return []Value{intV(IntLit(tt.Len()))}
		case *types.Basic:
			return []Value{intV(u.slenOf(st, v.term()))}
		case *types.Map:
			f := u.d.Fun("maplen", []Sort{SInt, SInt}, SInt)
			// length depends on the map's current domain: abstract as a function of (ref, epoch)
			u.nextHavoc++
			r := App(f, SInt, v.term(), IntLit(int64(u.nextHavoc)))
			st.assume(Le(IntLit(0), r))
			u.abstract("len(map) is unconstrained (non-negative)")
			return []Value{intV(r)}
		case *types.Chan:
			r := u.d.Fresh("chanlen", SInt)
			st.assume(Le(IntLit(0), r))
			return []Value{intV(r)}
		}
	case "append":
		return []Value{u.evalAppend(st, call)}
	case "copy":
		dst := u.eval(st, call.Args[0])
		src := u.eval(st, call.Args[1])
		var sl Term
		var n Term
		if isString(src.T) {
			sl = u.slenOf(st, src.term())
		} else {
			sl = src.slen()
		}
		n = Ite(Le(dst.slen(), sl), dst.slen(), sl)
		elem := dst.T.Underlying().(*types.Slice).Elem()
		var rows []Term
		for _, l := range flatten(elem) {
			key := mKey(typeKey(elem), l.Path)
			arr := u.heapArr(st, key, ArrSort(SInt, ArrSort(SInt, l.Sort)))
			old := Select(arr, dst.base())
			nw := u.d.Fresh("copied", ArrSort(SInt, l.Sort))
			// frame + content: positions inside [off, off+n) take the source bytes, others unchanged
			j := Term{"j!cp", SInt}
			var srcAt Term
			if isString(src.T) {
				srcAt = App(u.d.Fun("sbyte", []Sort{SStr, SInt}, SInt), SInt, src.term(), Sub(j, dst.off()))
			} else {
				srcRow := Select(arr, src.base())
				srcAt = Select(srcRow, Add(src.off(), Sub(j, dst.off())))
			}
			in := And(Le(dst.off(), j), Lt(j, Add(dst.off(), n)))
			st.assume(Forall([]Term{j}, Eq(Select(nw, j), Ite(in, srcAt, Select(old, j)))))
			st.heap[key] = Store(arr, dst.base(), nw)
			rows = append(rows, nw)
		}
		// copy(a[:], src) with a an addressable array: the view was made from the array's contents at
		// the same indices, so the written row is the array's new value
		if se, ok := ast.Unparen(call.Args[0]).(*ast.SliceExpr); ok {
			if at, ok := u.typeOf(se.X).Underlying().(*types.Array); ok && !isChunkID(u.typeOf(se.X)) && !opaqueNamed(u.typeOf(se.X)) {
				lv := u.evalLV(st, se.X)
				u.store(st, lv, Value{T: u.typeOf(se.X), L: rows})
				_ = at
			}
		}
		return []Value{intV(n)}
	case "make":
		t := u.typeOf(call.Args[0])
		switch tt := t.Underlying().(type) {
		case *types.Slice:
			n := u.asInt(u.eval(st, call.Args[1]).term())
			cp := n
			if len(call.Args) > 2 {
				cp = u.asInt(u.eval(st, call.Args[2]).term())
			}
			if u.checks["make"] {
				u.oblige(st, "make@"+exprText(call), "make", nil, And(Le(IntLit(0), n), Le(n, cp), Le(Mul(cp, IntLit(maxInt64(1, elemSize(tt.Elem())))), pow2(47))), call.Pos(), "make: length in range (non-negative, at most cap, below the runtime's allocation limit)")
			}
			if u.checks["alloc"] {
				lim := u.allocLimit(st)
				u.oblige(st, "alloc@"+exprText(call), "alloc", nil, Le(Mul(cp, IntLit(elemSize(tt.Elem()))), lim), call.Pos(), "allocation bounded by input consumed or cap")
			}
			st.assume(And(Le(IntLit(0), n), Le(n, cp)))
			base := u.alloc(st, "make")
			for _, l := range flatten(tt.Elem()) {
				key := mKey(typeKey(tt.Elem()), l.Path)
				arr := u.heapArr(st, key, ArrSort(SInt, ArrSort(SInt, l.Sort)))
				st.heap[key] = Store(arr, base, ConstArr(ArrSort(SInt, l.Sort), u.zeroOfSort(l.Sort, l.T)))
			}
			return []Value{sliceV(t, base, IntLit(0), n, cp)}
		case *types.Map:
			for _, a := range call.Args[1:] {
				u.eval(st, a)
			}
			ref := u.alloc(st, "makemap")
			u.initMap(st, t, ref)
			return []Value{scalar(t, ref)}
		case *types.Chan:
			for _, a := range call.Args[1:] {
				u.eval(st, a)
			}
			ref := u.alloc(st, "makechan")
			return []Value{scalar(t, ref)}
		}
	case "new":
		t := u.typeOf(call.Args[0])
		ref := u.alloc(st, "new")
		u.store(st, u.derefLV(ref, t), u.zeroValue(t))
		return []Value{scalar(types.NewPointer(t), ref)}
	case "delete":
		m := u.eval(st, call.Args[0])
		mt := m.T.Underlying().(*types.Map)
		k := u.convert(st, u.eval(st, call.Args[1]), mt.Key())
		ksort := flatten(mt.Key())[0].Sort
		dk := "MD:" + typeKey(m.T)
		dom := u.heapArr(st, dk, ArrSort(SInt, ArrSort(ksort, SBool)))
		st.heap[dk] = Store(dom, m.term(), Store(Select(dom, m.term()), k.term(), TFalse))
		return nil
	case "close":
		ch := u.eval(st, call.Args[0])
		u.chanClosed(st, call.Args[0], ch)
		return nil
	case "panic":
		if u.checks["panic"] {
			u.oblige(st, "panic@"+exprText(call), "panic", nil, TFalse, call.Pos(), "explicit panic reachable")
		}
		st.assume(TFalse)
		return nil
	case "min", "max":
		vs := []Value{}
		for _, a := range call.Args {
			vs = append(vs, u.eval(st, a))
		}
		r := vs[0].term()
		for _, v := range vs[1:] {
			if name == "min" {
				r = Ite(Le(r, v.term()), r, v.term())
			} else {
				r = Ite(Ge(r, v.term()), r, v.term())
			}
		}
		return []Value{scalar(u.typeOf(call), r)}
	case "print", "println":
		for _, a := range call.Args {
			u.eval(st, a)
		}
		return nil
	case "recover":
		return []Value{scalar(u.typeOf(call), IntLit(0))}
	}
	u.unsupported("builtin %s", name)
	return nil
}

func maxInt64(a, b int64) int64 {
	if a > b {
		return a
	}
	return b
}

func elemSize(t types.Type) int64 {
	return types.SizesFor("gc", "amd64").Sizeof(t)
}

func (u *Unit) allocLimit(st *State) Term {
	// max(ALLOC_CAP, 4 * bytes delivered by the input since function entry) -- ghost $consumed
	if t, ok := u.eng.ghostVars["consumed"]; ok && u.old != nil {
		lv := LV{kind: lvGhostVar, name: "consumed", T: t}
		c := Mul(IntLit(4), Sub(u.load(st, lv).term(), u.load(u.old, lv).term()))
		return Ite(Ge(c, IntLit(allocCapBytes)), c, IntLit(allocCapBytes))
	}
	return IntLit(allocCapBytes)
}

func (u *Unit) evalAppend(st *State, call *ast.CallExpr) Value {
	s := u.eval(st, call.Args[0])
	t := u.typeOf(call)
	sl, ok := t.Underlying().(*types.Slice)
	if !ok {
		u.unsupported("append to %v", t)
	}
	if s.T == types.Typ[types.UntypedNil] || !s.isSlice() {
		s = sliceV(t, IntLit(0), IntLit(0), IntLit(0), IntLit(0))
	}
	elem := sl.Elem()
	if call.Ellipsis.IsValid() {
		// append(a, b...): resulting content = a ++ b in a (possibly) new array
		b := u.eval(st, call.Args[1])
		var bl Term
		if isString(b.T) {
			bl = u.slenOf(st, b.term())
		} else {
			bl = b.slen()
		}
		n := Add(s.slen(), bl)
		base := u.alloc(st, "append")
		cp := u.d.Fresh("appcap", SInt)
		st.assume(Le(n, cp))
		for _, l := range flatten(elem) {
			key := mKey(typeKey(elem), l.Path)
			arr := u.heapArr(st, key, ArrSort(SInt, ArrSort(SInt, l.Sort)))
			nw := u.d.Fresh("appended", ArrSort(SInt, l.Sort))
			j := Term{"j!ap", SInt}
			var bAt Term
			if isString(b.T) {
				bAt = App(u.d.Fun("sbyte", []Sort{SStr, SInt}, SInt), SInt, b.term(), Sub(j, s.slen()))
			} else {
				bAt = Select(Select(arr, b.base()), Add(b.off(), Sub(j, s.slen())))
			}
			aAt := Select(Select(arr, s.base()), Add(s.off(), j))
			st.assume(Forall([]Term{j}, Imp(And(Le(IntLit(0), j), Lt(j, n)), Eq(Select(nw, j), Ite(Lt(j, s.slen()), aAt, bAt)))))
			st.heap[key] = Store(arr, base, nw)
		}
		u.abstract("append(a, b...) always reallocates in the model (no aliasing with a)")
		return sliceV(t, base, IntLit(0), n, cp)
	}
	var elems []Value
	for _, a := range call.Args[1:] {
		elems = append(elems, u.convert(st, u.eval(st, a), elem))
	}
	k := int64(len(elems))
	n := Add(s.slen(), IntLit(k))
	// in place iff len+k <= cap; otherwise a fresh array holding a copy
	fits := Le(n, s.scap())
	nb := u.alloc(st, "append")
	ncap := u.d.Fresh("appcap", SInt)
	st.assume(Le(n, ncap))
	base := Ite(fits, s.base(), nb)
	off := Ite(fits, s.off(), IntLit(0))
	cp := Ite(fits, s.scap(), ncap)
	for li, l := range flatten(elem) {
		key := mKey(typeKey(elem), l.Path)
		arr := u.heapArr(st, key, ArrSort(SInt, ArrSort(SInt, l.Sort)))
		oldRow := Select(arr, s.base())
		// fresh array: prefix copied
		nw := u.d.Fresh("apprealloc", ArrSort(SInt, l.Sort))
		j := Term{"j!ap", SInt}
		st.assume(Forall([]Term{j}, Imp(And(Le(IntLit(0), j), Lt(j, s.slen())), Eq(Select(nw, j), Select(oldRow, Add(s.off(), j))))))
		inPlace := oldRow
		fresh := nw
		for i, ev := range elems {
			inPlace = Store(inPlace, Add(s.off(), Add(s.slen(), IntLit(int64(i)))), ev.L[li])
			fresh = Store(fresh, Add(s.slen(), IntLit(int64(i))), ev.L[li])
		}
		a2 := Store(arr, nb, fresh)
		a1 := Store(arr, s.base(), inPlace)
		st.heap[key] = Ite(fits, a1, a2)
	}
	return sliceV(t, base, off, n, cp)
}

// ---- function calls

type callSite struct {
	call  *ast.CallExpr
	fn    *types.Func
	recv  *Value // receiver value (pointer or value)
	recvE ast.Expr
	args  []Value
	sig   *types.Signature
	// copy-back for pointer-receiver calls on addressable non-pointer operands
	copyBack func(st *State)
}

func (u *Unit) callFunc(st *State, call *ast.CallExpr, fn *types.Func) []Value {
	info := u.top().info
	sig := fn.Type().(*types.Signature)
	cs := &callSite{call: call, fn: fn, sig: sig}
	// receiver
	if sig.Recv() != nil {
		sel, ok := ast.Unparen(call.Fun).(*ast.SelectorExpr)
		if !ok {
			u.unsupported("method expression call")
		}
		cs.recvE = sel.X
		if r := u.syncCall(st, call, fn, sel); r != nil {
			return r.vals
		}
		selection := info.Selections[sel]
		rt := info.TypeOf(sel.X)
		wantPtr := isPointer(sig.Recv().Type())
		// walk embedded fields to the actual receiver
		if selection != nil && len(selection.Index()) > 1 {
			lv := u.evalLVr(st, sel.X)
			if isPointer(lv.T) {
				pv := u.load(st, lv)
				lv = u.derefLV(pv.term(), lv.T.Underlying().(*types.Pointer).Elem())
			}
			idx := selection.Index()
			for _, fi := range idx[:len(idx)-1] {
				if isPointer(lv.T) {
					pv := u.load(st, lv)
					lv = u.derefLV(pv.term(), lv.T.Underlying().(*types.Pointer).Elem())
				}
				lv = lv.field(lv.T.Underlying().(*types.Struct), fi)
			}
			v := u.load(st, lv)
			if wantPtr && !isPointer(v.T) {
				v2 := u.tempBox(st, lv, v)
				cs.recv = &v2
				if u.calleeWrites(fn, v.T) {
					cs.copyBack = func(s *State) { u.store(s, lv, u.load(s, u.derefLV(v2.term(), v.T))) }
				}
			} else if !wantPtr && isPointer(v.T) {
				dv := u.load(st, u.derefLV(v.term(), v.T.Underlying().(*types.Pointer).Elem()))
				cs.recv = &dv
			} else {
				cs.recv = &v
			}
		} else {
			switch {
			case isInterface(sig.Recv().Type()) || isInterface(rt):
				v := u.eval(st, sel.X)
				cs.recv = &v
			case wantPtr && isPointer(rt):
				v := u.eval(st, sel.X)
				cs.recv = &v
			case wantPtr && !isPointer(rt):
				lv := u.evalLVr(st, sel.X)
				if lv.kind == lvVar {
					if ref, ok := st.boxed[lv.obj]; ok && lv.lo == 0 && len(lv.arrIdx) == 0 && types.Identical(lv.T, lv.obj.Type()) {
						// boxed locals are stored under "box:T"; methods expect plain T storage: copy in/out
						_ = ref
					}
				}
				v := u.load(st, lv)
				v2 := u.tempBox(st, lv, v)
				cs.recv = &v2
				if lv.kind != lvTemp && u.calleeWrites(fn, v.T) {
					cs.copyBack = func(s *State) { u.store(s, lv, u.load(s, u.derefLV(v2.term(), v.T))) }
				}
			case !wantPtr && isPointer(rt):
				p := u.eval(st, sel.X)
				u.checkNil(st, sel.X, p.term())
				dv := u.load(st, u.derefLV(p.term(), rt.Underlying().(*types.Pointer).Elem()))
				cs.recv = &dv
			default:
				v := u.eval(st, sel.X)
				cs.recv = &v
			}
		}
	}
	cs.args = u.evalArgs(st, call, sig)
	u.newMethodArgs(cs)
	if u.anchorsApply() && u.spec != nil && (len(u.spec.Ghost) > 0 || len(u.spec.Asserts) > 0) {
		extra := map[string]Value{}
		for i, a := range cs.args {
			extra[fmt.Sprintf("$a%d", i)] = a
		}
		u.runAnchorsNamed(st, "before:"+fn.Name(), call.Pos(), extra)
	}
	res := u.dispatch(st, cs)
	if cs.copyBack != nil {
		cs.copyBack(st)
	}
	if u.anchorsApply() && u.spec != nil && (len(u.spec.Ghost) > 0 || len(u.spec.Asserts) > 0) {
		extra := map[string]Value{}
		for i, r := range res {
			extra[fmt.Sprintf("$r%d", i)] = r
		}
		for i, a := range cs.args {
			extra[fmt.Sprintf("$a%d", i)] = a
		}
		u.runAnchorsNamed(st, "after:"+fn.Name(), call.Pos(), extra)
	}
	return res
}

// calleeWrites: may fn assign to fields of its receiver struct type t?
func (u *Unit) calleeWrites(fn *types.Func, t types.Type) bool {
	origin := fn.Origin()
	if fc, ok := u.eng.contracts[origin]; ok && !fc.Inline {
		if fc.Pure {
			return false
		}
		if len(fc.Spec.Modifies) == 0 {
			return true
		}
		rn := fc.RecvName
		if rn == "" {
			if r := origin.Type().(*types.Signature).Recv(); r != nil {
				rn = r.Name()
			}
		}
		for _, c := range fc.Spec.Modifies {
			for _, item := range splitTopCommas(c.Text) {
				item = strings.TrimSpace(item)
				if item == "all" || strings.HasPrefix(item, rn+".") || strings.HasPrefix(item, "heap("+typeKey(t)+".") {
					return true
				}
			}
		}
		return false
	}
	fi, ok := u.eng.funcs[origin]
	if !ok || fi.decl.Body == nil {
		return true
	}
	saved := u.frames
	fr := u.newFrame(origin, origin.Type().(*types.Signature), fi.decl.Body, fi.pkg.TypesInfo, fi.pkg.Types, newUnitSpec(), fi.decl.Type)
	u.frames = append(u.frames, fr)
	u.inlineDepth++
	m := u.modified(fi.decl.Body)
	u.inlineDepth--
	u.frames = saved
	if m.all {
		return true
	}
	pref := "F:" + typeKey(t) + ":"
	for _, k := range m.keys {
		if strings.HasPrefix(k, pref) || strings.HasPrefix(pref, k) {
			return true
		}
	}
	return false
}

// tempBox stores a struct value at a fresh reference so that a pointer-receiver method can
// be called on an addressable operand (copy-in / copy-out; sound in the absence of aliases).
func (u *Unit) tempBox(st *State, lv LV, v Value) Value {
	ref := u.alloc(st, "recv")
	u.store(st, u.derefLV(ref, v.T), v)
	return scalar(types.NewPointer(v.T), ref)
}

type syncResult struct{ vals []Value }

func (u *Unit) dispatch(st *State, cs *callSite) []Value {
	fn := cs.fn
	origin := fn.Origin()
	u.applyOnCall(st, cs)
	if r, ok := u.libraryModel(st, cs); ok {
		return r
	}
	if _, isRepo := u.eng.funcs[origin]; !isRepo {
		// function literals handed to library code (filepath.Walk, sort.Slice, ...) are verified
		// as separate units: the library may call them any number of times
		for _, a := range cs.call.Args {
			if lit, ok := ast.Unparen(a).(*ast.FuncLit); ok {
				u.spawnLit(st, lit, "callback")
			}
		}
	}
	if u.forceInline[origin] {
		if st.dead() {
			// bounded unrolling: this path is already infeasible (a failed obligation was assumed)
			return u.freshResults(st, cs.sig, fn.Name())
		}
		if fi, ok := u.eng.funcs[origin]; ok {
			return u.inlineFunc(st, cs, fi)
		}
	}
	if fc, ok := u.eng.contracts[origin]; ok {
		if fc.Inline {
			if fi, ok := u.eng.funcs[origin]; ok {
				return u.inlineFunc(st, cs, fi)
			}
		}
		// function literals handed to a callee known only by its contract are verified as separate
		// units (the callee may call them any number of times)
		for _, a := range cs.call.Args {
			if lit, ok := ast.Unparen(a).(*ast.FuncLit); ok {
				u.spawnLit(st, lit, "callback")
			} else if id, ok := ast.Unparen(a).(*ast.Ident); ok {
				// a local variable holding a literal of this function
				if v, ok := u.top().info.ObjectOf(id).(*types.Var); ok {
					if _, isFn := v.Type().Underlying().(*types.Signature); isFn {
						if fv, ok := st.vars[v]; ok && len(fv.L) == 1 {
							if cl, ok := u.closures[fv.term().S]; ok {
								u.spawnLit(st, cl.lit, "callback")
							}
						}
					}
				}
			}
		}
		return u.applyContract(st, cs, fc)
	}
	if fi, ok := u.eng.funcs[origin]; ok {
		if u.inlinable(fi) {
			return u.inlineFunc(st, cs, fi)
		}
		u.abstract("call of %s: no contract, not inlinable: results unconstrained, heap havocked", funcKey(fn))
		if u.eng.funcsBase != nil && !u.eng.funcsBase[funcKey(fn)] {
			root := u
			for root.parent != nil {
				root = root.parent
			}
			u.newHelpers = append(u.newHelpers, funcKey(fn))
			root.newHelpers = append(root.newHelpers, funcKey(fn))
		}
		u.havocHeap(st, func(string) bool { return true })
		return u.freshResults(st, cs.sig, fn.Name())
	}
	return u.externalCall(st, cs)
}

var pureExternalPkgs = map[string]bool{
	"fmt": true, "errors": true, "strings": true, "path/filepath": true, "path": true, "encoding/hex": true, "strconv": true,
	"time": true, "github.com/pkg/errors": true, "github.com/sirupsen/logrus": true, "math": true, "math/bits": true, "unicode": true,
	"unicode/utf8": true, "bytes": true, "sort": false, "net/url": true, "crypto": true, "runtime": true, "log": true,
	"encoding/binary": true, "github.com/kr/fs": true, "hash": false, "crypto/sha256": true, "crypto/sha512": true, "os/signal": true, "reflect": true,
	"text/tabwriter": false, "encoding/json": false, "gopkg.in/cheggaaa/pb.v1": true,
}

// newMethodArgs: a value of a repository type that has gained a method since the baseline is handed to code outside
// the repository. Library functions look for optional interfaces (io.Copy: WriterTo / ReaderFrom, ...), so what
// the call does with the value may now go through that method, which no contract describes: the unit can not be
// decided (treated like a call of a new helper without contract).
func (u *Unit) newMethodArgs(cs *callSite) {
	if len(u.eng.newMethods) == 0 || cs.fn == nil || cs.fn.Pkg() == nil || u.eng.allRepoPkgs()[cs.fn.Pkg().Path()] {
		return
	}
	seen := func(t types.Type) {
		if t == nil {
			return
		}
		if p, ok := t.Underlying().(*types.Pointer); ok {
			t = p.Elem()
		}
		if p, ok := t.(*types.Pointer); ok {
			t = p.Elem()
		}
		n, ok := t.(*types.Named)
		if !ok {
			return
		}
		ms := u.eng.newMethods[typeKey(n)]
		if len(ms) == 0 {
			return
		}
		msg := fmt.Sprintf("method %s (new since the baseline) of a value handed to %s", strings.Join(ms, ", "), funcKey(cs.fn))
		root := u
		for root.parent != nil {
			root = root.parent
		}
		for _, h := range root.newHelpers {
			if h == msg {
				return
			}
		}
		root.newHelpers = append(root.newHelpers, msg)
		if root != u {
			u.newHelpers = append(u.newHelpers, msg)
		}
	}
	for i, a := range cs.call.Args {
		_ = i
		seen(u.typeOf(a))
	}
}

func (u *Unit) externalCall(st *State, cs *callSite) []Value {
	fn := cs.fn

	pk := ""
	if fn.Pkg() != nil {
		pk = fn.Pkg().Path()
	}
	name := funcKey(fn)
	if isInterface(cs.sigRecvType()) {
		name = typeKey(cs.sigRecvType()) + "." + fn.Name()
	}
	if pureExternalPkgs[pk] {
		u.stubsUsed["pure-external:"+name] = true
		return u.freshResults(st, cs.sig, fn.Name())
	}
	// conservative: forget memory reachable from the arguments
	all := false
	var keys []string
	consider := func(v Value) {
		if v.T == nil {
			return
		}
		switch t := v.T.Underlying().(type) {
		case *types.Slice:
			keys = append(keys, "M:"+typeKey(t.Elem())+":")
		case *types.Pointer:
			keys = append(keys, "F:"+typeKey(t.Elem())+":")
			if _, isStruct := t.Elem().Underlying().(*types.Struct); isStruct {
				// anything reachable through the struct: give up precision
				if !opaqueNamed(t.Elem()) && t.Elem().String() != "os.File" {
					all = true
				}
			}
		case *types.Interface, *types.Signature, *types.Map, *types.Chan:
			all = true
		}
	}
	if cs.recv != nil {
		// a library receiver (os.File, bufio.Reader ...) is library state: not tracked
		if isInterface(cs.recv.T) {
			all = true
		}
	}
	for _, a := range cs.args {
		consider(a)
	}
	if all {
		u.abstract("external call %s: heap havocked", name)
		u.havocHeap(st, func(string) bool { return true })
	} else if len(keys) > 0 {
		u.abstract("external call %s: argument memory havocked", name)
		u.havocHeap(st, func(k string) bool {
			for _, p := range keys {
				if strings.HasPrefix(k, p) {
					return true
				}
			}
			return false
		})
	}
	u.stubsUsed["unmodelled-external:"+name] = true
	return u.freshResults(st, cs.sig, fn.Name())
}

func (cs *callSite) sigRecvType() types.Type {
	if cs.sig.Recv() == nil {
		return nil
	}
	return cs.sig.Recv().Type()
}

// inlinable: small, loop-free repo functions without contract are executed in place.
func (u *Unit) inlinable(fi *fnInfo) bool {
	if fi.decl.Body == nil || u.inlineDepth >= 4 {
		return false
	}
	for _, fr := range u.frames {
		if fr.body == fi.decl.Body {
			return false
		}
	}
	ok := true
	n := 0
	ast.Inspect(fi.decl.Body, func(x ast.Node) bool {
		switch x.(type) {
		case *ast.ForStmt, *ast.RangeStmt, *ast.GoStmt, *ast.FuncLit:
			ok = false
		case *ast.SelectStmt:
			// a select that only receives (polling a done channel) is plain branching
			for _, cc := range x.(*ast.SelectStmt).Body.List {
				if _, send := cc.(*ast.CommClause).Comm.(*ast.SendStmt); send {
					ok = false
				}
			}
			n++
		case ast.Stmt:
			n++
		}
		return ok
	})
	return ok && n <= 24
}

func (u *Unit) inlineFunc(st *State, cs *callSite, fi *fnInfo) []Value {
	fn := cs.fn.Origin()
	sig := fn.Type().(*types.Signature)
	spec := newUnitSpec()
	if fc, ok := u.eng.contracts[fn]; ok {
		spec = fc.Spec
	}
	fr := u.newFrame(fn, sig, fi.decl.Body, fi.pkg.TypesInfo, fi.pkg.Types, spec, fi.decl.Type)
	fr.inline = true
	_, hasContract := u.eng.contracts[fn]
	fr.transparent = !hasContract
	u.stubsUsed["inlined:"+funcKey(fn)] = true
	return u.runInline(st, fr, sig, cs.recv, cs.args)
}

func (u *Unit) inlineLit(st *State, cl *closure, args []Value) []Value {
	sig := cl.info.TypeOf(cl.lit).(*types.Signature)
	spec := newUnitSpec()
	if cl.fr != nil {
		if s := cl.fr.spec.Lits[cl.fr.litOrd[cl.lit]]; s != nil {
			spec = s
		}
	}
	fr := u.newFrame(nil, sig, cl.lit.Body, cl.info, cl.pkg, spec, cl.lit.Type)
	fr.inline = true
	if cl.fr != nil {
		fr.fn = cl.fr.fn
	}
	// a local closure without clauses of its own that is called directly is part of the function's own
	// control flow (a loop moved into `feed := func() error {...}`): call / channel anchors apply inside it
	fr.transparent = specIsEmpty(spec)
	return u.runInline(st, fr, sig, nil, args)
}

// runInline executes a callee body in the caller's state and merges its return paths.
func (u *Unit) runInline(st *State, fr *frame, sig *types.Signature, recv *Value, args []Value) []Value {
	u.inlineDepth++
	u.inlineSites = append(u.inlineSites, u.curPos)
	defer func() { u.inlineDepth--; u.inlineSites = u.inlineSites[:len(u.inlineSites)-1] }()
	// recursive unrolling (bounded units): the callee's parameters and locals are the same
	// objects as the caller's; save the caller's bindings and restore them afterwards
	recursive := false
	for _, f := range u.frames {
		if f.body == fr.body {
			recursive = true
		}
	}
	if recursive {
		saved := map[types.Object]Value{}
		for obj, v := range st.vars {
			if obj.Pos() >= fr.body.Pos()-4096 && obj.Pos() <= fr.body.End() && obj.Parent() != nil && obj.Pkg() != nil && obj.Parent() != obj.Pkg().Scope() {
				if sc := fr.fn; sc != nil && sc.Scope() != nil && sc.Scope().Contains(obj.Pos()) {
					saved[obj] = v
				}
			}
		}
		defer func() {
			for obj, v := range saved {
				st.vars[obj] = v
			}
		}()
	}
	if recv != nil && sig.Recv() != nil {
		st.vars[sig.Recv()] = Value{T: sig.Recv().Type(), L: recv.L}
	}
	for i := 0; i < sig.Params().Len(); i++ {
		p := sig.Params().At(i)
		st.vars[p] = Value{T: p.Type(), L: args[i].L}
	}
	for _, rv := range fr.results {
		st.vars[rv] = u.zeroValue(rv.Type())
	}
	savedDefers := st.defers
	st.defers = nil
	u.frames = append(u.frames, fr)
	savedChecks := u.checks
	u.boxEscaping(st, fr)
	outs := u.execBlock(st, fr.body.List)
	var rets []*State
	for _, o := range outs {
		switch o.kind {
		case oNormal, oReturn:
			rets = append(rets, u.runDefers(o.st)...)
		case oPanic:
		default:
			u.fail("%s: stray %s out of inlined body", u.name, o.kindName())
		}
	}
	u.frames = u.frames[:len(u.frames)-1]
	u.checks = savedChecks
	if len(rets) == 0 {
		// the callee never returns (panics on every path): the continuation is unreachable
		st.assume(TFalse)
		st.defers = savedDefers
		var out []Value
		for _, rv := range fr.results {
			out = append(out, u.zeroValue(rv.Type()))
		}
		return out
	}
	m := u.merge(rets)
	// adopt merged state into st (in place)
	*st = *m
	st.defers = savedDefers
	var out []Value
	for _, rv := range fr.results {
		out = append(out, u.load(st, LV{kind: lvVar, obj: rv, T: rv.Type()}))
	}
	return out
}

// applyContract is the modular call rule.
func (u *Unit) applyContract(st *State, cs *callSite, fc *FuncContract) []Value {
	fn := cs.fn.Origin()
	sig := fn.Type().(*types.Signature)
	name := funcKey(fn)
	if fc.Iface {
		name = typeKey(sig.Recv().Type()) + "." + fn.Name()
	}
	if fc.Stub || fc.Trusted {
		u.stubsUsed["stub:"+name] = true
	} else {
		u.stubsUsed["contract:"+name] = true
	}
	env := map[string]Value{}
	if cs.recv != nil && sig.Recv() != nil {
		rn := sig.Recv().Name()
		if fc.RecvName != "" {
			rn = fc.RecvName
		}
		if rn != "" {
			env[rn] = *cs.recv
		}
	}
	for i := 0; i < sig.Params().Len(); i++ {
		pn := sig.Params().At(i).Name()
		if fc.HasSig && i < len(fc.Params) {
			pn = fc.Params[i]
		}
		if pn != "" && pn != "_" && i < len(cs.args) {
			env[pn] = cs.args[i]
		}
	}
	// a dummy frame for name resolution inside the callee's package
	fr := &frame{fn: fn, sig: sig, pkg: fn.Pkg(), spec: fc.Spec}
	if fr.pkg == nil {
		fr.pkg = u.top().pkg
	}
	u.frames = append(u.frames, fr)
	defer func() { u.frames = u.frames[:len(u.frames)-1] }()
	ord := u.callName(cs.call)
	for i, c := range fc.Spec.Requires {
		t := u.specBool(st, st, env, c.Expr, c)
		u.oblige(st, fmt.Sprintf("pre:%s@%s#%d", name, ord, i+1), "requires", c.Props, t, cs.call.Pos(), c.Text)
		st.assume(t)
	}
	pre := st.clone()
	u.tick(st)
	// frame
	if len(fc.Spec.Modifies) == 0 && !fc.Pure {
		u.havocHeap(st, func(string) bool { return true })
	}
	for _, c := range fc.Spec.Modifies {
		u.havocModifies(st, pre, env, c)
	}
	results := u.freshResults(st, sig, fn.Name())
	for _, r := range results {
		u.refFacts(st, r, st.clock)
	}
	renv := map[string]Value{}
	for k, v := range env {
		renv[k] = v
	}
	for i, r := range results {
		rn := sig.Results().At(i).Name()
		if fc.HasSig && i < len(fc.Results) {
			rn = fc.Results[i]
		}
		if rn != "" && rn != "_" {
			renv[rn] = r
		}
		// the name the result had at baseline time (see resultEnv)
		if rs, ok := u.eng.localsBase[funcKey(fn)+"#results"]; ok && len(rs) == len(results) && rs[i].Name != "" && rs[i].Name != "_" {
			if _, taken := renv[rs[i].Name]; !taken {
				renv[rs[i].Name] = r
			}
		}
		renv[fmt.Sprintf("r%d", i)] = r
		if isErrorType(r.T) {
			if _, ok := renv["err"]; !ok {
				renv["err"] = r
			}
		}
	}
	for _, c := range fc.Spec.Ensures {
		st.assume(u.specBool(st, pre, renv, c.Expr, c))
	}
	return results
}

// callName names a call site in obligation names: the called name without the receiver / package expression
// (a.b.F(), tmp.F() and F() are all "F": introducing or removing a temporary must not rename obligations).
func (u *Unit) callName(call *ast.CallExpr) string {
	if n, ok := u.calleeAlias[call]; ok {
		return n
	}
	switch f := ast.Unparen(call.Fun).(type) {
	case *ast.SelectorExpr:
		return f.Sel.Name
	case *ast.Ident:
		return f.Name
	}
	return exprText(call.Fun)
}

// havocModifies forgets the locations named by a modifies clause:
//   modifies x.f, y.g[i], $ghost, x.$gf, mem(x) (the backing array of slice x), heap(T.f), all
func (u *Unit) havocModifies(st, pre *State, env map[string]Value, c *Clause) {
	for _, item := range splitTopCommas(c.Text) {
		item = strings.TrimSpace(item)
		switch {
		case item == "" || item == "nothing":
		case item == "all":
			u.havocHeap(st, func(string) bool { return true })
		case strings.HasPrefix(item, "heap(") && strings.HasSuffix(item, ")"):
			tf := item[5 : len(item)-1]
			i := strings.LastIndex(tf, ".")
			pref := "F:" + tf[:i] + ":" + tf[i+1:]
			u.havocHeap(st, func(k string) bool { return k == pref || strings.HasPrefix(k, pref+".") || strings.HasPrefix(k, pref+"[") })
		case strings.HasPrefix(item, "allmem(") && strings.HasSuffix(item, ")"):
			pref := "M:" + item[7:len(item)-1] + ":"
			u.havocHeap(st, func(k string) bool { return strings.HasPrefix(k, pref) })
		case strings.HasPrefix(item, "maps(") && strings.HasSuffix(item, ")"):
			mk := mapsKey(item)
			u.havocHeap(st, func(k string) bool { return k == "MD:"+mk || strings.HasPrefix(k, "MV:"+mk+":") })
		case strings.HasPrefix(item, "mem(") && strings.HasSuffix(item, ")"):
			ex, err := ParseSpec(item[4 : len(item)-1])
			if err != nil {
				panic(engineError(fmt.Sprintf("%s:%d: %v", shortFile(c.File), c.Line, err)))
			}
			v := u.specValAt(st, pre, env, ex, c, token.NoPos)
			if !v.isSlice() {
				panic(engineError(fmt.Sprintf("%s:%d: mem() of non-slice", shortFile(c.File), c.Line)))
			}
			elem := v.T.Underlying().(*types.Slice).Elem()
			for _, l := range flatten(elem) {
				key := mKey(typeKey(elem), l.Path)
				arr := u.heapArr(st, key, ArrSort(SInt, ArrSort(SInt, l.Sort)))
				old := Select(arr, v.base())
				nw := u.d.Fresh("modmem", ArrSort(SInt, l.Sort))
				j := Term{"j!mm", SInt}
				// only the window [off, off+len) may change
				st.assume(Forall([]Term{j}, Imp(Or(Lt(j, v.off()), Ge(j, Add(v.off(), v.slen()))), Eq(Select(nw, j), Select(old, j)))))
				st.heap[key] = Store(arr, v.base(), nw)
			}
		default:
			ex, err := ParseSpec(item)
			if err != nil {
				panic(engineError(fmt.Sprintf("%s:%d: %v", shortFile(c.File), c.Line, err)))
			}
			sg, ok := ex.(*SGo)
			if !ok {
				panic(engineError(fmt.Sprintf("%s:%d: bad modifies item %q", shortFile(c.File), c.Line, item)))
			}
			sc := &specCtx{u: u, st: st, cur: pre, old: pre, env: env, bound: map[string]Value{}, c: c, fr: u.top()}
			lv, ok := sc.lv(sg.E, sg.Subs)
			if !ok {
				panic(engineError(fmt.Sprintf("%s:%d: modifies item %q is not a location", shortFile(c.File), c.Line, item)))
			}
			if lv.kind == lvGhostVar {
				u.store(st, lv, u.freshValue(st, "mod_"+lv.name, lv.T))
				continue
			}
			nv := u.freshValue(st, "mod", lv.T)
			u.store(st, lv, nv)
		}
	}
}

// mapsKey: "maps(map[K]V)" names every Go map of that type (type key as printed by typeKey).
func mapsKey(item string) string {
	return strings.TrimSuffix(strings.TrimPrefix(item, "maps("), ")")
}

func splitTopCommas(s string) []string {
	var out []string
	d := 0
	last := 0
	for i := 0; i < len(s); i++ {
		switch s[i] {
		case '(', '[', '{':
			d++
		case ')', ']', '}':
			d--
		case ',':
			if d == 0 {
				out = append(out, s[last:i])
				last = i + 1
			}
		}
	}
	return append(out, s[last:])
}

// applyOnCall asserts the enclosing function's "oncall PATTERN: requires P" clauses.
func (u *Unit) applyOnCall(st *State, cs *callSite) {
	fr := u.frames[0]
	if len(u.frames) > 1 {
		// inlined callee frames inherit the unit's oncall clauses as well
	}
	spec := u.spec
	if spec == nil {
		spec = fr.spec
	}
	if spec == nil {
		return
	}
	name := funcKey(cs.fn)
	short := cs.fn.Name()
	for i, c := range spec.OnCall {
		pat := c.Arg
		if i := strings.LastIndex(pat, "#"); i > 0 {
			// NAME#k: only the k-th call of NAME in the function body (source order)
			k, err := strconv.Atoi(pat[i+1:])
			if err == nil {
				if u.callOrdinal(cs.call, short) != k {
					continue
				}
				pat = pat[:i]
			}
		}
		match := pat == name || pat == short || pat == "*."+short || (strings.HasSuffix(pat, ".*") && strings.HasPrefix(name, strings.TrimSuffix(pat, "*")))
		if !match && isInterface(cs.sigRecvType()) {
			match = pat == typeKey(cs.sigRecvType())+"."+short
		}
		if !match {
			continue
		}
		u.eng.oncallHit.Store(c, true)
		if u.clauseFired == nil {
			u.clauseFired = map[*Clause]bool{}
		}
		u.clauseFired[c] = true
		env := u.specEnvAt(st)
		if cs.recv != nil {
			env["$recv"] = *cs.recv
		}
		for k, a := range cs.args {
			env[fmt.Sprintf("$arg%d", k)] = a
		}
		// names in the clause are resolved in the function the clause belongs to: for a call made
		// inside an inlined callee that is the position of the outermost call site
		pos := cs.call.Pos()
		var t Term
		if len(u.frames) > 1 && len(u.inlineSites) > 0 {
			saved := u.frames
			u.frames = u.frames[:1]
			t = u.specBoolAt(st, u.old, env, c.Expr, c, u.inlineSites[0])
			u.frames = saved
		} else {
			t = u.specBoolAt(st, u.old, env, c.Expr, c, pos)
		}
		u.oblige(st, fmt.Sprintf("oncall#%d:%s@%s", i+1, pat, u.callName(cs.call)), "oncall", c.Props, t, cs.call.Pos(), c.Text)
	}
}

// callMods contributes the effects of a call inside a loop body to the loop's modified set.
func (u *Unit) callMods(call *ast.CallExpr, m *modSet) {
	info := u.top().info
	if tv, ok := info.Types[call.Fun]; ok && tv.IsType() {
		return
	}
	callee := typeutil.Callee(info, call)
	switch c := callee.(type) {
	case *types.Builtin:
		switch c.Name() {
		case "append", "copy":
			if t := info.TypeOf(call.Args[0]); t != nil {
				if sl, ok := t.Underlying().(*types.Slice); ok {
					m.keys = append(m.keys, "M:"+typeKey(sl.Elem())+":")
				}
			}
		case "delete":
			if t := info.TypeOf(call.Args[0]); t != nil {
				m.keys = append(m.keys, "MD:"+typeKey(t), "MV:"+typeKey(t)+":")
			}
		case "make":
			if t := info.TypeOf(call.Args[0]); t != nil {
				switch tt := t.Underlying().(type) {
				case *types.Slice:
					m.allocKeys = append(m.allocKeys, "M:"+typeKey(tt.Elem())+":")
				case *types.Map:
					m.allocKeys = append(m.allocKeys, "MD:"+typeKey(t))
				}
			}
		case "new":
			if t := info.TypeOf(call.Args[0]); t != nil {
				m.allocKeys = append(m.allocKeys, "F:"+typeKey(t)+":")
			}
		}
		return
	case *types.Func:
		origin := c.Origin()
		if pk := c.Pkg(); pk != nil {
			if pureExternalPkgs[pk.Path()] {
				return
			}
			switch pk.Path() {
			case "sync":
				// lock state lives in a struct field: handled as assignment to that field
				if sel, ok := ast.Unparen(call.Fun).(*ast.SelectorExpr); ok {
					u.lockMods(sel, m)
				}
				return
			}
		}
		if fc, ok := u.eng.contracts[origin]; ok && !fc.Inline {
			if fc.Pure && len(fc.Spec.Modifies) == 0 {
				return
			}
			if len(fc.Spec.Modifies) == 0 {
				m.all = true
				return
			}
			for _, c := range fc.Spec.Modifies {
				for _, item := range splitTopCommas(c.Text) {
					item = strings.TrimSpace(item)
					switch {
					case item == "all":
						m.all = true
					case item == "" || item == "nothing":
					case strings.HasPrefix(item, "$"):
						m.ghost[strings.TrimPrefix(item, "$")] = true
					case strings.Contains(item, ".$"):
						m.ghost[item[strings.Index(item, ".$")+2:]] = true
					case strings.HasPrefix(item, "heap("):
						tf := item[5 : len(item)-1]
						i := strings.LastIndex(tf, ".")
						m.keys = append(m.keys, "F:"+tf[:i]+":"+tf[i+1:])
					case strings.HasPrefix(item, "allmem("):
						m.keys = append(m.keys, "M:"+item[7:len(item)-1]+":")
					case strings.HasPrefix(item, "maps("):
						m.keys = append(m.keys, "MD:"+mapsKey(item), "MV:"+mapsKey(item)+":")
					default:
						// a concrete location: over-approximate by its field / element class
						ks := u.modItemKeys(origin, fc, item)
						if u.modItemLocal(call, origin, fc, item, m) {
							m.allocKeys = append(m.allocKeys, ks...)
						} else {
							m.keys = append(m.keys, ks...)
						}
					}
				}
			}
			return
		}
		if fi, ok := u.eng.funcs[origin]; ok && (u.inlinable(fi) || (u.eng.contracts[origin] != nil && u.eng.contracts[origin].Inline)) {
			// effects of the inlined body
			saved := u.frames
			fr := u.newFrame(origin, origin.Type().(*types.Signature), fi.decl.Body, fi.pkg.TypesInfo, fi.pkg.Types, newUnitSpec(), fi.decl.Type)
			u.frames = append(u.frames, fr)
			u.inlineDepth++
			sub := u.modified(fi.decl.Body)
			u.inlineDepth--
			u.frames = saved
			m.keys = append(m.keys, sub.keys...)
			m.all = m.all || sub.all
			for g := range sub.ghost {
				m.ghost[g] = true
			}
			return
		}
		if _, isRepo := u.eng.funcs[origin]; !isRepo {
			if r, ok := libraryEffects[funcFullName(c)]; ok {
				m.keys = append(m.keys, r...)
				return
			}
		}
		m.all = true
	default:
		// function values: closures defined in this function are analysed via their literal
		if id, ok := ast.Unparen(call.Fun).(*ast.Ident); ok {
			if lit := u.findClosureLit(id); lit != nil {
				sub := u.modified(lit.Body)
				m.keys = append(m.keys, sub.keys...)
				for o := range sub.vars {
					m.vars[o] = true
				}
				m.all = m.all || sub.all
				return
			}
		}
		m.all = true
	}
}

func funcFullName(fn *types.Func) string { return fn.FullName() }

// libraryEffects: heap key prefixes written by modelled library functions (empty = none).
var libraryEffects = map[string][]string{
	"(*golang.org/x/sync/errgroup.Group).Go":   {},
	"(*golang.org/x/sync/errgroup.Group).Wait": nil,
	"(context.Context).Done":                    {},
	"(context.Context).Err":                     {},
	"sort.Search":                               {},
}

// capturedClosure finds the literal assigned (once) to variable v in an enclosing function.
func (u *Unit) capturedClosure(v *types.Var) *closure {
	for pu := u; pu != nil; pu = pu.parent {
		fr := pu.litFrame
		if fr == nil || fr.body == nil {
			continue
		}
		var found *ast.FuncLit
		n := 0
		ast.Inspect(fr.body, func(x ast.Node) bool {
			as, ok := x.(*ast.AssignStmt)
			if !ok {
				return true
			}
			for i, l := range as.Lhs {
				if lid, ok := l.(*ast.Ident); ok && fr.info.ObjectOf(lid) == v && i < len(as.Rhs) {
					n++
					if lit, ok := as.Rhs[i].(*ast.FuncLit); ok {
						found = lit
					}
				}
			}
			return true
		})
		if found != nil && n == 1 {
			return &closure{lit: found, info: fr.info, pkg: fr.pkg, fr: fr}
		}
	}
	return nil
}

func (u *Unit) findClosureLit(id *ast.Ident) *ast.FuncLit {
	obj := u.top().info.ObjectOf(id)
	if obj == nil {
		return nil
	}
	var found *ast.FuncLit
	ast.Inspect(u.top().body, func(n ast.Node) bool {
		as, ok := n.(*ast.AssignStmt)
		if !ok {
			return true
		}
		for i, l := range as.Lhs {
			if lid, ok := l.(*ast.Ident); ok && u.top().info.ObjectOf(lid) == obj && i < len(as.Rhs) {
				if lit, ok := as.Rhs[i].(*ast.FuncLit); ok {
					found = lit
				}
			}
		}
		return true
	})
	return found
}

// modItemLocal: the modifies item is rooted at a parameter whose actual argument is a
// variable that only holds memory allocated inside the region.
func (u *Unit) modItemLocal(call *ast.CallExpr, fn *types.Func, fc *FuncContract, item string, m *modSet) bool {
	root := item
	if strings.HasPrefix(item, "mem(") {
		root = strings.TrimSuffix(strings.TrimPrefix(item, "mem("), ")")
	}
	if i := strings.IndexAny(root, ".["); i >= 0 {
		root = root[:i]
	}
	sig := fn.Type().(*types.Signature)
	for i := 0; i < sig.Params().Len(); i++ {
		pn := sig.Params().At(i).Name()
		if fc.HasSig && i < len(fc.Params) {
			pn = fc.Params[i]
		}
		if pn == root && i < len(call.Args) {
			if id, ok := ast.Unparen(call.Args[i]).(*ast.Ident); ok {
				return m.local[u.top().info.ObjectOf(id)]
			}
		}
	}
	return false
}

func (u *Unit) modItemKeys(fn *types.Func, fc *FuncContract, item string) []string {
	// item like "c.buf", "s.written", "mem(p)": map the root name to its declared type
	if strings.HasPrefix(item, "mem(") {
		root := strings.TrimSuffix(strings.TrimPrefix(item, "mem("), ")")
		if t := u.contractNameType(fn, fc, root); t != nil {
			if sl, ok := t.Underlying().(*types.Slice); ok {
				return []string{"M:" + typeKey(sl.Elem()) + ":"}
			}
		}
		return []string{"M:"}
	}
	parts := strings.Split(item, ".")
	t := u.contractNameType(fn, fc, parts[0])
	if t == nil || len(parts) < 2 {
		return []string{"F:", "M:", "MV:", "MD:", "G:"}
	}
	if p, ok := t.Underlying().(*types.Pointer); ok {
		t = p.Elem()
	}
	f := parts[1]
	if i := strings.Index(f, "["); i >= 0 {
		f = f[:i]
	}
	return []string{"F:" + typeKey(t) + ":" + f}
}

func (u *Unit) contractNameType(fn *types.Func, fc *FuncContract, name string) types.Type {
	sig := fn.Type().(*types.Signature)
	if r := sig.Recv(); r != nil {
		rn := r.Name()
		if fc.RecvName != "" {
			rn = fc.RecvName
		}
		if rn == name {
			return r.Type()
		}
	}
	for i := 0; i < sig.Params().Len(); i++ {
		pn := sig.Params().At(i).Name()
		if fc.HasSig && i < len(fc.Params) {
			pn = fc.Params[i]
		}
		if pn == name {
			return sig.Params().At(i).Type()
		}
	}
	return nil
}

// ---- defer / go

func (u *Unit) execDefer(st *State, x *ast.DeferStmt) {
	call := x.Call
	info := u.top().info
	fr := u.top()
	if lit, ok := ast.Unparen(call.Fun).(*ast.FuncLit); ok {
		cv := u.closureValue(st, lit)
		cl := u.closures[cv.term().S]
		var args []Value
		for _, a := range call.Args {
			args = append(args, u.eval(st, a))
		}
		st.defers = append(st.defers, &deferEntry{run: func(s *State) []*Out {
			u.frames = append(u.frames, fr)
			u.inlineLit(s, cl, args)
			u.frames = u.frames[:len(u.frames)-1]
			return normal(s)
		}})
		return
	}
	// ordinary call: receiver and arguments are evaluated now, the call runs at return
	callee := typeutil.Callee(info, call)
	fn, _ := callee.(*types.Func)
	if fn == nil {
		u.abstract("deferred call of %s ignored", exprText(call.Fun))
		return
	}
	// evaluate operands now by binding them to hidden temporaries: simplest faithful approach
	// is to re-evaluate at return for receivers that are plain variables/fields (no reassignment
	// of those in the repo's deferred calls).
	st.defers = append(st.defers, &deferEntry{run: func(s *State) []*Out {
		u.frames = append(u.frames, fr)
		u.callFunc(s, call, fn)
		u.frames = u.frames[:len(u.frames)-1]
		return normal(s)
	}})
}

func (u *Unit) execGo(st *State, call *ast.CallExpr) {
	if lit, ok := ast.Unparen(call.Fun).(*ast.FuncLit); ok {
		for _, a := range call.Args {
			u.eval(st, a)
		}
		u.spawnLit(st, lit, "go")
		return
	}
	for _, a := range call.Args {
		u.eval(st, a)
	}
	u.abstract("go %s: goroutine body not analysed here", exprText(call.Fun))
	u.havocHeap(st, func(string) bool { return true })
}

// spawnLit registers a function literal as a separate verification unit and havocs what it writes.
func (u *Unit) spawnLit(st *State, lit *ast.FuncLit, how string) {
	fr := u.top()
	ord := fr.litOrd[lit]
	key := fmt.Sprintf("%s/lit%d", u.name, ord)
	found := false
	for _, s := range u.subUnits {
		if s.name == key {
			found = true
		}
	}
	if !found {
		spec := fr.spec.Lits[ord]
		if spec == nil {
			spec = newUnitSpec()
		}
		su := newUnit(u.eng, key, u.pkg)
		su.parent = u
		su.lit = lit
		su.fn = fr.fn
		su.fc = u.fc
		su.spec = spec
		su.props = u.props
		su.checks = u.checks
		u.subUnits = append(u.subUnits, su)
		su.litFrame = fr
		su.capFacts = u.capturedConstFacts(st, lit)
	}
	u.checkLitRequires(st, lit, fr.spec.Lits[ord], ord, how)
	mods := u.modified(lit.Body)
	// the goroutine runs concurrently from here on: what it writes is unknown to this thread
	pm := &modSet{vars: map[types.Object]bool{}, keys: mods.keys, all: mods.all, ghost: mods.ghost}
	// captured variables assigned by the literal
	for obj := range mods.vars {
		if _, ok := st.vars[obj]; ok {
			pm.vars[obj] = true
		}
	}
	u.havocMods(st, pm)
	u.spawned = append(u.spawned, pm)
}

// checkLitRequires: the literal's unit assumes its requires clauses; those that speak about captured
// variables, ghosts or the heap (not about the literal's own parameters, which its caller supplies) are
// obligations of the function that creates the literal, in the state at that point. A clause over the
// literal's parameters remains an assumption about whoever calls the closure (a library: listed), and
// held(...) of a new goroutine is its own, empty, lock set.
func (u *Unit) checkLitRequires(st *State, lit *ast.FuncLit, spec *UnitSpec, ord int, how string) {
	if spec == nil {
		return
	}
	params := map[string]bool{}
	if lit.Type.Params != nil {
		for _, f := range lit.Type.Params.List {
			for _, n := range f.Names {
				params[n.Name] = true
			}
		}
	}
	for i, c := range spec.Requires {
		overParams := false
		for _, id := range specIdents(c.Text) {
			if params[id] {
				overParams = true
			}
		}
		if overParams {
			u.assumptions[fmt.Sprintf("%s/lit%d requires %q: over the literal's own parameters, assumed of the caller of the closure", u.name, ord, c.Text)] = true
			continue
		}
		if strings.Contains(c.Text, "held(") && how != "callback" {
			continue
		}
		t := u.specBoolAt(st, u.old, u.specEnvAt(st), c.Expr, c, lit.Pos())
		u.oblige(st, fmt.Sprintf("lit%d/requires-at-creation#%d", ord, i+1), "requires", c.Props, t, lit.Pos(), c.Text)
	}
}

// runLit verifies a spawned function literal as its own unit.
func (su *Unit) runLit() {
	defer func() {
		if r := recover(); r != nil {
			if eu, ok := r.(engineError); ok {
				su.fail("%s", string(eu))
				return
			}
			panic(r)
		}
	}()
	pf := su.litFrame
	sig := pf.info.TypeOf(su.lit).(*types.Signature)
	fr := su.newFrame(pf.fn, sig, su.lit.Body, pf.info, pf.pkg, su.spec, su.lit.Type)
	su.frames = []*frame{fr}
	st := newState()
	st.clock = su.clk0()
	st.assume(Le(IntLit(0), st.clock))
	for i := 0; i < sig.Params().Len(); i++ {
		p := sig.Params().At(i)
		st.vars[p] = su.freshValue(st, p.Name(), p.Type())
		su.refFacts(st, st.vars[p], st.clock)
	}
	for _, rv := range fr.results {
		st.vars[rv] = su.zeroValue(rv.Type())
	}
	// captured variables: one symbolic value each, fixed at unit entry
	ast.Inspect(su.lit.Body, func(n ast.Node) bool {
		id, ok := n.(*ast.Ident)
		if !ok {
			return true
		}
		v, ok := pf.info.Uses[id].(*types.Var)
		if !ok || v.IsField() || v.Pkg() == nil || v.Parent() == v.Pkg().Scope() {
			return true
		}
		if v.Pos() >= su.lit.Pos() && v.Pos() <= su.lit.End() {
			return true
		}
		if _, have := st.vars[v]; !have {
			st.vars[v] = su.freshValue(st, v.Name(), v.Type())
			su.refFacts(st, st.vars[v], st.clock)
		}
		return true
	})
	// facts the creating function had about captured variables that can not change any more, over parameters it
	// never assigns: restated over this unit's own symbols for those parameters
	for _, f := range su.capFacts {
		val, ok := st.vars[f.v]
		if !ok || f.k >= len(val.L) {
			continue
		}
		toks := append([]string(nil), f.toks...)
		okAll := true
		for i, r := range f.refs {
			pv, have := st.vars[r.p]
			if !have {
				pv = su.freshValue(st, r.p.Name(), r.p.Type())
				st.vars[r.p] = pv
				su.refFacts(st, pv, st.clock)
			}
			if r.k >= len(pv.L) || strings.ContainsAny(pv.L[r.k].S, " ()") {
				okAll = false
				break
			}
			toks[i] = pv.L[r.k].S
		}
		if okAll {
			st.assume(Eq(val.L[f.k], Term{joinSMT(toks), f.sort}))
			su.abstractions[fmt.Sprintf("captured variable %s: its value at the creation of the literal (fixed from there on) handed down from %s", f.v.Name(), su.parent.name)] = true
		}
	}
	su.boxEscaping(st, fr)
	su.assumeAxioms(st)
	// captured variables are symbolic; requires may constrain them
	env := map[string]Value{}
	for i := 0; i < sig.Params().Len(); i++ {
		p := sig.Params().At(i)
		env[p.Name()] = st.vars[p]
	}
	su.entryNames = env
	for _, c := range su.spec.Requires {
		st.assume(su.specBoolAt(st, st, env, c.Expr, c, su.lit.Body.Lbrace))
	}
	su.old = st.clone()
	su.cover(st, "requires.sat", nil, token.NoPos)
	su.runAnchorsNamed(st, "entry", su.lit.Body.Pos(), nil)
	su.runBody(st, fr, su.lit.Body.Pos())
	su.unfiredClauses()
}

// ---- channels

func (u *Unit) chanKey(e ast.Expr) string {
	return u.stableText(exprText(e)) // in the vocabulary of the baseline (renamed channel variables)
}

// chanRecvFacts: a received value satisfies the channel invariant "chan NAME: P(v)".
func (u *Unit) chanRecvFacts(st *State, chExpr ast.Expr, ch Value, v Value) {
	name := u.chanKey(chExpr)
	for _, c := range u.chanInvs(name) {
		env := u.specEnvAt(st)
		env["v"] = v
		st.assume(u.specBoolAt(st, u.old, env, c.Expr, c, chExpr.Pos()))
	}
}

func (u *Unit) chanInvs(name string) []*Clause {
	var out []*Clause
	specs := []*UnitSpec{u.spec}
	if u.parent != nil {
		specs = append(specs, u.parent.spec)
	}
	for _, sp := range specs {
		if sp == nil {
			continue
		}
		for _, c := range sp.Chans {
			if c.Arg == name {
				out = append(out, c)
			}
		}
	}
	return out
}

func (u *Unit) execSend(st *State, x *ast.SendStmt) {
	ch := u.eval(st, x.Chan)
	v := u.eval(st, x.Value)
	_ = ch
	name := u.chanKey(x.Chan)
	for i, c := range u.chanInvs(name) {
		env := u.specEnvAt(st)
		env["v"] = v
		t := u.specBoolAt(st, u.old, env, c.Expr, c, x.Pos())
		u.oblige(st, fmt.Sprintf("chaninv:%s#%d", name, i+1), "chaninv", c.Props, t, x.Pos(), c.Text)
	}
	u.runAnchorsNamed(st, "send:"+name, x.Pos(), map[string]Value{"v": v})
}

func (u *Unit) chanClosed(st *State, e ast.Expr, ch Value) {
	u.runAnchorsNamed(st, "close:"+u.chanKey(e), e.Pos(), nil)
}

// ---- ghost statements at anchors

// runAnchors executes ghost statements anchored "before call NAME" style is handled in
// runAnchorsNamed; statement-level anchors are matched by statement kind.
func (u *Unit) runAnchors(st *State, when string, s ast.Stmt) {
	if len(u.frames) != 1 {
		return
	}
	switch x := s.(type) {
	case *ast.ReturnStmt:
		u.runAnchorsNamed(st, "return", x.Pos(), nil)
	}
}

// anchorsApply: call anchors (before:/after:) fire for calls made by the function under contract itself and
// by contract-less helpers inlined into it (as oncall clauses do); clause names are resolved in the function
// under contract, at the position of the outermost call site.
func (u *Unit) anchorsApply() bool {
	for _, fr := range u.frames[1:] {
		if !fr.transparent {
			return false
		}
	}
	return len(u.frames) == 1 || len(u.inlineSites) > 0
}

func (u *Unit) runAnchorsNamed(st *State, anchor string, pos token.Pos, extra map[string]Value) {
	if u.spec == nil {
		return
	}
	if len(u.frames) > 1 {
		if !u.anchorsApply() {
			return
		}
		saved := u.frames
		u.frames = u.frames[:1]
		defer func() { u.frames = saved }()
		pos = u.inlineSites[0]
	}
	// ghost statements and assertions at the same anchor run in contract-file order
	var cs []*Clause
	stable := u.stableText(anchor) // the anchor in the vocabulary of the baseline (renamed locals)
	for _, c := range u.spec.Ghost {
		if c.Arg == anchor || c.Arg == stable {
			cs = append(cs, c)
		}
	}
	for _, c := range u.spec.Asserts {
		if c.Arg == anchor || c.Arg == stable {
			cs = append(cs, c)
		}
	}
	sort.SliceStable(cs, func(i, j int) bool { return cs[i].Line < cs[j].Line })
	for _, c := range cs {
		env := u.specEnvAt(st)
		for k, v := range extra {
			env[k] = v
		}
		switch c.Kind {
		case "ghost":
			pair := c.Expr.([2]SpecExpr)
			rv := u.specValAt(st, u.old, env, pair[1], c, pos)
			sg, ok := pair[0].(*SGo)
			if !ok {
				panic(engineError(fmt.Sprintf("%s:%d: bad ghost assignment target", shortFile(c.File), c.Line)))
			}
			sc := &specCtx{u: u, st: st, cur: st, old: u.old, env: env, bound: map[string]Value{}, c: c, fr: u.top(), pos: pos}
			if ix, isIx := ast.Unparen(sg.E).(*ast.IndexExpr); isIx {
				// $m[k] = v on a ghost map: the whole map is replaced by its update
				if bv := sc.goExpr(ix.X, sg.Subs); bv.T != nil {
					if _, isGM := bv.T.(*GhostMap); isGM {
						if blv, ok := sc.lv(ix.X, sg.Subs); ok {
							iv := sc.goExpr(ix.Index, sg.Subs)
							nv := bv
							nv.L = []Term{Store(bv.term(), iv.term(), rv.term())}
							u.store(st, blv, nv)
							continue
						}
					}
				}
			}
			lv, ok := sc.lv(sg.E, sg.Subs)
			if !ok {
				panic(engineError(fmt.Sprintf("%s:%d: ghost assignment target is not a location", shortFile(c.File), c.Line)))
			}
			if len(rv.L) == len(flatten(lv.T)) {
				rv.T = lv.T
			}
			u.store(st, lv, rv)
		case "use":
			sg, ok := c.Expr.(*SGo)
			var call *ast.CallExpr
			if ok {
				call, ok = sg.E.(*ast.CallExpr)
			}
			if !ok {
				panic(engineError(fmt.Sprintf("%s:%d: use@ needs axiomName(args)", shortFile(c.File), c.Line)))
			}
			name := exprText(call.Fun)
			var ax *Axiom
			for _, a := range u.eng.cf.Axioms {
				if a.Name == name && !a.Lemma {
					ax = a
				}
			}
			if ax == nil {
				panic(engineError(fmt.Sprintf("%s:%d: use@: no axiom %q", shortFile(c.File), c.Line, name)))
			}
			q, isQ := ax.Expr.(*SQuant)
			if !isQ || !q.Forall || len(q.Vars) != len(call.Args) {
				panic(engineError(fmt.Sprintf("%s:%d: use@: axiom %s does not take %d arguments", shortFile(c.File), c.Line, name, len(call.Args))))
			}
			for k, a := range call.Args {
				env[q.Vars[k].Name] = u.specValAt(st, u.old, env, &SGo{E: a, Subs: sg.Subs}, c, pos)
			}
			u.eng.axiomsUsed.Store(ax.Name, true)
			ac := &Clause{Text: ax.Text, File: ax.File, Line: ax.Line}
			st.assume(u.specBoolAt(st, u.old, env, q.Body, ac, pos))
		case "assume":
			t := u.specBoolAt(st, u.old, env, c.Expr, c, pos)
			st.assume(t)
			u.assumptions[fmt.Sprintf("assume@%s in %s: %s", anchor, u.name, c.Text)] = true
		default:
			t := u.specBoolAt(st, u.old, env, c.Expr, c, pos)
			idx := 0
			for k, a := range u.spec.Asserts {
				if a == c {
					idx = k + 1
				}
			}
			if u.clauseFired == nil {
				u.clauseFired = map[*Clause]bool{}
			}
			u.clauseFired[c] = true
			u.oblige(st, fmt.Sprintf("assert#%d@%s", idx, c.Arg), "assert", c.Props, t, pos, c.Text)
			st.assume(t)
		}
	}
}

// closureAnchors runs the before:/after: anchors named after a closure variable ($a0.. are the arguments).
func (u *Unit) closureAnchors(st *State, anchor string, call *ast.CallExpr, args []Value) {
	if len(u.frames) != 1 {
		return
	}
	extra := map[string]Value{}
	for i, a := range args {
		extra[fmt.Sprintf("$a%d", i)] = a
	}
	u.runAnchorsNamed(st, anchor, call.Pos(), extra)
}

// callOrdinal numbers the calls of a function with the given short name in the current body (1-based,
// source order, not descending into function literals' own ordinals).
func (u *Unit) callOrdinal(call *ast.CallExpr, short string) int {
	fr := u.top()
	if fr == nil || fr.body == nil {
		return 0
	}
	n, found := 0, 0
	ast.Inspect(fr.body, func(x ast.Node) bool {
		if c, ok := x.(*ast.CallExpr); ok && found == 0 {
			nm := ""
			switch f := ast.Unparen(c.Fun).(type) {
			case *ast.Ident:
				nm = f.Name
			case *ast.SelectorExpr:
				nm = f.Sel.Name
			}
			if nm == short {
				n++
				if c == call {
					found = n
				}
			}
		}
		return true
	})
	return found
}

// unfiredClauses: an assert@anchor or oncall clause whose point does not occur in the body holds vacuously; it
// gets a marker obligation (trivially true, the name the real one would have plus "?absent") so that the ledger
// knows the clause was there without a site - when such a point appears later (a break out of a loop the contract
// says is never left that way, a call the contract constrains) and the clause fails there, that counts like an
// obligation of the unchanged tree failing. (A site that disappears is still a vanished obligation: the marker
// has a different name.)
func (u *Unit) unfiredClauses() {
	if u.spec == nil {
		return
	}
	for k, c := range u.spec.Asserts {
		if c.Kind != "assert" || u.clauseFired[c] {
			continue
		}
		if msg := u.chanAnchorGone(c.Arg); msg != "" {
			// the channel expression of the anchor names a variable that the body no longer declares with such a
			// field (renamed while another variable of that name exists): the contract is stale, not violated
			u.fail("%s", msg)
			continue
		}
		u.oblige(newState(), fmt.Sprintf("assert#%d@%s?absent", k+1, c.Arg), "assert", c.Props, TTrue, 0, c.Text+" (no such point in the body)")
	}
	for i, c := range u.spec.OnCall {
		if u.clauseFired[c] {
			continue
		}
		pat := c.Arg
		if j := strings.LastIndex(pat, "#"); j > 0 {
			if _, err := strconv.Atoi(pat[j+1:]); err == nil {
				pat = pat[:j]
			}
		}
		if strings.HasSuffix(pat, "*") {
			continue
		}
		short := pat
		if j := strings.LastIndex(short, "."); j >= 0 {
			short = short[j+1:]
		}
		u.oblige(newState(), fmt.Sprintf("oncall#%d:%s@%s?absent", i+1, pat, short), "oncall", c.Props, TTrue, 0, c.Text+" (no such call in the body)")
	}
}

func specIsEmpty(sp *UnitSpec) bool {
	return sp == nil || (len(sp.Requires) == 0 && len(sp.Ensures) == 0 && len(sp.OnCall) == 0 && len(sp.Ghost) == 0 &&
		len(sp.Asserts) == 0 && len(sp.Loops) == 0 && len(sp.Labels) == 0 && len(sp.Lits) == 0 && len(sp.Chans) == 0)
}


// chanAnchorGone: for an anchor "send:x.f" / "recv:x.f" / "close:x.f" that matched no statement, is there still a
// variable x declared in the unit's body (or among its parameters) whose type has a field or method f? If not, the
// anchor can not refer to anything in this body any more.
func (u *Unit) chanAnchorGone(anchor string) string {
	var txt string
	for _, pre := range []string{"send:", "recv:", "close:"} {
		if strings.HasPrefix(anchor, pre) {
			txt = strings.TrimSuffix(strings.TrimPrefix(anchor, pre), "()")
		}
	}
	if txt == "" || len(u.frames) == 0 {
		return ""
	}
	parts := strings.Split(txt, ".")
	if len(parts) < 2 || !token.IsIdentifier(parts[0]) || !token.IsIdentifier(parts[1]) {
		return ""
	}
	fr := u.frames[0]
	if fr.info == nil || fr.body == nil {
		return ""
	}
	found := false
	ast.Inspect(fr.body, func(n ast.Node) bool {
		id, ok := n.(*ast.Ident)
		if !ok || id.Name != parts[0] {
			return true
		}
		obj := fr.info.Defs[id]
		if obj == nil {
			obj = fr.info.Uses[id]
		}
		if v, ok := obj.(*types.Var); ok {
			if o, _, _ := types.LookupFieldOrMethod(v.Type(), true, fr.pkg, parts[1]); o != nil {
				found = true
			}
		}
		return !found
	})
	if found {
		return ""
	}
	return fmt.Sprintf("unknown field: no variable %s with a field or method %s in the body any more (anchor %s)", parts[0], parts[1], anchor)
}
