package main

// A Unit is one verification unit: a function under contract or one of its function
// literals (goroutine bodies, callbacks). Running a unit symbolically executes the real
// AST and collects obligations.

import (
	"fmt"
	"go/ast"
	"go/token"
	"go/types"
	"sort"
	"strings"

	"golang.org/x/tools/go/packages"
)

type Obligation struct {
	Name   string // logical name, e.g. "VerifyIndex/loop2/preserve"
	Kind   string
	Props  []string
	PC     []Term
	Goal   Term
	Pos    string
	Info   string
	Unit   *Unit
	New    bool // safety site (not contract-level)
	Vars   map[string]string // model variable -> description, for replay
	Cover  bool              // satisfiability cover: expected SAT
	Result *SolveResult
}

type frame struct {
	fn      *types.Func
	sig     *types.Signature
	results []*types.Var
	info    *types.Info
	pkg     *types.Package
	saved   []*deferEntry
	spec    *UnitSpec
	loopOrd map[ast.Node]int
	litOrd  map[*ast.FuncLit]int
	callOrd map[*ast.CallExpr]int
	body    *ast.BlockStmt
	inline  bool
	transparent bool // inlined contract-less helper: the unit's call anchors apply to the calls it makes
	labels  map[string]ast.Stmt
	localAllocs map[types.Object]bool
	escPos      map[types.Object]token.Pos // see escapePositions
}

type Unit struct {
	inComm int // >0 while the comm statement of a select clause is executed
	defs map[string]Term // named intermediate values (nameBig): name -> the term it stands for
	eng     *Engine
	name    string
	fn      *types.Func
	fc      *FuncContract
	spec    *UnitSpec
	pkg     *packages.Package
	d       *Decls
	obls    []*Obligation
	old     *State
	frames  []*frame
	bv      bool
	strLits map[string]Term
	closures map[string]*closure
	abstractions map[string]bool
	assumptions  map[string]bool
	stubsUsed    map[string]bool
	havocEpoch   int
	checks  map[string]bool
	allocs  []Term
	inlineDepth int
	subUnits []*Unit
	lit     *ast.FuncLit
	parent  *Unit
	props   []string
	nObl    map[string]int
	failed  []string // engine-level problems (unsupported constructs)
	paths   int
	ghostLocals map[string]types.Type
	entryNames map[string]Value
	quantVars map[string]Value
	curPos  token.Pos
	curStmt token.Pos // position of the statement of the function under contract being executed (top frame only)
	nextHavoc  int
	axiomTerms []axiomTerm
	litFrame   *frame
	spawned    []*modSet
	locks      []lockLoc
	rangeStack []Term
	sentinels  map[string]Term
	lockSnaps  map[string]*State
	inlineSites []token.Pos // call positions (outermost first) of the inlined callees being executed
	rootFn      *types.Func // the function under contract this unit (or literal unit) belongs to
	shape       *bodyShape // loops / literals of this unit's own body (current tree)
	goneLoops   []int      // baseline loop ordinals without a counterpart in the current body
	goneLits    []int
	capFacts    []capFact // literal units: facts about captured variables handed down by the creating function
	calleeAlias map[*ast.CallExpr]string // call through a function variable, while dispatched to one of its targets
	funcConsts  map[string]*types.Func // constants standing for top-level functions used as values
	clauseFired map[*Clause]bool // assert@ / oncall clauses that met at least one point of the body
	newHelpers  []string // callees without contract, not inlinable, that did not exist in the baseline
	curBin      string // source text of the binary expression being evaluated (obligation names)
	loopRegion  bool // modified() is computing a loop's modified set
	forceInline map[*types.Func]bool // bounded units: inline these (recursive) callees instead of using contracts
	boundedNote string
}

type closure struct {
	lit  *ast.FuncLit
	info *types.Info
	pkg  *types.Package
	fr   *frame
}

func (u *Unit) top() *frame { return u.frames[len(u.frames)-1] }

func (u *Unit) pos(p token.Pos) string {
	if !p.IsValid() {
		return ""
	}
	ps := u.eng.fset.Position(p)
	f := ps.Filename
	if i := strings.LastIndex(f, "/repo/"); i >= 0 {
		f = f[i+6:]
	}
	return fmt.Sprintf("%s:%d", f, ps.Line)
}

func (u *Unit) abstract(format string, a ...interface{}) {
	u.abstractions[fmt.Sprintf(format, a...)] = true
}

func (u *Unit) fail(format string, a ...interface{}) {
	msg := fmt.Sprintf(format, a...)
	for _, f := range u.failed {
		if f == msg {
			return
		}
	}
	u.failed = append(u.failed, msg)
}

// oblige records a proof obligation pc ⊢ goal.
func (u *Unit) oblige(st *State, name, kind string, props []string, goal Term, pos token.Pos, info string) {
	// a conjunction is proved conjunct by conjunct (smaller queries, better diagnostics)
	if cs := splitAnd(goal); len(cs) > 1 {
		for _, c := range cs {
			u.oblige(st, name, kind, props, c, pos, info)
		}
		return
	}
	if len(props) == 0 {
		props = u.props
	}
	name = u.stableText(name)
	if u.fc != nil && strings.HasPrefix(name, "pre:") {
		// "nochecks pre:CALLEE@NAME": the callee's precondition is not carried through this function (listed as an assumption)
		for k := range u.fc.NoChecks {
			if strings.HasPrefix(k, "pre:") && (name == k || strings.HasPrefix(name, k+"#")) {
				u.assumptions["precondition of "+strings.TrimPrefix(k, "pre:")+" assumed at its calls in "+u.name+" (nochecks)"] = true
				return
			}
		}
	}
	o := &Obligation{Name: u.name + "/" + name, Kind: kind, Props: props, PC: append([]Term(nil), st.pc...), Goal: goal, Pos: u.pos(pos), Info: info, Unit: u}
	switch kind {
	case "bounds", "div", "nil", "make", "sub", "conv", "overflow", "panic", "assertion", "alloc":
		o.New = true
		if u.fc != nil && u.fc.HasSafety {
			o.Props = u.fc.Safety
			if len(o.Props) == 0 {
				o.Props = []string{"-"}
			}
		}
	}
	u.obls = append(u.obls, o)
}

// splitAnd returns the top-level conjuncts of (and a b ...).
func splitAnd(t Term) []Term {
	if strings.HasPrefix(t.S, "(=> ") {
		// (=> A (and B C)) splits into (=> A B), (=> A C)
		i := len("(=> ")
		j := skipSexp(t.S, i)
		ante := strings.TrimSpace(t.S[i:j])
		k := skipSexp(t.S, j)
		cons := strings.TrimSpace(t.S[j:k])
		if strings.HasPrefix(cons, "(and ") && strings.TrimSpace(t.S[k:]) == ")" {
			var out []Term
			for _, c := range splitAnd(Term{cons, SBool}) {
				out = append(out, Term{"(=> " + ante + " " + c.S + ")", SBool})
			}
			return out
		}
		return []Term{t}
	}
	if !strings.HasPrefix(t.S, "(and ") {
		return []Term{t}
	}
	var out []Term
	i := len("(and ")
	for i < len(t.S)-1 {
		j := skipSexp(t.S, i)
		part := strings.TrimSpace(t.S[i:j])
		if part != "" {
			out = append(out, splitAnd(Term{part, SBool})...)
		}
		i = j
	}
	return out
}

func (u *Unit) cover(st *State, name string, props []string, pos token.Pos) {
	if len(props) == 0 {
		props = u.props
	}
	o := &Obligation{Name: u.name + "/" + name, Kind: "cover", Props: props, PC: append([]Term(nil), st.pc...), Goal: TFalse, Pos: u.pos(pos), Unit: u, Cover: true}
	u.obls = append(u.obls, o)
}

func newUnit(e *Engine, name string, pkg *packages.Package) *Unit {
	return &Unit{eng: e, name: name, pkg: pkg, d: NewDecls(), strLits: map[string]Term{}, closures: map[string]*closure{},
		abstractions: map[string]bool{}, assumptions: map[string]bool{}, stubsUsed: map[string]bool{}, checks: map[string]bool{},
		nObl: map[string]int{}, ghostLocals: map[string]types.Type{}, entryNames: map[string]Value{}, quantVars: map[string]Value{}, sentinels: map[string]Term{}, lockSnaps: map[string]*State{}}
}

func defaultChecks(fc *FuncContract) map[string]bool {
	c := map[string]bool{"bounds": true, "div": true, "make": true, "panic": true}
	if fc != nil {
		for k := range fc.Checks {
			c[k] = true
		}
		for k := range fc.NoChecks {
			delete(c, k)
		}
	}
	return c
}

// ordinals numbers loops, literals and calls of a body in source order (not descending
// into nested function literals).
func ordinals(body ast.Node) (map[ast.Node]int, map[*ast.FuncLit]int, map[*ast.CallExpr]int, map[string]ast.Stmt) {
	loops := map[ast.Node]int{}
	lits := map[*ast.FuncLit]int{}
	calls := map[*ast.CallExpr]int{}
	labels := map[string]ast.Stmt{}
	nl, nf, nc := 0, 0, 0
	var walk func(n ast.Node) bool
	walk = func(n ast.Node) bool {
		switch x := n.(type) {
		case *ast.ForStmt, *ast.RangeStmt:
			nl++
			loops[n] = nl
		case *ast.FuncLit:
			nf++
			lits[x] = nf
			return false
		case *ast.CallExpr:
			nc++
			calls[x] = nc
		case *ast.LabeledStmt:
			labels[x.Label.Name] = x
		}
		return true
	}
	ast.Inspect(body, func(n ast.Node) bool {
		if n == nil {
			return false
		}
		if n == body {
			return true
		}
		return walk(n)
	})
	return loops, lits, calls, labels
}

func (u *Unit) newFrame(fn *types.Func, sig *types.Signature, body *ast.BlockStmt, info *types.Info, pkg *types.Package, spec *UnitSpec, ftype *ast.FuncType) *frame {
	fr := &frame{fn: fn, sig: sig, info: info, pkg: pkg, spec: spec, body: body}
	if body != nil {
		fr.loopOrd, fr.litOrd, fr.callOrd, fr.labels = ordinals(body)
		if len(u.frames) == 0 && u.shape == nil {
			// the unit's own body: remember its shape, and address its loops and literals by the
			// ordinals they had in the baseline
			savedFn := u.fn
			if u.fn == nil {
				u.fn = fn
			}
			sh := u.shapeOf(body, info, fr.loopOrd, fr.litOrd)
			u.fn = savedFn
			u.shape = &sh
			if base, ok := u.eng.shapesBase[u.name]; ok {
				if strings.Join(base.Loops, "\x00") != strings.Join(sh.Loops, "\x00") {
					mp, gone := alignOrdinals(base.Loops, sh.Loops)
					for n, k := range fr.loopOrd {
						fr.loopOrd[n] = mp[k]
					}
					u.goneLoops = gone
				}
				if strings.Join(base.Lits, "\x00") != strings.Join(sh.Lits, "\x00") {
					mp, gone := alignOrdinals(base.Lits, sh.Lits)
					for l, k := range fr.litOrd {
						fr.litOrd[l] = mp[k]
					}
					u.goneLits = gone
				}
			}
			// cut points the contract relies on that are not in the body any more (a labelled retry point
			// rewritten as a loop, a loop under invariant unrolled or merged): everything the unit proves
			// downstream of them rests on those invariants, so the whole unit is stale, not refuted
			if spec != nil {
				for l := range spec.Labels {
					if _, ok := fr.labels[l]; !ok {
						u.failed = append(u.failed, fmt.Sprintf("no such label %s in the body any more (contract has invariants at it)", l))
					}
				}
				for _, k := range u.goneLoops {
					if ls, ok := spec.Loops[k]; ok && len(ls.Invariants) > 0 {
						u.failed = append(u.failed, fmt.Sprintf("has no loop %d any more (contract has invariants for it)", k))
						continue
					}
					pre := fmt.Sprintf("loop%d.", k)
					for _, cs := range [][]*Clause{spec.Ghost, spec.Asserts} {
						for _, c := range cs {
							if strings.HasPrefix(c.Arg, pre) {
								u.failed = append(u.failed, fmt.Sprintf("has no loop %d any more (contract has clauses anchored at it)", k))
							}
						}
					}
				}
			}
		}
	}
	// result variables: named ones from the signature, synthetic otherwise
	res := sig.Results()
	for i := 0; i < res.Len(); i++ {
		v := res.At(i)
		if v.Name() == "" || v.Name() == "_" {
			v = types.NewVar(token.NoPos, pkg, fmt.Sprintf("r%d", i), v.Type())
		}
		fr.results = append(fr.results, v)
	}
	return fr
}

// RunFunc verifies a function under contract.
func (e *Engine) RunFunc(fn *types.Func, fc *FuncContract) (ru *Unit) {
	fi := e.funcs[fn]
	u := newUnit(e, funcKey(fn), fi.pkg)
	ru = u
	u.fn = fn
	u.fc = fc
	u.spec = fc.Spec
	u.props = fc.Props
	u.checks = defaultChecks(fc)
	u.bv = fc.Arith == "bv"
	defer func() {
		if r := recover(); r != nil {
			if eu, ok := r.(engineError); ok {
				u.fail("%s", string(eu))
				return
			}
			// an internal error while executing the body (a construct the value model has no case for, e.g. a map
			// keyed by a struct): the function is outside the supported subset on this tree - reported like any
			// other unsupported construct instead of ending the whole check
			u.fail("outside the supported subset (internal: %v) at %s", r, u.pos(u.curPos))
		}
	}()
	if n := e.staleCallee(fc.Spec); n != "" {
		panic(engineError(fmt.Sprintf("%s:%d: unknown name %q: the contract mentions a callee that is no function in the repository any more", shortFile(fc.File), fc.Line, n)))
	}
	if msg := e.staleChanAnchor(fn, fc.Spec); msg != "" {
		panic(engineError(fmt.Sprintf("%s:%d: unknown field: %s", shortFile(fc.File), fc.Line, msg)))
	}
	sig := fn.Type().(*types.Signature)
	fr := u.newFrame(fn, sig, fi.decl.Body, fi.pkg.TypesInfo, fi.pkg.Types, fc.Spec, fi.decl.Type)
	u.frames = []*frame{fr}
	st := newState()
	st.clock = u.clk0()
	st.assume(Le(IntLit(0), st.clock))
	u.bindEntry(st, fr, sig, fc)
	u.runAnchorsNamed(st, "entry", fi.decl.Body.Pos(), nil)
	u.runBody(st, fr, fi.decl.Body.Pos())
	u.unfiredClauses()
	return u
}

type engineError string

func (u *Unit) unsupported(format string, a ...interface{}) {
	panic(engineError(fmt.Sprintf(format, a...) + " at " + u.pos(u.curPos)))
}

// bindEntry creates symbolic parameters, assumes the preconditions and snapshots the entry state.
func (u *Unit) bindEntry(st *State, fr *frame, sig *types.Signature, fc *FuncContract) {
	if r := sig.Recv(); r != nil {
		v := u.freshValue(st, r.Name(), r.Type())
		u.refFacts(st, v, st.clock)
		st.vars[r] = v
		if isPointer(r.Type()) {
			st.assume(Lt(IntLit(0), v.term())) // methods are verified for non-nil receivers
		}
	}
	for i := 0; i < sig.Params().Len(); i++ {
		p := sig.Params().At(i)
		st.vars[p] = u.freshValue(st, p.Name(), p.Type())
		u.refFacts(st, st.vars[p], st.clock)
	}
	for _, rv := range fr.results {
		st.vars[rv] = u.zeroValue(rv.Type())
	}
	u.boxEscaping(st, fr)
	u.assumeAxioms(st)
	env := u.entryEnv(st, fr, fc)
	for i, c := range fr.spec.Requires {
		t := u.specBool(st, st, env, c.Expr, c)
		st.assume(t)
		_ = i
	}
	u.old = st.clone()
	u.entryNames = env
	// vacuity cover: the preconditions must be satisfiable
	u.cover(st, "requires.sat", nil, token.NoPos)
}

// entryEnv maps contract parameter names to the entry values.
func (u *Unit) entryEnv(st *State, fr *frame, fc *FuncContract) map[string]Value {
	env := map[string]Value{}
	sig := fr.sig
	if r := sig.Recv(); r != nil {
		env[r.Name()] = u.load(st, LV{kind: lvVar, obj: r, T: r.Type()})
		if fc != nil && fc.RecvName != "" {
			env[fc.RecvName] = env[r.Name()]
		}
	}
	for i := 0; i < sig.Params().Len(); i++ {
		p := sig.Params().At(i)
		v := u.load(st, LV{kind: lvVar, obj: p, T: p.Type()})
		env[p.Name()] = v
		if fc != nil && fc.HasSig && i < len(fc.Params) {
			env[fc.Params[i]] = v
		}
	}
	return env
}

// boxEscaping moves address-taken locals (and parameters) of the frame into the heap.
func (u *Unit) boxEscaping(st *State, fr *frame) {
	if fr.body == nil {
		return
	}
	esc := map[types.Object]bool{}
	ast.Inspect(fr.body, func(n ast.Node) bool {
		switch x := n.(type) {
		case *ast.UnaryExpr:
			if x.Op == token.AND {
				if id, ok := ast.Unparen(x.X).(*ast.Ident); ok {
					if obj := fr.info.Uses[id]; obj != nil {
						if _, isVar := obj.(*types.Var); isVar {
							esc[obj] = true
						}
					}
				}
			}
		}
		return true
	})
	for obj := range esc {
		if v, ok := st.vars[obj]; ok {
			ref := u.alloc(st, "box_"+obj.Name())
			st.boxed[obj] = ref
			delete(st.vars, obj)
			u.store(st, LV{kind: lvVar, obj: obj, T: obj.Type()}, v)
		}
	}
	u.top().escaping(esc)
}

var escMap = map[*frame]map[types.Object]bool{}

func (fr *frame) escaping(m map[types.Object]bool) { escMap[fr] = m }
func (fr *frame) escapes(o types.Object) bool      { return escMap[fr][o] }

// alloc returns a fresh, non-nil reference: the allocation clock advances by one, so the
// result differs from every reference that existed before (all of which are <= clock).
func (u *Unit) alloc(st *State, name string) Term {
	if st.clock.S == "" {
		st.clock = u.clk0()
		st.assume(Le(IntLit(0), st.clock))
	}
	r := u.d.Fresh("new_"+name, SInt)
	st.assume(Eq(r, Add(st.clock, IntLit(1))))
	st.clock = r
	u.allocs = append(u.allocs, r)
	return r
}

// runBody executes the frame body and checks the postconditions on every return path.
func (u *Unit) runBody(st *State, fr *frame, pos token.Pos) {
	outs := u.execBlock(st, fr.body.List)
	for _, o := range outs {
		switch o.kind {
		case oNormal, oReturn:
			u.finishReturn(o.st, fr, pos)
		case oPanic:
			// explicit panics are obligations at the panic site
		default:
			u.fail("%s: stray %s out of function body", u.name, o.kindName())
		}
	}
}

// finishReturn runs deferred calls and checks ensures / frame / lock balance.
func (u *Unit) finishReturn(st *State, fr *frame, pos token.Pos) {
	u.paths++
	for _, rs := range u.runDefers(st) {
		u.checkPost(rs, fr, pos)
	}
}

func (u *Unit) runDefers(st *State) []*State {
	cur := []*State{st}
	for len(cur) > 0 {
		// all states share the same defer stack shape (defers pushed before forking are common)
		progressed := false
		var next []*State
		for _, s := range cur {
			if len(s.defers) == 0 {
				next = append(next, s)
				continue
			}
			progressed = true
			d := s.defers[len(s.defers)-1]
			s.defers = s.defers[:len(s.defers)-1]
			if d.guard.S != "" {
				// conditional defer: runs on the paths that registered it
				skip := s.clone()
				skip.assume(Not(d.guard))
				s.assume(d.guard)
				var ran []*State
				for _, o := range d.run(s) {
					if o.kind == oNormal || o.kind == oReturn {
						ran = append(ran, o.st)
					}
				}
				ran = append(ran, skip)
				next = append(next, u.merge(ran))
				continue
			}
			for _, o := range d.run(s) {
				if o.kind == oNormal || o.kind == oReturn {
					next = append(next, o.st)
				}
			}
		}
		cur = next
		if !progressed {
			break
		}
	}
	return cur
}

func (u *Unit) resultEnv(st *State, fr *frame, fc *FuncContract, base map[string]Value) map[string]Value {
	env := map[string]Value{}
	for k, v := range base {
		env[k] = v
	}
	// results that were named at baseline time keep those names in the contract (positionally), whatever the
	// signature calls them now
	if fr.fn != nil && u.lit == nil {
		if rs, ok := u.eng.localsBase[funcKey(fr.fn)+"#results"]; ok && len(rs) == len(fr.results) {
			for i, rv := range fr.results {
				if rs[i].Name != "" && rs[i].Name != "_" && rs[i].Name != rv.Name() {
					env[rs[i].Name] = u.load(st, LV{kind: lvVar, obj: rv, T: rv.Type()})
				}
			}
		}
	}
	for i, rv := range fr.results {
		v := u.load(st, LV{kind: lvVar, obj: rv, T: rv.Type()})
		env[rv.Name()] = v
		env[fmt.Sprintf("r%d", i)] = v
		if fc != nil && fc.HasSig && i < len(fc.Results) {
			env[fc.Results[i]] = v
		}
		if isErrorType(rv.Type()) {
			if _, ok := env["err"]; !ok || rv.Name() == "err" {
				env["err"] = v
			}
		}
	}
	return env
}

func isErrorType(t types.Type) bool {
	n, ok := t.(*types.Named)
	return ok && n.Obj().Pkg() == nil && n.Obj().Name() == "error"
}

func (u *Unit) checkPost(st *State, fr *frame, pos token.Pos) {
	env := u.resultEnv(st, fr, u.fc, u.entryNames)
	for i, c := range fr.spec.Ensures {
		if u.fc != nil && u.fc.AssumeEnsures && u.lit == nil {
			u.assumptions[fmt.Sprintf("ensures of %s assumed (trusted link to the ghost streams): %s", u.name, c.Text)] = true
			continue
		}
		if c.Assumed {
			u.assumptions[fmt.Sprintf("ensures clause of %s assumed, not proved from the body: %s", u.name, c.Text)] = true
			continue
		}
		t := u.specBool(st, u.old, env, c.Expr, c)
		name := fmt.Sprintf("ensures#%d", i+1)
		u.oblige(st, name, "ensures", c.Props, t, pos, c.Text)
	}
	u.checkLockBalance(st, pos)
	u.checkFrame(st, fr, pos)
}

func sortedObls(obls []*Obligation) []*Obligation {
	out := append([]*Obligation(nil), obls...)
	sort.SliceStable(out, func(i, j int) bool { return out[i].Name < out[j].Name })
	return out
}
