package main

// Proof repair search: candidate restatements of a contract's invariants for a body that was restructured
// (see main.go). A candidate is only ever accepted when every obligation of the function is discharged
// with it, so generating too many or odd candidates costs time, not soundness.

import (
	"fmt"
	"go/ast"
	"go/token"
	"go/types"
	"sort"
	"strings"
)

type contractVariant struct {
	fc       *FuncContract
	note     string
	vanishOK string // obligation-name fragment whose ledger entries this variant replaces by others
}

// specIdentsOutsideOld lists the identifiers of a spec text that are not under old(...), not selectors
// (.x), not ghosts ($x) and not in call position.
func specIdentsOutsideOld(text string) []string {
	var out []string
	forEachIdentOutsideOld(text, func(i, j int) {
		out = append(out, text[i:j])
	})
	return out
}

func isIdentStart(c byte) bool { return c == '_' || c >= 'a' && c <= 'z' || c >= 'A' && c <= 'Z' }
func isIdentChar(c byte) bool  { return isIdentStart(c) || c >= '0' && c <= '9' }

func forEachIdentOutsideOld(text string, f func(i, j int)) {
	i := 0
	for i < len(text) {
		c := text[i]
		switch {
		case c == '"':
			i++
			for i < len(text) && text[i] != '"' {
				if text[i] == '\\' {
					i++
				}
				i++
			}
			i++
		case isIdentStart(c):
			j := i
			for j < len(text) && isIdentChar(text[j]) {
				j++
			}
			w := text[i:j]
			k := j
			for k < len(text) && text[k] == ' ' {
				k++
			}
			call := k < len(text) && text[k] == '('
			if w == "old" && call {
				// skip the balanced argument
				depth := 0
				for k < len(text) {
					if text[k] == '(' {
						depth++
					} else if text[k] == ')' {
						depth--
						if depth == 0 {
							k++
							break
						}
					}
					k++
				}
				i = k
				continue
			}
			prev := byte(' ')
			if i > 0 {
				prev = text[i-1]
			}
			if !call && prev != '.' && prev != '$' {
				f(i, j)
			}
			i = j
		default:
			i++
		}
	}
}

func substIdentOutsideOld(text, from, to string) string {
	var b strings.Builder
	last := 0
	forEachIdentOutsideOld(text, func(i, j int) {
		if text[i:j] == from {
			b.WriteString(text[last:i])
			b.WriteString(to)
			last = j
		}
	})
	b.WriteString(text[last:])
	return b.String()
}

// copySpec deep-copies a unit spec; inv rewrites the text of loop / label invariant clauses.
func copySpec(us *UnitSpec, inv func(string) string) (*UnitSpec, error) {
	cp := *us
	cl := func(cs []*Clause, rewrite bool) ([]*Clause, error) {
		var out []*Clause
		for _, c := range cs {
			d := *c
			if rewrite {
				if t := inv(c.Text); t != c.Text {
					ex, err := ParseSpec(t)
					if err != nil {
						return nil, err
					}
					d.Text, d.Expr = t, ex
				}
			}
			out = append(out, &d)
		}
		return out, nil
	}
	cp.Loops = map[int]*LoopSpec{}
	for k, ls := range us.Loops {
		n := *ls
		var err error
		if n.Invariants, err = cl(ls.Invariants, true); err != nil {
			return nil, err
		}
		cp.Loops[k] = &n
	}
	cp.Labels = map[string]*LoopSpec{}
	for k, ls := range us.Labels {
		n := *ls
		var err error
		if n.Invariants, err = cl(ls.Invariants, true); err != nil {
			return nil, err
		}
		cp.Labels[k] = &n
	}
	cp.Lits = map[int]*UnitSpec{}
	for k, sub := range us.Lits {
		n, err := copySpec(sub, inv)
		if err != nil {
			return nil, err
		}
		cp.Lits[k] = n
	}
	return &cp, nil
}

func invariantTexts(us *UnitSpec, out *[]string) {
	for _, ls := range us.Loops {
		for _, c := range ls.Invariants {
			*out = append(*out, c.Text)
		}
	}
	for _, ls := range us.Labels {
		for _, c := range ls.Invariants {
			*out = append(*out, c.Text)
		}
	}
	for _, sub := range us.Lits {
		invariantTexts(sub, out)
	}
}

func (e *Engine) repairVariants(fn *types.Func, fc *FuncContract) []contractVariant {
	fi, ok := e.funcs[fn]
	if !ok || fc == nil || fc.Spec == nil {
		return nil
	}
	var vs []contractVariant
	// (b) a label the contract has invariants at is gone and the body has a loop the baseline did not have:
	// the invariants are tried at that loop's head (ordinal -1 = any loop without a baseline counterpart)
	labels := map[string]bool{}
	ast.Inspect(fi.decl.Body, func(n ast.Node) bool {
		if ls, ok := n.(*ast.LabeledStmt); ok {
			labels[ls.Label.Name] = true
		}
		return true
	})
	for l, lspec := range fc.Spec.Labels {
		if labels[l] || len(lspec.Invariants) == 0 {
			continue
		}
		sp, err := copySpec(fc.Spec, func(t string) string { return t })
		if err != nil {
			continue
		}
		sp.Loops[-1] = sp.Labels[l]
		delete(sp.Labels, l)
		cp := *fc
		cp.Spec = sp
		vs = append(vs, contractVariant{&cp, fmt.Sprintf("the invariants of the vanished label %s are used at the head of the loop that replaced it", l), "/label_" + l + "/"})
	}
	// (c) a loop that is new since the baseline (a tail call turned into iteration): the function's own
	// preconditions are tried as its invariant
	if len(fc.Spec.Requires) > 0 && fc.Spec.Loops[-1] == nil {
		if sp, err := copySpec(fc.Spec, func(t string) string { return t }); err == nil {
			ls := &LoopSpec{}
			for _, c := range fc.Spec.Requires {
				d := *c
				d.Kind = "invariant"
				ls.Invariants = append(ls.Invariants, &d)
			}
			sp.Loops[-1] = ls
			cp := *fc
			cp.Spec = sp
			// a call of the function itself that has become an iteration of the new loop no longer is a call site: the
			// clauses the contract has about such calls (oncall on itself, callee preconditions) are replaced by the
			// preservation of the invariant, which is the same preconditions
			vs = append(vs, contractVariant{&cp, "the function's preconditions are used as the invariant of a loop that is new since the baseline (clauses about calls of the function itself that have become iterations of that loop are covered by the preservation of this invariant only)", ":" + funcKey(fn) + "@" + fn.Name()})
		}
	}
	// (a) an identifier of the invariants replaced by a local that is new since the baseline, same type
	base := e.localsBase[funcKey(fn)]
	if len(base) == 0 {
		return vs
	}
	oldTypes := map[string]map[string]bool{}
	for _, d := range base {
		if oldTypes[d.Name] == nil {
			oldTypes[d.Name] = map[string]bool{}
		}
		oldTypes[d.Name][d.Type] = true
	}
	type nl struct{ name, typ string }
	var news []nl
	seenNew := map[string]bool{}
	for _, d := range e.localDecls(fi) {
		if oldTypes[d.Name] == nil && !seenNew[d.Name] {
			seenNew[d.Name] = true
			news = append(news, nl{d.Name, d.Type})
		}
	}
	if len(news) == 0 {
		return vs
	}
	// a new local that starts a three-clause loop at E and (presumably) counts down: X may have become E - W
	countFrom := map[string]string{}
	ast.Inspect(fi.decl.Body, func(n ast.Node) bool {
		if f, ok := n.(*ast.ForStmt); ok && f.Init != nil {
			if as, ok := f.Init.(*ast.AssignStmt); ok && as.Tok.String() == ":=" && len(as.Lhs) == 1 && len(as.Rhs) == 1 {
				if id, ok := as.Lhs[0].(*ast.Ident); ok && seenNew[id.Name] {
					countFrom[id.Name] = exprText(as.Rhs[0])
				}
			}
		}
		return true
	})
	var texts []string
	invariantTexts(fc.Spec, &texts)
	idents := map[string]bool{}
	for _, t := range texts {
		for _, id := range specIdentsOutsideOld(t) {
			idents[id] = true
		}
	}
	var ids []string
	for id := range idents {
		ids = append(ids, id)
	}
	sort.Strings(ids)
	for _, x := range ids {
		for _, w := range news {
			if !oldTypes[x][w.typ] {
				continue
			}
			x, w := x, w
			sp, err := copySpec(fc.Spec, func(t string) string { return substIdentOutsideOld(t, x, w.name) })
			if err != nil {
				continue
			}
			cp := *fc
			cp.Spec = sp
			vs = append(vs, contractVariant{&cp, fmt.Sprintf("loop invariants restated over the new local %s in place of %s", w.name, x), ""})
			if _, ok := countFrom[w.name]; ok {
				// a loop counter shifted by one (i over len-1..0 became n over len..1, or the other way round)
				for _, repl := range []string{"(" + w.name + " - 1)", "(" + w.name + " + 1)"} {
					repl := repl
					sp3, err := copySpec(fc.Spec, func(t string) string { return substIdentOutsideOld(t, x, repl) })
					if err == nil {
						cp3 := *fc
						cp3.Spec = sp3
						vs = append(vs, contractVariant{&cp3, fmt.Sprintf("loop invariants restated with %s replaced by %s (a loop counter shifted by one)", x, repl), ""})
					}
				}
			}
			if e, ok := countFrom[w.name]; ok {
				repl := "(" + e + " - " + w.name + ")"
				sp2, err := copySpec(fc.Spec, func(t string) string { return substIdentOutsideOld(t, x, repl) })
				if err == nil {
					cp2 := *fc
					cp2.Spec = sp2
					vs = append(vs, contractVariant{&cp2, fmt.Sprintf("loop invariants restated with %s replaced by %s (a counter counting down from %s)", x, repl, e), ""})
				}
			}
		}
	}
	return vs
}

// specIdents lists all identifiers of a spec text (also under old(...)), not selectors, ghosts or callees.
func specIdents(text string) []string {
	var out []string
	i := 0
	for i < len(text) {
		c := text[i]
		switch {
		case c == '"':
			i++
			for i < len(text) && text[i] != '"' {
				if text[i] == '\\' {
					i++
				}
				i++
			}
			i++
		case isIdentStart(c):
			j := i
			for j < len(text) && isIdentChar(text[j]) {
				j++
			}
			k := j
			for k < len(text) && text[k] == ' ' {
				k++
			}
			call := k < len(text) && text[k] == '('
			prev := byte(' ')
			if i > 0 {
				prev = text[i-1]
			}
			if !call && prev != '.' && prev != '$' {
				out = append(out, text[i:j])
			}
			i = j
		default:
			i++
		}
	}
	return out
}

// ---- facts about captured variables that are fixed when a literal is created

// capFact: leaf k of captured variable v equals term, a term over literals, pure functions and leaves of
// parameters of the enclosing function that are never assigned (named by parameter object and leaf index).
type capFact struct {
	v    *types.Var
	k    int
	toks []string // the term, tokenised; tokens that are parameter leaves are replaced when the fact is used
	refs map[int]capRef
	sort Sort
}

type capRef struct {
	p *types.Var
	k int
}

// smtTokens splits an SMT term into tokens (parentheses, |quoted symbols|, atoms); whitespace is dropped and
// re-inserted as single blanks when the term is rebuilt.
func smtTokens(s string) []string {
	var out []string
	i := 0
	for i < len(s) {
		c := s[i]
		switch {
		case c == ' ' || c == '\n' || c == '\t':
			i++
		case c == '(' || c == ')':
			out = append(out, string(c))
			i++
		case c == '|':
			j := i + 1
			for j < len(s) && s[j] != '|' {
				j++
			}
			out = append(out, s[i:j+1])
			i = j + 1
		case c == '"':
			j := i + 1
			for j < len(s) && s[j] != '"' {
				j++
			}
			out = append(out, s[i:j+1])
			i = j + 1
		default:
			j := i
			for j < len(s) && s[j] != ' ' && s[j] != '(' && s[j] != ')' && s[j] != '\n' {
				j++
			}
			out = append(out, s[i:j])
			i = j
		}
	}
	return out
}

func joinSMT(toks []string) string {
	var b strings.Builder
	for i, t := range toks {
		if i > 0 && t != ")" && toks[i-1] != "(" {
			b.WriteByte(' ')
		}
		b.WriteString(t)
	}
	return b.String()
}

var pureSMTOps = map[string]bool{"ite": true, "=": true, "and": true, "or": true, "not": true, "=>": true, "+": true, "-": true,
	"*": true, "<": true, "<=": true, ">": true, ">=": true, "true": true, "false": true, "distinct": true, "sconcat": true,
	"slen": true, "ssub": true, "div": true, "mod": true}

// capturedConstFacts: what the function creating the literal knows, at that point, about captured variables that
// can not change afterwards, expressed over its never-assigned parameters (so that the literal's unit, which has
// its own symbols for those parameters, can use it).
func (u *Unit) capturedConstFacts(st *State, lit *ast.FuncLit) []capFact {
	if len(u.frames) != 1 || u.lit != nil {
		return nil
	}
	fr := u.frames[0]
	if fr.fn == nil || fr.body == nil {
		return nil
	}
	info := fr.info
	// variables assigned (or address-taken, inc/dec'd, range-assigned) anywhere, with positions
	type asg struct{ pos token.Pos }
	assigned := map[types.Object][]token.Pos{}
	note := func(e ast.Expr, pos token.Pos) {
		if id, ok := ast.Unparen(e).(*ast.Ident); ok {
			if obj := info.ObjectOf(id); obj != nil {
				assigned[obj] = append(assigned[obj], pos)
			}
		}
	}
	ast.Inspect(fr.body, func(n ast.Node) bool {
		switch x := n.(type) {
		case *ast.AssignStmt:
			for _, l := range x.Lhs {
				note(l, x.Pos())
			}
		case *ast.IncDecStmt:
			note(x.X, x.Pos())
		case *ast.UnaryExpr:
			if x.Op == token.AND {
				note(x.X, x.Pos())
			}
		case *ast.RangeStmt:
			if x.Key != nil {
				note(x.Key, x.Pos())
			}
			if x.Value != nil {
				note(x.Value, x.Pos())
			}
		}
		return true
	})
	// leaves of parameters / receiver that are never assigned
	sig := fr.fn.Type().(*types.Signature)
	var params []*types.Var
	if sig.Recv() != nil {
		params = append(params, sig.Recv())
	}
	for i := 0; i < sig.Params().Len(); i++ {
		params = append(params, sig.Params().At(i))
	}
	leafOf := map[string]capRef{}
	for _, p := range params {
		if len(assigned[p]) > 0 {
			continue
		}
		pv, ok := st.vars[p]
		if !ok {
			continue
		}
		for k, t := range pv.L {
			if !strings.ContainsAny(t.S, " ()") {
				leafOf[t.S] = capRef{p, k}
			}
		}
	}
	// the literal inside a loop: variables assigned in that loop are not fixed
	var enclosing []ast.Node
	var stack []ast.Node
	ast.Inspect(fr.body, func(n ast.Node) bool {
		if n == nil {
			stack = stack[:len(stack)-1]
			return true
		}
		if n == ast.Node(lit) {
			for _, s := range stack {
				switch s.(type) {
				case *ast.ForStmt, *ast.RangeStmt:
					enclosing = append(enclosing, s)
				}
			}
			return false
		}
		stack = append(stack, n)
		return true
	})
	seen := map[*types.Var]bool{}
	var out []capFact
	ast.Inspect(lit.Body, func(n ast.Node) bool {
		id, ok := n.(*ast.Ident)
		if !ok {
			return true
		}
		v, ok := info.Uses[id].(*types.Var)
		if !ok || v.IsField() || seen[v] || v.Pkg() == nil || v.Parent() == v.Pkg().Scope() {
			return true
		}
		if v.Pos() >= lit.Pos() && v.Pos() <= lit.End() {
			return true
		}
		seen[v] = true
		for _, p := range assigned[v] {
			if p >= lit.Pos() {
				return true // assigned in or after the literal
			}
			for _, l := range enclosing {
				if p >= l.Pos() && p <= l.End() {
					return true
				}
			}
		}
		val, ok := st.vars[v]
		if !ok {
			return true
		}
		if _, boxed := st.boxed[v]; boxed {
			return true
		}
		for k, t := range val.L {
			toks := smtTokens(t.S)
			refs := map[int]capRef{}
			good := len(toks) > 0
			for i, tk := range toks {
				switch {
				case tk == "(" || tk == ")" || pureSMTOps[tk]:
				case strings.HasPrefix(tk, "|str") || strings.HasPrefix(tk, "\""):
				case strings.HasPrefix(tk, "spec_"):
				case len(tk) > 0 && (tk[0] >= '0' && tk[0] <= '9'):
				default:
					if r, ok := leafOf[tk]; ok {
						refs[i] = r
					} else {
						good = false
					}
				}
			}
			if good && len(refs) > 0 {
				out = append(out, capFact{v: v, k: k, toks: toks, refs: refs, sort: t.Sort})
			} else if good && len(toks) == 1 && (strings.HasPrefix(toks[0], "|str") || (toks[0][0] >= '0' && toks[0][0] <= '9') || toks[0] == "true" || toks[0] == "false") {
				out = append(out, capFact{v: v, k: k, toks: toks, refs: refs, sort: t.Sort}) // a constant
			}
		}
		return true
	})
	return out
}
