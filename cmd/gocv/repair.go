package main

// Proof repair search: candidate restatements of a contract's invariants for a body that was restructured
// (see main.go). A candidate is only ever accepted when every obligation of the function is discharged
// with it, so generating too many or odd candidates costs time, not soundness.

import (
	"fmt"
	"go/ast"
	"go/types"
	"sort"
	"strings"
)

type contractVariant struct {
	fc       *FuncContract
	note     string
	vanishOK string // obligation-name fragment whose ledger entries this variant replaces by others
}

// specIdentsOutsideOld lists the identifiers of a spec text that are not under old(...), not selectors
// (.x), not ghosts ($x) and not in call position.
func specIdentsOutsideOld(text string) []string {
	var out []string
	forEachIdentOutsideOld(text, func(i, j int) {
		out = append(out, text[i:j])
	})
	return out
}

func isIdentStart(c byte) bool { return c == '_' || c >= 'a' && c <= 'z' || c >= 'A' && c <= 'Z' }
func isIdentChar(c byte) bool  { return isIdentStart(c) || c >= '0' && c <= '9' }

func forEachIdentOutsideOld(text string, f func(i, j int)) {
	i := 0
	for i < len(text) {
		c := text[i]
		switch {
		case c == '"':
			i++
			for i < len(text) && text[i] != '"' {
				if text[i] == '\\' {
					i++
				}
				i++
			}
			i++
		case isIdentStart(c):
			j := i
			for j < len(text) && isIdentChar(text[j]) {
				j++
			}
			w := text[i:j]
			k := j
			for k < len(text) && text[k] == ' ' {
				k++
			}
			call := k < len(text) && text[k] == '('
			if w == "old" && call {
				// skip the balanced argument
				depth := 0
				for k < len(text) {
					if text[k] == '(' {
						depth++
					} else if text[k] == ')' {
						depth--
						if depth == 0 {
							k++
							break
						}
					}
					k++
				}
				i = k
				continue
			}
			prev := byte(' ')
			if i > 0 {
				prev = text[i-1]
			}
			if !call && prev != '.' && prev != '$' {
				f(i, j)
			}
			i = j
		default:
			i++
		}
	}
}

func substIdentOutsideOld(text, from, to string) string {
	var b strings.Builder
	last := 0
	forEachIdentOutsideOld(text, func(i, j int) {
		if text[i:j] == from {
			b.WriteString(text[last:i])
			b.WriteString(to)
			last = j
		}
	})
	b.WriteString(text[last:])
	return b.String()
}

// copySpec deep-copies a unit spec; inv rewrites the text of loop / label invariant clauses.
func copySpec(us *UnitSpec, inv func(string) string) (*UnitSpec, error) {
	cp := *us
	cl := func(cs []*Clause, rewrite bool) ([]*Clause, error) {
		var out []*Clause
		for _, c := range cs {
			d := *c
			if rewrite {
				if t := inv(c.Text); t != c.Text {
					ex, err := ParseSpec(t)
					if err != nil {
						return nil, err
					}
					d.Text, d.Expr = t, ex
				}
			}
			out = append(out, &d)
		}
		return out, nil
	}
	cp.Loops = map[int]*LoopSpec{}
	for k, ls := range us.Loops {
		n := *ls
		var err error
		if n.Invariants, err = cl(ls.Invariants, true); err != nil {
			return nil, err
		}
		cp.Loops[k] = &n
	}
	cp.Labels = map[string]*LoopSpec{}
	for k, ls := range us.Labels {
		n := *ls
		var err error
		if n.Invariants, err = cl(ls.Invariants, true); err != nil {
			return nil, err
		}
		cp.Labels[k] = &n
	}
	cp.Lits = map[int]*UnitSpec{}
	for k, sub := range us.Lits {
		n, err := copySpec(sub, inv)
		if err != nil {
			return nil, err
		}
		cp.Lits[k] = n
	}
	return &cp, nil
}

func invariantTexts(us *UnitSpec, out *[]string) {
	for _, ls := range us.Loops {
		for _, c := range ls.Invariants {
			*out = append(*out, c.Text)
		}
	}
	for _, ls := range us.Labels {
		for _, c := range ls.Invariants {
			*out = append(*out, c.Text)
		}
	}
	for _, sub := range us.Lits {
		invariantTexts(sub, out)
	}
}

func (e *Engine) repairVariants(fn *types.Func, fc *FuncContract) []contractVariant {
	fi, ok := e.funcs[fn]
	if !ok || fc == nil || fc.Spec == nil {
		return nil
	}
	var vs []contractVariant
	// (b) a label the contract has invariants at is gone and the body has a loop the baseline did not have:
	// the invariants are tried at that loop's head (ordinal -1 = any loop without a baseline counterpart)
	labels := map[string]bool{}
	ast.Inspect(fi.decl.Body, func(n ast.Node) bool {
		if ls, ok := n.(*ast.LabeledStmt); ok {
			labels[ls.Label.Name] = true
		}
		return true
	})
	for l, lspec := range fc.Spec.Labels {
		if labels[l] || len(lspec.Invariants) == 0 {
			continue
		}
		sp, err := copySpec(fc.Spec, func(t string) string { return t })
		if err != nil {
			continue
		}
		sp.Loops[-1] = sp.Labels[l]
		delete(sp.Labels, l)
		cp := *fc
		cp.Spec = sp
		vs = append(vs, contractVariant{&cp, fmt.Sprintf("the invariants of the vanished label %s are used at the head of the loop that replaced it", l), "/label_" + l + "/"})
	}
	// (a) an identifier of the invariants replaced by a local that is new since the baseline, same type
	base := e.localsBase[funcKey(fn)]
	if len(base) == 0 {
		return vs
	}
	oldTypes := map[string]map[string]bool{}
	for _, d := range base {
		if oldTypes[d.Name] == nil {
			oldTypes[d.Name] = map[string]bool{}
		}
		oldTypes[d.Name][d.Type] = true
	}
	type nl struct{ name, typ string }
	var news []nl
	seenNew := map[string]bool{}
	for _, d := range e.localDecls(fi) {
		if oldTypes[d.Name] == nil && !seenNew[d.Name] {
			seenNew[d.Name] = true
			news = append(news, nl{d.Name, d.Type})
		}
	}
	if len(news) == 0 {
		return vs
	}
	// a new local that starts a three-clause loop at E and (presumably) counts down: X may have become E - W
	countFrom := map[string]string{}
	ast.Inspect(fi.decl.Body, func(n ast.Node) bool {
		if f, ok := n.(*ast.ForStmt); ok && f.Init != nil {
			if as, ok := f.Init.(*ast.AssignStmt); ok && as.Tok.String() == ":=" && len(as.Lhs) == 1 && len(as.Rhs) == 1 {
				if id, ok := as.Lhs[0].(*ast.Ident); ok && seenNew[id.Name] {
					countFrom[id.Name] = exprText(as.Rhs[0])
				}
			}
		}
		return true
	})
	var texts []string
	invariantTexts(fc.Spec, &texts)
	idents := map[string]bool{}
	for _, t := range texts {
		for _, id := range specIdentsOutsideOld(t) {
			idents[id] = true
		}
	}
	var ids []string
	for id := range idents {
		ids = append(ids, id)
	}
	sort.Strings(ids)
	for _, x := range ids {
		for _, w := range news {
			if !oldTypes[x][w.typ] {
				continue
			}
			x, w := x, w
			sp, err := copySpec(fc.Spec, func(t string) string { return substIdentOutsideOld(t, x, w.name) })
			if err != nil {
				continue
			}
			cp := *fc
			cp.Spec = sp
			vs = append(vs, contractVariant{&cp, fmt.Sprintf("loop invariants restated over the new local %s in place of %s", w.name, x), ""})
			if e, ok := countFrom[w.name]; ok {
				repl := "(" + e + " - " + w.name + ")"
				sp2, err := copySpec(fc.Spec, func(t string) string { return substIdentOutsideOld(t, x, repl) })
				if err == nil {
					cp2 := *fc
					cp2.Spec = sp2
					vs = append(vs, contractVariant{&cp2, fmt.Sprintf("loop invariants restated with %s replaced by %s (a counter counting down from %s)", x, repl, e), ""})
				}
			}
		}
	}
	return vs
}

// specIdents lists all identifiers of a spec text (also under old(...)), not selectors, ghosts or callees.
func specIdents(text string) []string {
	var out []string
	i := 0
	for i < len(text) {
		c := text[i]
		switch {
		case c == '"':
			i++
			for i < len(text) && text[i] != '"' {
				if text[i] == '\\' {
					i++
				}
				i++
			}
			i++
		case isIdentStart(c):
			j := i
			for j < len(text) && isIdentChar(text[j]) {
				j++
			}
			k := j
			for k < len(text) && text[k] == ' ' {
				k++
			}
			call := k < len(text) && text[k] == '('
			prev := byte(' ')
			if i > 0 {
				prev = text[i-1]
			}
			if !call && prev != '.' && prev != '$' {
				out = append(out, text[i:j])
			}
			i = j
		default:
			i++
		}
	}
	return out
}
