package main

// Bounded stand-in (C13): the array layout produced by bst() is checked for every list length
// n <= N by symbolic execution of the real bst body with concrete lengths and symbolic
// elements (the recursion is unrolled, at most log2(n)+1 deep). Labelled "bounded" in the
// evidence and never counted as an unbounded proof.
//
// Spec (independent of the code): in a complete binary search tree stored in level order in an
// array of n cells, the in-order traversal (left 2i+1, node i, right 2i+2) visits the sorted
// input in order, every cell is written, and no index outside [0,n) is touched.

import (
	"fmt"
	"go/ast"
	"go/types"
	"math/bits"
)

func inorderPositions(n int) []int {
	var out []int
	var walk func(i int)
	walk = func(i int) {
		if i >= n {
			return
		}
		walk(2*i + 1)
		out = append(out, i)
		walk(2*i + 2)
	}
	walk(0)
	return out
}

func (e *Engine) boundedBST(prop string, N int) (ru *Unit) {
	var fn *types.Func
	for f := range e.funcs {
		if f.Name() == "bst" && f.Type().(*types.Signature).Recv() == nil {
			fn = f
		}
	}
	if fn == nil {
		return nil
	}
	fi := e.funcs[fn]
	u := newUnit(e, "bounded/bst", fi.pkg)
	ru = u
	u.props = []string{prop}
	u.checks = map[string]bool{"bounds": true}
	u.forceInline = map[*types.Func]bool{fn: true}
	defer func() {
		if r := recover(); r != nil {
			if eu, ok := r.(engineError); ok {
				u.fail("%s", string(eu))
				return
			}
			panic(r)
		}
	}()
	// the unrolling follows the recursion of bst as it was written at baseline time; a body with a loop in it
	// (a tail call turned into iteration) is outside what this bounded stand-in explores - say so instead of
	// unrolling a loop without bound
	hasLoop := false
	ast.Inspect(fi.decl.Body, func(n ast.Node) bool {
		switch n.(type) {
		case *ast.ForStmt, *ast.RangeStmt:
			hasLoop = true
		}
		return !hasLoop
	})
	if hasLoop {
		u.fail("has no loop-free recursive form any more (bst contains a loop): the bounded unrolling does not apply, its obligations are undecided")
		return u
	}
	sig := fn.Type().(*types.Signature)
	sliceT := sig.Params().At(0).Type()
	elemT := sliceT.Underlying().(*types.Slice).Elem()
	for n := 1; n <= N; n++ {
		st := newState()
		st.clock = u.clk0()
		st.assume(Le(IntLit(0), st.clock))
		u.old = st.clone()
		inBase := u.alloc(st, "in")
		outBase := u.alloc(st, "out")
		nn := IntLit(int64(n))
		in := sliceV(sliceT, inBase, IntLit(0), nn, nn)
		out := sliceV(sliceT, outBase, IntLit(0), nn, nn)
		// out starts as a sentinel different from every input element's Hash field position: zero
		for _, l := range flatten(elemT) {
			key := mKey(typeKey(elemT), l.Path)
			arr := u.heapArr(st, key, ArrSort(SInt, ArrSort(SInt, l.Sort)))
			st.heap[key] = Store(arr, outBase, ConstArr(ArrSort(SInt, l.Sort), u.zeroOfSort(l.Sort, l.T)))
		}
		eVal := int64(bits.Len(uint(n))) // floor(log2 n) + 1
		fr := u.newFrame(fn, sig, fi.decl.Body, fi.pkg.TypesInfo, fi.pkg.Types, newUnitSpec(), fi.decl.Type)
		u.frames = []*frame{{pkg: fi.pkg.Types, info: fi.pkg.TypesInfo, spec: newUnitSpec()}}
		u.inlineDepth = -64
		args := []Value{in, out, intV(IntLit(0)), scalar(sig.Params().At(3).Type(), IntLit(eVal))}
		nObl := len(u.obls)
		u.runInline(st, fr, sig, nil, args)
		for _, o := range u.obls[nObl:] {
			o.Name = "bounded/bst/safety"
		}
		// layout: out[inorder_j] == in[j] for every leaf of the element type
		pos := inorderPositions(n)
		var eqs []Term
		for _, l := range flatten(elemT) {
			key := mKey(typeKey(elemT), l.Path)
			arr := u.heapArr(st, key, ArrSort(SInt, ArrSort(SInt, l.Sort)))
			for j, p := range pos {
				eqs = append(eqs, Eq(Select(Select(arr, outBase), IntLit(int64(p))), Select(Select(arr, inBase), IntLit(int64(j)))))
			}
		}
		u.oblige(st, "layout", "bounded", []string{prop}, And(eqs...), fi.decl.Pos(), fmt.Sprintf("complete-BST layout for n=%d", n))
	}
	u.boundedNote = fmt.Sprintf("bst layout and out[] index safety: bounded, every list length n <= %d (symbolic elements, recursion unrolled)", N)
	return u
}
