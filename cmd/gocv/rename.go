package main

// Rename repair. Contracts live in a comment file and mention locals, parameters and expressions by
// name. The baseline records, per function under contract, the declared variables in source order
// (name and type). On a later tree the current declarations are aligned with the recorded ones; a
// recorded name that is gone, sitting opposite a new name of the same type at the same place of the
// alignment, is a rename. Renames are used (1) to resolve a contract's mention of the old name and
// (2) to keep obligation names and expression-valued anchors (send:ch, bounds@a[i], ...) in the
// vocabulary of the baseline, so that a pure rename neither makes a contract stale nor an
// obligation "vanish". Anything ambiguous is left alone (the contract is then reported stale).

import (
	"encoding/json"
	"go/ast"
	"go/token"
	"go/types"
	"os"
	"path/filepath"
	"sort"
	"strings"
)

type localDecl struct {
	Name string `json:"n"`
	Type string `json:"t"`
}

type renameMaps struct {
	old2new map[string]string
	new2old map[string]string
}

func (e *Engine) loadLocalsBaseline(verifDir string) {
	e.localsBase = map[string][]localDecl{}
	data, err := os.ReadFile(filepath.Join(verifDir, "baseline", "locals.json"))
	if err != nil {
		return
	}
	json.Unmarshal(data, &e.localsBase)
	if data, err := os.ReadFile(filepath.Join(verifDir, "baseline", "funcs.json")); err == nil {
		var names []string
		if json.Unmarshal(data, &names) == nil {
			e.funcsBase = map[string]bool{}
			for _, n := range names {
				e.funcsBase[n] = true
			}
			// methods that are new on a type the baseline already knew (it had methods then)
			hadMethods := map[string]bool{}
			for _, n := range names {
				if i := strings.LastIndex(n, "."); i > 0 && !strings.HasPrefix(n, "var:") && !strings.HasPrefix(n, "main.") {
					hadMethods[n[:i]] = true
				}
			}
			e.newMethods = map[string][]string{}
			for fn, fi := range e.funcs {
				if fi == nil || fi.decl == nil || fi.decl.Recv == nil {
					continue
				}
				if strings.HasSuffix(e.fset.Position(fi.decl.Pos()).Filename, "_test.go") {
					continue
				}
				k := funcKey(fn)
				if e.funcsBase[k] {
					continue
				}
				if i := strings.LastIndex(k, "."); i > 0 && hadMethods[k[:i]] {
					e.newMethods[k[:i]] = append(e.newMethods[k[:i]], k)
				}
			}
			for _, ms := range e.newMethods {
				sort.Strings(ms)
			}
		}
	}
}

// saveLocalsBaseline merges the declarations of the given functions into baseline/locals.json.
func (e *Engine) saveLocalsBaseline(verifDir string, fns []*types.Func) {
	all := map[string][]localDecl{}
	if data, err := os.ReadFile(filepath.Join(verifDir, "baseline", "locals.json")); err == nil {
		json.Unmarshal(data, &all)
	}
	for _, fn := range fns {
		if fi, ok := e.funcs[fn]; ok {
			all[funcKey(fn)] = e.localDecls(fi)
			// the names of the results, in order ("" for unnamed ones): a contract that mentions a named result
			// still means that result after the names were dropped from the signature
			var rs []localDecl
			res := fn.Type().(*types.Signature).Results()
			for i := 0; i < res.Len(); i++ {
				rs = append(rs, localDecl{res.At(i).Name(), types.TypeString(res.At(i).Type(), func(p *types.Package) string { return p.Name() })})
			}
			all[funcKey(fn)+"#results"] = rs
		}
	}
	keys := make([]string, 0, len(all))
	for k := range all {
		keys = append(keys, k)
	}
	sort.Strings(keys)
	var b strings.Builder
	b.WriteString("{\n")
	for i, k := range keys {
		v, _ := json.Marshal(all[k])
		kk, _ := json.Marshal(k)
		b.WriteString(" " + string(kk) + ": " + string(v))
		if i < len(keys)-1 {
			b.WriteString(",")
		}
		b.WriteString("\n")
	}
	b.WriteString("}\n")
	os.WriteFile(filepath.Join(verifDir, "baseline", "locals.json"), []byte(b.String()), 0o644)
	// every function of the repository packages (to recognise helpers added later)
	var names []string
	for fn := range e.funcs {
		names = append(names, funcKey(fn))
	}
	// and every package-level variable (a table added later has no contract either)
	for _, p := range e.pkgs {
		sc := p.Types.Scope()
		for _, n := range sc.Names() {
			if v, ok := sc.Lookup(n).(*types.Var); ok {
				names = append(names, "var:"+globalKey(v))
			}
		}
	}
	sort.Strings(names)
	data, _ := json.MarshalIndent(names, "", " ")
	os.WriteFile(filepath.Join(verifDir, "baseline", "funcs.json"), append(data, '\n'), 0o644)
}

// localDecls lists parameters, results and every variable declared in the body, in source order.
func (e *Engine) localDecls(fi *fnInfo) []localDecl {
	info := fi.pkg.TypesInfo
	type pd struct {
		pos token.Pos
		d   localDecl
	}
	var ds []pd
	seen := map[types.Object]bool{}
	ast.Inspect(fi.decl, func(n ast.Node) bool {
		id, ok := n.(*ast.Ident)
		if !ok || id.Name == "_" {
			return true
		}
		if obj, ok := info.Defs[id].(*types.Var); ok && !obj.IsField() && !seen[obj] {
			seen[obj] = true
			ds = append(ds, pd{id.Pos(), localDecl{id.Name, types.TypeString(obj.Type(), func(p *types.Package) string { return p.Name() })}})
		}
		return true
	})
	sort.Slice(ds, func(i, j int) bool { return ds[i].pos < ds[j].pos })
	out := make([]localDecl, len(ds))
	for i, d := range ds {
		out[i] = d.d
	}
	return out
}

// renames computes the rename maps of a function against the baseline (cached).
func (e *Engine) renames(fn *types.Func) *renameMaps {
	if fn == nil {
		return nil
	}
	e.renameMu.Lock()
	defer e.renameMu.Unlock()
	if e.renameCache == nil {
		e.renameCache = map[*types.Func]*renameMaps{}
	}
	if r, ok := e.renameCache[fn]; ok {
		return r
	}
	var res *renameMaps
	defer func() { e.renameCache[fn] = res }()
	old, ok := e.localsBase[funcKey(fn)]
	fi, ok2 := e.funcs[fn]
	if !ok || !ok2 {
		return nil
	}
	cur := e.localDecls(fi)
	// LCS alignment on names
	n, m := len(old), len(cur)
	if n == 0 || m == 0 || n*m > 4000000 {
		return nil
	}
	lcs := make([][]int, n+1)
	for i := range lcs {
		lcs[i] = make([]int, m+1)
	}
	for i := n - 1; i >= 0; i-- {
		for j := m - 1; j >= 0; j-- {
			if old[i].Name == cur[j].Name {
				lcs[i][j] = lcs[i+1][j+1] + 1
			} else if lcs[i+1][j] >= lcs[i][j+1] {
				lcs[i][j] = lcs[i+1][j]
			} else {
				lcs[i][j] = lcs[i][j+1]
			}
		}
	}
	oldNames, curNames := map[string]int{}, map[string]int{}
	for _, d := range old {
		oldNames[d.Name]++
	}
	for _, d := range cur {
		curNames[d.Name]++
	}
	res = &renameMaps{old2new: map[string]string{}, new2old: map[string]string{}}
	conflict := map[string]bool{}
	i, j := 0, 0
	var gapOld, gapCur []localDecl
	flush := func() {
		// declarations that merely moved (the name still exists on the other side) are no rename candidates
		var fo, fc []localDecl
		for _, d := range gapOld {
			if curNames[d.Name] < oldNames[d.Name] {
				fo = append(fo, d)
			}
		}
		for _, d := range gapCur {
			if oldNames[d.Name] == 0 {
				fc = append(fc, d)
			}
		}
		gapOld, gapCur = fo, fc
		// pair the candidates type by type, in order (declarations of different types may have been
		// reordered among themselves at the same time)
		if len(gapOld) == len(gapCur) {
			byType := map[string][]localDecl{}
			for _, c := range gapCur {
				byType[c.Type] = append(byType[c.Type], c)
			}
			cntOld := map[string]int{}
			for _, o := range gapOld {
				cntOld[o.Type]++
			}
			paired := make([]localDecl, 0, len(gapOld))
			okAll := true
			next := map[string]int{}
			for _, o := range gapOld {
				if cntOld[o.Type] != len(byType[o.Type]) {
					okAll = false
					break
				}
				paired = append(paired, byType[o.Type][next[o.Type]])
				next[o.Type]++
			}
			if okAll {
				gapCur = paired
			}
		}
		if len(gapOld) == len(gapCur) {
			for k := range gapOld {
				o, c := gapOld[k], gapCur[k]
				// the old name must have lost a declaration, the new name must be new to the function
				if o.Type != c.Type || curNames[o.Name] >= oldNames[o.Name] || oldNames[c.Name] > 0 {
					continue
				}
				if prev, ok := res.old2new[o.Name]; ok && prev != c.Name {
					conflict[o.Name] = true
					continue
				}
				if prev, ok := res.new2old[c.Name]; ok && prev != o.Name {
					conflict[o.Name] = true
					continue
				}
				res.old2new[o.Name] = c.Name
				res.new2old[c.Name] = o.Name
			}
		}
		gapOld, gapCur = nil, nil
	}
	for i < n && j < m {
		switch {
		case old[i].Name == cur[j].Name:
			flush()
			i++
			j++
		case lcs[i+1][j] >= lcs[i][j+1]:
			gapOld = append(gapOld, old[i])
			i++
		default:
			gapCur = append(gapCur, cur[j])
			j++
		}
	}
	gapOld = append(gapOld, old[i:]...)
	gapCur = append(gapCur, cur[j:]...)
	flush()
	// what the gap pass left unpaired (declarations that also moved): names that lost a declaration against
	// names new to the function, type by type in source order, when their numbers agree
	{
		var lostOld, newCur []localDecl
		lost := map[string]int{}
		for _, d := range old {
			if _, done := res.old2new[d.Name]; done || conflict[d.Name] {
				continue
			}
			if curNames[d.Name]+lost[d.Name] < oldNames[d.Name] {
				lost[d.Name]++
				lostOld = append(lostOld, d)
			}
		}
		for _, d := range cur {
			if _, done := res.new2old[d.Name]; done {
				continue
			}
			if oldNames[d.Name] == 0 {
				newCur = append(newCur, d)
			}
		}
		oldBy, curBy := map[string][]localDecl{}, map[string][]localDecl{}
		for _, d := range lostOld {
			oldBy[d.Type] = append(oldBy[d.Type], d)
		}
		for _, d := range newCur {
			curBy[d.Type] = append(curBy[d.Type], d)
		}
		for t, os := range oldBy {
			cs := curBy[t]
			if len(os) != len(cs) {
				continue
			}
			for k := range os {
				o, c := os[k], cs[k]
				if _, ok := res.old2new[o.Name]; ok {
					continue
				}
				if _, ok := res.new2old[c.Name]; ok {
					continue
				}
				res.old2new[o.Name] = c.Name
				res.new2old[c.Name] = o.Name
			}
		}
	}
	for o := range conflict {
		if nw, ok := res.old2new[o]; ok {
			delete(res.new2old, nw)
		}
		delete(res.old2new, o)
	}
	if len(res.old2new) == 0 {
		res = nil
	}
	return res
}

// stableText rewrites the identifiers of a generated name (obligation name, anchor text) that are
// renamed locals back to their baseline names.
func (u *Unit) renameFn() *types.Func {
	fn := u.fn
	if fn == nil && len(u.frames) > 0 {
		fn = u.frames[0].fn
	}
	if u.rootFn != nil {
		fn = u.rootFn
	}
	return fn
}

func (u *Unit) stableText(s string) string {
	r := u.eng.renames(u.renameFn())
	if r == nil {
		return s
	}
	var b strings.Builder
	i := 0
	for i < len(s) {
		c := s[i]
		if c == '_' || c >= 'a' && c <= 'z' || c >= 'A' && c <= 'Z' {
			j := i
			for j < len(s) && (s[j] == '_' || s[j] >= 'a' && s[j] <= 'z' || s[j] >= 'A' && s[j] <= 'Z' || s[j] >= '0' && s[j] <= '9') {
				j++
			}
			w := s[i:j]
			// not a field selector (preceded by '.')
			if o, ok := r.new2old[w]; ok && (i == 0 || s[i-1] != '.') {
				w = o
			}
			b.WriteString(w)
			i = j
			continue
		}
		b.WriteByte(c)
		i++
	}
	return b.String()
}

// ---- loop / literal ordinals against the baseline ----
// Contracts address loops and function literals of a body by ordinal. The baseline records the
// "shape" of every body under contract: one signature per loop (kind + header text) and per literal
// (its type). On a later tree the current signatures are aligned with the recorded ones (LCS), and
// each current loop / literal gets the ordinal of its baseline counterpart; new ones get ordinals no
// contract mentions; baseline ones without counterpart are reported so that their ledger obligations
// count as undecided (the loop was removed or moved into a helper), not as violated.

type bodyShape struct {
	Loops []string `json:"loops"`
	Lits  []string `json:"lits"`
}

func (u *Unit) shapeOf(body ast.Node, info *types.Info, loops map[ast.Node]int, lits map[*ast.FuncLit]int) bodyShape {
	sh := bodyShape{Loops: make([]string, len(loops)), Lits: make([]string, len(lits))}
	for n, k := range loops {
		switch x := n.(type) {
		case *ast.RangeStmt:
			sh.Loops[k-1] = u.stableText("range:" + exprText(x.X))
		case *ast.ForStmt:
			c := ""
			if x.Cond != nil {
				c = exprText(x.Cond)
			}
			// the form of the loop (which of init / condition / post it has) is part of its signature: a loop
			// rewritten from `for { ... break }` to a three-clause loop has a different head, its invariants
			// do not carry over
			form := ""
			if x.Init != nil {
				form += "i"
			}
			if x.Cond != nil {
				form += "c"
			}
			if x.Post != nil {
				form += "p"
			}
			sh.Loops[k-1] = u.stableText("for[" + form + "]:" + c)
		}
	}
	for l, k := range lits {
		t := ""
		if tv := info.TypeOf(l); tv != nil {
			t = types.TypeString(tv, func(p *types.Package) string { return p.Name() })
		}
		sh.Lits[k-1] = t
	}
	return sh
}

// alignOrdinals maps current ordinals (1-based) to baseline ordinals; unmatched current entries get
// 1000+k. It also returns the baseline ordinals that have no current counterpart.
func alignOrdinals(base, cur []string) (map[int]int, []int) {
	n, m := len(base), len(cur)
	lcs := make([][]int, n+1)
	for i := range lcs {
		lcs[i] = make([]int, m+1)
	}
	for i := n - 1; i >= 0; i-- {
		for j := m - 1; j >= 0; j-- {
			if base[i] == cur[j] {
				lcs[i][j] = lcs[i+1][j+1] + 1
			} else if lcs[i+1][j] >= lcs[i][j+1] {
				lcs[i][j] = lcs[i+1][j]
			} else {
				lcs[i][j] = lcs[i][j+1]
			}
		}
	}
	mp := map[int]int{}
	matched := map[int]bool{}
	i, j := 0, 0
	var gb, gc []int
	flush := func() {
		// a gap of equal size on both sides: headers were edited in place, keep positions
		if len(gb) == len(gc) {
			for k := range gb {
				if loopForm(base[gb[k]]) != loopForm(cur[gc[k]]) {
					continue // a different kind of loop took its place
				}
				mp[gc[k]+1] = gb[k] + 1
				matched[gb[k]] = true
			}
		}
		gb, gc = nil, nil
	}
	for i < n && j < m {
		switch {
		case base[i] == cur[j]:
			flush()
			mp[j+1] = i + 1
			matched[i] = true
			i++
			j++
		case lcs[i+1][j] >= lcs[i][j+1]:
			gb = append(gb, i)
			i++
		default:
			gc = append(gc, j)
			j++
		}
	}
	for ; i < n; i++ {
		gb = append(gb, i)
	}
	for ; j < m; j++ {
		gc = append(gc, j)
	}
	flush()
	var gone []int
	for k := 0; k < n; k++ {
		if !matched[k] {
			gone = append(gone, k+1)
		}
	}
	for k := 1; k <= m; k++ {
		if _, ok := mp[k]; !ok {
			mp[k] = 1000 + k
		}
	}
	return mp, gone
}

func (e *Engine) loadShapes(verifDir string) {
	e.shapesBase = map[string]bodyShape{}
	if data, err := os.ReadFile(filepath.Join(verifDir, "baseline", "shapes.json")); err == nil {
		json.Unmarshal(data, &e.shapesBase)
	}
}

func (e *Engine) saveShapes(verifDir string, units []*Unit) {
	all := map[string]bodyShape{}
	if data, err := os.ReadFile(filepath.Join(verifDir, "baseline", "shapes.json")); err == nil {
		json.Unmarshal(data, &all)
	}
	for _, u := range units {
		if u.shape != nil {
			all[u.name] = *u.shape
		}
	}
	data, _ := json.MarshalIndent(all, "", " ")
	os.WriteFile(filepath.Join(verifDir, "baseline", "shapes.json"), append(data, '\n'), 0o644)
}

// loopForm: the part of a loop signature that says what kind of head it has ("range", "for[icp]", ...; for
// function literal signatures the whole type).
func loopForm(sig string) string {
	if i := strings.Index(sig, ":"); i >= 0 && (strings.HasPrefix(sig, "for[") || strings.HasPrefix(sig, "range")) {
		return sig[:i]
	}
	return sig
}
