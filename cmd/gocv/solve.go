package main

// Discharging obligations: one standalone SMT-LIB2 file per obligation, solver portfolio
// z3-new -> cvc5 -> z3 (first decisive answer wins), parallel over obligations.

import (
	"context"
	"crypto/sha256"
	"encoding/hex"
	"fmt"
	"os"
	"os/exec"
	"path/filepath"
	"sort"
	"strings"
	"sync"
	"time"
)

type SolveResult struct {
	Status  string // unsat | sat | unknown | timeout | error
	Solver  string
	Ms      int64
	Model   string
	Output  string
	File    string
	Agree   []string // thorough: other solvers that agreed
	Tried   []string
}

type solverSpec struct {
	name string
	args func(file string, secs int, seed int) []string
}

var solvers = []solverSpec{
	{"z3-new", func(f string, s, seed int) []string {
		return []string{"z3-new", fmt.Sprintf("-T:%d", s), fmt.Sprintf("smt.random_seed=%d", seed), f}
	}},
	{"cvc5", func(f string, s, seed int) []string {
		return []string{"cvc5", fmt.Sprintf("--tlimit=%d", s*1000), "--produce-models", fmt.Sprintf("--seed=%d", seed), f}
	}},
	{"z3", func(f string, s, seed int) []string {
		return []string{"z3", fmt.Sprintf("-T:%d", s), fmt.Sprintf("smt.random_seed=%d", seed), f}
	}},
}

const prelude = `(set-option :produce-models true)
(set-logic ALL)
(declare-sort Str 0)
(declare-sort Flt 0)
(declare-sort Bytes 0)
`

// smtText renders an obligation as a standalone query: assert pc, assert not goal.
func (o *Obligation) smtText(withModel bool) string {
	u := o.Unit
	var b strings.Builder
	b.WriteString(prelude)
	for s := range u.eng.sorts {
		if s != "Bytes" {
			fmt.Fprintf(&b, "(declare-sort %s 0)\n", s)
		}
	}
	var body strings.Builder
	for _, t := range o.PC {
		if o.Cover && (strings.Contains(t.S, "(forall ") || strings.Contains(t.S, "(exists ")) {
			// satisfiability covers are decided on the quantifier-free part of the path condition
			continue
		}
		body.WriteString("(assert " + t.S + ")\n")
	}
	if o.Cover {
		// satisfiability of the path condition
	} else {
		body.WriteString("(assert (not " + o.Goal.S + "))\n")
	}
	// relevant axioms: those sharing an uninterpreted spec symbol with the query
	text := body.String()
	syms := map[string]bool{}
	symbolsIn(text, syms)
	var axs []string
	changed := true
	used := map[string]bool{}
	for round := 0; changed && round < 2; round++ {
		changed = false
		for _, a := range u.axiomTerms {
			if used[a.name] {
				continue
			}
			as := map[string]bool{}
			symbolsIn(a.t.S, as)
			rel := false
			for s := range as {
				if (strings.HasPrefix(s, "spec_") || strings.HasPrefix(s, "|spec_")) && syms[s] {
					rel = true
					break
				}
			}
			if rel {
				used[a.name] = true
				axs = append(axs, "(assert "+a.t.S+") ; axiom "+a.name+"\n")
				// one more round: axioms that talk about symbols introduced by a directly relevant axiom
				if round == 0 {
					for s := range as {
						if !syms[s] {
							syms[s] = true
							changed = true
						}
					}
				}
			}
		}
	}
	sort.Strings(axs)
	if o.Cover {
		axs = nil // satisfiability covers are decided without quantified axioms
	}
	all := text + strings.Join(axs, "")
	// string literal facts
	var lits []string
	for s, t := range u.strLits {
		if strings.Contains(all, t.S) {
			lits = append(lits, s)
		}
	}
	sort.Strings(lits)
	var litFacts strings.Builder
	if len(lits) > 0 {
		slen := u.d.Fun("slen", []Sort{SStr}, SInt)
		if len(lits) > 1 {
			litFacts.WriteString("(assert (distinct")
			for _, s := range lits {
				litFacts.WriteString(" " + u.strLits[s].S)
			}
			litFacts.WriteString("))\n")
		}
		for _, s := range lits {
			fmt.Fprintf(&litFacts, "(assert (= (%s %s) %d))\n", slen, u.strLits[s].S, len(s))
		}
	}
	all += litFacts.String()
	builtin := ""
	if o.Cover {
		// no quantified built-ins either
	} else if strings.Contains(all, "(blen ") && u.d.has("bytesof") {
		builtin = "(assert (forall ((r!b (Array Int Int)) (o!b Int) (l!b Int)) (=> (>= l!b 0) (= (blen (bytesof r!b o!b l!b)) l!b))))\n"
		all += builtin
	}
	if !o.Cover && (strings.Contains(all, "(slen ") || u.d.has("slen") && strings.Contains(all, "slen")) {
		builtin += "(assert (forall ((s!sl Str)) (! (<= 0 (slen s!sl)) :pattern ((slen s!sl)))))\n"
	}
	if !o.Cover && strings.Contains(all, "(pow2 ") {
		builtin += "(assert (= (pow2 0) 1))\n(assert (forall ((k!p Int)) (! (=> (>= k!p 0) (and (= (pow2 (+ k!p 1)) (* 2 (pow2 k!p))) (>= (pow2 k!p) 1))) :pattern ((pow2 k!p)))))\n"
	}
	if !o.Cover && strings.Contains(all, "(sconcat ") {
		u.d.Fun("slen", []Sort{SStr}, SInt)
		builtin += "(assert (forall ((a!sc Str) (b!sc Str)) (! (= (slen (sconcat a!sc b!sc)) (+ (slen a!sc) (slen b!sc))) :pattern ((sconcat a!sc b!sc)))))\n"
	}
	all += builtin
	b.WriteString(u.d.emit(all))
	b.WriteString(builtin)
	b.WriteString(strings.Join(axs, ""))
	b.WriteString(litFacts.String())
	b.WriteString(text)
	b.WriteString("(check-sat)\n")
	if withModel {
		b.WriteString("(get-model)\n")
	}
	return b.String()
}

func runSolver(sp solverSpec, file string, secs, seed int) (status, out string, ms int64) {
	return runSolverCtx(context.Background(), sp, file, secs, seed)
}

func runSolverCtx(parent context.Context, sp solverSpec, file string, secs, seed int) (status, out string, ms int64) {
	args := sp.args(file, secs, seed)
	ctx, cancel := context.WithTimeout(parent, time.Duration(secs+5)*time.Second)
	defer cancel()
	t0 := time.Now()
	cmd := exec.CommandContext(ctx, args[0], args[1:]...)
	outb, _ := cmd.CombinedOutput()
	ms = time.Since(t0).Milliseconds()
	out = string(outb)
	first := strings.TrimSpace(strings.SplitN(out, "\n", 2)[0])
	switch first {
	case "unsat", "sat", "unknown":
		return first, out, ms
	case "timeout":
		return "timeout", out, ms
	}
	if ctx.Err() != nil || strings.Contains(out, "timeout") || strings.Contains(out, "interrupted by timeout") {
		return "timeout", out, ms
	}
	return "error", out, ms
}

type solveOpts struct {
	dir      string
	secs     int
	thorough bool
	seed     int
	jobs     int
	short    map[string]bool // obligation names with a 2 s budget (open known findings)
	patience int             // budget multiplier (retry pass for obligations that ran out of time)
}

func solveAll(obls []*Obligation, opts solveOpts) {
	os.MkdirAll(opts.dir, 0o755)
	type job struct{ o *Obligation }
	ch := make(chan *Obligation)
	var wg sync.WaitGroup
	cache := map[string]*SolveResult{}
	var mu sync.Mutex
	for i := 0; i < opts.jobs; i++ {
		wg.Add(1)
		go func() {
			defer wg.Done()
			for o := range ch {
				text := o.smtText(true)
				sum := sha256.Sum256([]byte(text))
				key := hex.EncodeToString(sum[:8])
				mu.Lock()
				if r, ok := cache[key]; ok {
					o.Result = r
					mu.Unlock()
					continue
				}
				mu.Unlock()
				file := filepath.Join(opts.dir, key+".smt2")
				os.WriteFile(file, []byte(text), 0o644)
				r := solveOne(o, file, opts)
				mu.Lock()
				cache[key] = r
				mu.Unlock()
				o.Result = r
			}
		}()
	}
	for _, o := range obls {
		ch <- o
	}
	close(ch)
	wg.Wait()
}

func solveOne(o *Obligation, file string, opts solveOpts) *SolveResult {
	want := "unsat"
	if o.Cover {
		want = "sat"
	}
	res := &SolveResult{Status: "unknown", File: file}
	if !o.Cover && o.Goal.IsTrue() {
		return &SolveResult{Status: "unsat", Solver: "trivial", File: file}
	}
	type answer struct {
		sp          solverSpec
		status, out string
		ms          int64
	}
	// quick mode: z3-new alone for a short while (most goals take milliseconds), then race
	// z3-new and cvc5 with the full budget, then z3 4.8 as a last resort.
	bvUnit := o.Unit != nil && o.Unit.bv
	pat := opts.patience
	if pat < 1 {
		pat = 1
	}
	opts.secs *= pat
	if !opts.thorough && !bvUnit {
		status, out, ms := runSolver(solvers[0], file, 2*pat, opts.seed)
		res.Tried = append(res.Tried, fmt.Sprintf("%s:%s:%dms", solvers[0].name, status, ms))
		if status == "unsat" || status == "sat" {
			res.Status, res.Solver, res.Ms, res.Output = status, solvers[0].name, ms, out
			if status == "sat" {
				res.Model = out
			}
			return res
		}
	}
	qfModel := ""
	if !o.Cover && !bvUnit { // bit-vector goals go straight to the race (cvc5 usually wins)
		// Undecided with the quantified axioms: try the quantifier-free part alone. Unsat there is
		// unsat of the full query (fewer assumptions); sat there is a counterexample candidate
		// modulo the axioms (the obligation fails either way, the model feeds the replay).
		if qf, dropped := dropQuantified(file); dropped {
			status, out, ms := runSolver(solvers[0], qf, 2*pat, opts.seed)
			res.Tried = append(res.Tried, fmt.Sprintf("%s(qf):%s:%dms", solvers[0].name, status, ms))
			if status == "unsat" {
				res.Status, res.Solver, res.Ms, res.Output = status, solvers[0].name+"(qf)", ms, out
				return res
			}
			if status == "sat" {
				qfModel = out
			}
		}
		// next: only the quantified facts that share a spec function or heap symbol with the goal
		// (dropping assumptions is sound for a proof; a failure here decides nothing)
		if rel, ok := goalRelevant(file); ok {
			status, out, ms := runSolver(solvers[0], rel, 3*pat, opts.seed)
			res.Tried = append(res.Tried, fmt.Sprintf("%s(rel):%s:%dms", solvers[0].name, status, ms))
			if status == "unsat" {
				res.Status, res.Solver, res.Ms, res.Output = status, solvers[0].name+"(rel)", ms, out
				return res
			}
		}
	}
	if opts.short[o.Name] {
		opts.secs = 2
	}
	race := []solverSpec{solvers[0], solvers[1], solvers[2]}
	ch := make(chan answer, len(race))
	ctx, cancel := context.WithCancel(context.Background())
	for _, sp := range race {
		go func(sp solverSpec) {
			status, out, ms := runSolverCtx(ctx, sp, file, opts.secs, opts.seed)
			ch <- answer{sp, status, out, ms}
		}(sp)
	}
	var answers []answer
	for range race {
		a := <-ch
		res.Tried = append(res.Tried, fmt.Sprintf("%s:%s:%dms", a.sp.name, a.status, a.ms))
		answers = append(answers, a)
		if a.status == "unsat" || a.status == "sat" {
			if res.Solver == "" {
				res.Status, res.Solver, res.Ms, res.Output = a.status, a.sp.name, a.ms, a.out
				if a.status == "sat" {
					res.Model = a.out
				}
				if !opts.thorough || a.status != want {
					cancel()
					break
				}
				// thorough: the other solvers get a bounded extra time to confirm or contradict
				time.AfterFunc(10*time.Second, cancel)
			} else {
				if a.status != res.Status {
					res.Output = fmt.Sprintf("solver disagreement: %s says %s, %s says %s", res.Solver, res.Status, a.sp.name, a.status)
					res.Status = "error"
					cancel()
					return res
				}
				res.Agree = append(res.Agree, a.sp.name)
			}
		} else if a.status == "timeout" && res.Status == "unknown" && res.Solver == "" {
			res.Status = "timeout"
		}
	}
	cancel()
	if res.Solver == "" && len(answers) > 0 {
		res.Output = answers[len(answers)-1].out
		if qfModel != "" {
			// still undecided: keep the model of the quantifier-free part as the counterexample candidate
			res.Model = qfModel
			res.Output += "\n; model of the quantifier-free part (candidate, modulo the quantified axioms):\n" + qfModel
		}
	}
	return res
}

// ok reports whether the obligation is discharged.
func (o *Obligation) ok() bool {
	if o.Result == nil {
		return false
	}
	if o.Cover {
		// a cover must be satisfiable; "unknown" on a quantified path condition is tolerated
		return o.Result.Status != "unsat"
	}
	return o.Result.Status == "unsat"
}

// dropQuantified writes a copy of the query without its quantified assertions.
func dropQuantified(file string) (string, bool) {
	data, err := os.ReadFile(file)
	if err != nil {
		return "", false
	}
	var out []string
	dropped := false
	for _, ln := range strings.Split(string(data), "\n") {
		if strings.HasPrefix(ln, "(assert ") && (strings.Contains(ln, "(forall ") || strings.Contains(ln, "(exists ")) {
			dropped = true
			continue
		}
		out = append(out, ln)
	}
	if !dropped {
		return "", false
	}
	qf := strings.TrimSuffix(file, ".smt2") + ".qf.smt2"
	os.WriteFile(qf, []byte(strings.Join(out, "\n")), 0o644)
	return qf, true
}

// goalRelevant writes a copy of the query that keeps, of the quantified assertions, only those
// sharing a spec function or a heap/global symbol with the goal.
func goalRelevant(file string) (string, bool) {
	data, err := os.ReadFile(file)
	if err != nil {
		return "", false
	}
	lines := strings.Split(string(data), "\n")
	goal := ""
	for _, ln := range lines {
		if strings.HasPrefix(ln, "(assert (not ") {
			goal = ln
		}
	}
	if goal == "" {
		return "", false
	}
	gs := map[string]bool{}
	symbolsIn(goal, gs)
	rel := map[string]bool{}
	for s := range gs {
		if strings.HasPrefix(s, "spec_") || strings.HasPrefix(s, "|") {
			rel[s] = true
		}
	}
	var out []string
	dropped := false
	for _, ln := range lines {
		if strings.HasPrefix(ln, "(assert ") && (strings.Contains(ln, "(forall ") || strings.Contains(ln, "(exists ")) && ln != goal {
			ls := map[string]bool{}
			symbolsIn(ln, ls)
			keep := false
			for s := range ls {
				if rel[s] {
					keep = true
					break
				}
			}
			if !keep {
				dropped = true
				continue
			}
		}
		out = append(out, ln)
	}
	if !dropped {
		return "", false
	}
	f := strings.TrimSuffix(file, ".smt2") + ".rel.smt2"
	os.WriteFile(f, []byte(strings.Join(out, "\n")), 0o644)
	return f, true
}
