package main

// Values: a Go value is a typed tuple of SMT leaf terms ("flattening").
//
//   integers, pointers, maps, channels, funcs, interfaces  -> one Int leaf
//   bool -> Bool, string -> Str (uninterpreted), float -> Flt (uninterpreted)
//   slice -> (base, off, len, cap) Int leaves; element storage lives in the slice heap
//   array [N]T -> per leaf of T one (Array Int sort) leaf (value semantics)
//   struct -> concatenation of the leaves of its fields
//   ChunkID ([32]byte) and a few library value types are opaque single Int leaves

import (
	"fmt"
	"go/types"
	"strings"
)

type Leaf struct {
	Path string // "" for scalar, "f.g" for nested struct fields, ".base/.off/.len/.cap" suffix for slices
	Sort Sort
	T    types.Type // Go type of the leaf (for range facts); slice parts carry int
}

type Value struct {
	T types.Type
	L []Term
}

// GhostMap is a value-semantics map used for ghost state: one (Array K V) leaf.
type GhostMap struct {
	K, V types.Type
}

func (g *GhostMap) Underlying() types.Type { return g }
func (g *GhostMap) String() string         { return "ghostmap[" + g.K.String() + "]" + g.V.String() }

// GhostSort is an uninterpreted SMT sort usable in spec functions (e.g. Bytes).
type GhostSort struct{ Name string }

func (g *GhostSort) Underlying() types.Type { return g }
func (g *GhostSort) String() string         { return "sort:" + g.Name }

var (
	tInt     = types.Typ[types.Int]
	tBool    = types.Typ[types.Bool]
	tString  = types.Typ[types.String]
	tUntyped = types.Typ[types.UntypedInt]
)

type flatCache struct {
	m map[types.Type][]Leaf
}

var fc = &flatCache{m: map[types.Type][]Leaf{}}

// opaqueNamed lists named types treated as a single opaque Int leaf.
func opaqueNamed(t types.Type) bool {
	n, ok := t.(*types.Named)
	if !ok {
		return false
	}
	obj := n.Obj()
	if obj == nil {
		return false
	}
	pk := ""
	if obj.Pkg() != nil {
		pk = obj.Pkg().Path()
	}
	switch pk + "." + obj.Name() {
	case "github.com/folbricht/desync.ChunkID",
		"sync.Mutex", "sync.RWMutex", "sync.Once", "sync.WaitGroup", "sync.Map", "sync.Pool",
		"time.Time", "time.Location", "bytes.Buffer", "strings.Builder", "sync/atomic.Value",
		"reflect.Value", "math/big.Int":
		return true
	}
	return false
}

func isChunkID(t types.Type) bool {
	if isIDArray(t) {
		return true
	}
	n, ok := t.(*types.Named)
	return ok && n.Obj() != nil && n.Obj().Name() == "ChunkID" && n.Obj().Pkg() != nil && strings.HasSuffix(n.Obj().Pkg().Path(), "folbricht/desync")
}

func flatten(t types.Type) []Leaf {
	if l, ok := fc.m[t]; ok {
		return l
	}
	fc.m[t] = nil // recursion guard
	l := flatten1(t)
	fc.m[t] = l
	return l
}

// isIDArray: [32]byte values (digests / chunk IDs) are opaque identifiers.
func isIDArray(t types.Type) bool {
	a, ok := t.Underlying().(*types.Array)
	if !ok || a.Len() != 32 {
		return false
	}
	b, ok := a.Elem().Underlying().(*types.Basic)
	return ok && b.Kind() == types.Uint8
}

func flatten1(t types.Type) []Leaf {
	if opaqueNamed(t) || isIDArray(t) {
		return []Leaf{{"", SInt, t}}
	}
	switch u := t.(type) {
	case *GhostMap:
		ks := flatten(u.K)
		vs := flatten(u.V)
		if len(ks) != 1 || len(vs) != 1 {
			panic("ghost map with aggregate key/value: " + u.String())
		}
		return []Leaf{{"", ArrSort(ks[0].Sort, vs[0].Sort), t}}
	case *GhostSort:
		return []Leaf{{"", Sort(u.Name), t}}
	}
	switch u := t.Underlying().(type) {
	case *types.Basic:
		switch {
		case u.Info()&types.IsBoolean != 0:
			return []Leaf{{"", SBool, t}}
		case u.Info()&types.IsString != 0:
			return []Leaf{{"", SStr, t}}
		case u.Info()&types.IsFloat != 0, u.Info()&types.IsComplex != 0:
			return []Leaf{{"", SFlt, t}}
		default:
			return []Leaf{{"", SInt, t}}
		}
	case *types.Pointer, *types.Map, *types.Chan, *types.Signature, *types.Interface:
		return []Leaf{{"", SInt, t}}
	case *types.Slice:
		// the .cap leaf remembers the slice type (used for the address-space bound)
		return []Leaf{{".base", SInt, tInt}, {".off", SInt, tInt}, {".len", SInt, tInt}, {".cap", SInt, t}}
	case *types.Array:
		var out []Leaf
		for _, l := range flatten(u.Elem()) {
			out = append(out, Leaf{l.Path + "[]", ArrSort(SInt, l.Sort), l.T})
		}
		return out
	case *types.Struct:
		var out []Leaf
		for i := 0; i < u.NumFields(); i++ {
			f := u.Field(i)
			for _, l := range flatten(f.Type()) {
				p := f.Name()
				if l.Path != "" {
					if strings.HasPrefix(l.Path, ".") || strings.HasPrefix(l.Path, "[") {
						p += l.Path
					} else {
						p += "." + l.Path
					}
				}
				out = append(out, Leaf{p, l.Sort, l.T})
			}
		}
		if len(out) == 0 {
			// empty struct: no leaves
		}
		return out
	case *types.Tuple:
		var out []Leaf
		for i := 0; i < u.Len(); i++ {
			for _, l := range flatten(u.At(i).Type()) {
				out = append(out, Leaf{fmt.Sprintf("#%d%s", i, l.Path), l.Sort, l.T})
			}
		}
		return out
	case *types.TypeParam:
		return []Leaf{{"", SInt, t}}
	}
	panic(fmt.Sprintf("flatten: unsupported type %s (%T)", t, t.Underlying()))
}

// fieldRange returns the leaf sub-range [lo,hi) of field i in struct type t.
func fieldRange(st *types.Struct, i int) (int, int) {
	lo := 0
	for j := 0; j < i; j++ {
		lo += len(flatten(st.Field(j).Type()))
	}
	return lo, lo + len(flatten(st.Field(i).Type()))
}

func scalar(t types.Type, x Term) Value { return Value{T: t, L: []Term{x}} }
func boolV(x Term) Value               { return scalar(tBool, x) }
func intV(x Term) Value                { return scalar(tInt, x) }

func (v Value) term() Term {
	if len(v.L) != 1 {
		panic(fmt.Sprintf("value of type %v has %d leaves, expected scalar", v.T, len(v.L)))
	}
	return v.L[0]
}

func (v Value) isSlice() bool {
	if v.T == nil {
		return false
	}
	_, ok := v.T.Underlying().(*types.Slice)
	return ok
}

// Slice accessors.
func (v Value) base() Term { return v.L[0] }
func (v Value) off() Term  { return v.L[1] }
func (v Value) slen() Term { return v.L[2] }
func (v Value) scap() Term { return v.L[3] }

func sliceV(t types.Type, base, off, ln, cp Term) Value {
	return Value{T: t, L: []Term{base, off, ln, cp}}
}

// intRange returns the inclusive bounds of an integer type, ok=false for non-integers
// and for untyped/unbounded.
func intRange(t types.Type) (lo, hi string, ok bool) {
	b, isB := t.Underlying().(*types.Basic)
	if !isB || b.Info()&types.IsInteger == 0 {
		return "", "", false
	}
	switch b.Kind() {
	case types.Int, types.Int64:
		return "(- 9223372036854775808)", "9223372036854775807", true
	case types.Int32:
		return "(- 2147483648)", "2147483647", true
	case types.Int16:
		return "(- 32768)", "32767", true
	case types.Int8:
		return "(- 128)", "127", true
	case types.Uint, types.Uint64, types.Uintptr:
		return "0", "18446744073709551615", true
	case types.Uint32:
		return "0", "4294967295", true
	case types.Uint16:
		return "0", "65535", true
	case types.Uint8:
		return "0", "255", true
	}
	return "", "", false
}

func isUnsigned(t types.Type) bool {
	b, ok := t.Underlying().(*types.Basic)
	return ok && b.Info()&types.IsUnsigned != 0
}

func isInteger(t types.Type) bool {
	if t == nil {
		return false
	}
	b, ok := t.Underlying().(*types.Basic)
	return ok && b.Info()&types.IsInteger != 0
}

func isString(t types.Type) bool {
	if t == nil {
		return false
	}
	b, ok := t.Underlying().(*types.Basic)
	return ok && b.Info()&types.IsString != 0
}

func isBoolean(t types.Type) bool {
	if t == nil {
		return false
	}
	b, ok := t.Underlying().(*types.Basic)
	return ok && b.Info()&types.IsBoolean != 0
}

func bitWidth(t types.Type) int {
	b, ok := t.Underlying().(*types.Basic)
	if !ok {
		return 64
	}
	switch b.Kind() {
	case types.Int8, types.Uint8:
		return 8
	case types.Int16, types.Uint16:
		return 16
	case types.Int32, types.Uint32:
		return 32
	}
	return 64
}

func isInterface(t types.Type) bool {
	if t == nil {
		return false
	}
	_, ok := t.Underlying().(*types.Interface)
	return ok
}

func isPointer(t types.Type) bool {
	if t == nil {
		return false
	}
	_, ok := t.Underlying().(*types.Pointer)
	return ok
}

// typeKey is a stable, short name of a type for heap keys.
func typeKey(t types.Type) string {
	t = types.Unalias(t)
	if b, ok := t.(*types.Basic); ok {
		switch b.Kind() {
		case types.Uint8:
			return "uint8"
		case types.Int32:
			return "int32"
		}
	}
	if _, ok := t.(*types.Interface); ok && t.String() == "any" {
		return "interface{}"
	}
	s := typeKey1(t)
	s = strings.ReplaceAll(s, "[]byte", "[]uint8")
	return s
}

func typeKey1(t types.Type) string {
	return types.TypeString(t, func(p *types.Package) string {
		if strings.HasSuffix(p.Path(), "folbricht/desync") {
			return ""
		}
		if strings.HasSuffix(p.Path(), "folbricht/desync/cmd/desync") {
			return "main"
		}
		return p.Name()
	})
}
