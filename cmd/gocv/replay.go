package main

// Replay of refutations against the real code. A refuted obligation is mapped (by name) to
// a replay template: a Go test injected into /repo with `go test -overlay` (nothing is
// written to /repo). The test drives the real function with an input of the class the
// model describes and prints REPLAY-CONFIRMED when the violating behaviour is observed.
// Without a template, or when the behaviour is not reproduced, the violation is reported
// with the suffix no-failing-input-found.

import (
	"sync"
	"context"
	"encoding/json"
	"fmt"
	"os"
	"os/exec"
	"path/filepath"
	"regexp"
	"strings"
	"time"
)

type replayTemplate struct {
	Obligation string `json:"obligation"` // regexp on the logical obligation name
	File       string `json:"file"`       // test source under /verif/replay
	Test       string `json:"test"`       // test function name
	Pkg        string `json:"pkg"`        // "." or "./cmd/desync"
	Note       string `json:"note"`
	// FailConfirms: the test is a plain demonstration (no REPLAY-CONFIRMED marker): it passes on code that has
	// the property and its failure ("--- FAIL: <test>") is the confirmation
	FailConfirms bool `json:"fail_confirms"`
	// Schedule: statements inserted into a scratch copy of a source file (overlay, nothing is written
	// to /repo) after the first line matching a regexp. Only calls of delay helpers defined in the
	// replay test are inserted: they constrain the goroutine schedule, not the behaviour.
	Schedule []schedulePoint `json:"schedule"`
}

type schedulePoint struct {
	File   string `json:"file"`
	After  string `json:"after"`
	Insert string `json:"insert"`
}

func tryReplay(eng *Engine, prop string, l *logical, seed int) (bool, map[string]interface{}) {
	// the templates of the --verif directory in use; the directory of the installed binary is the fallback
	verif := eng.verifDir
	if _, err := os.Stat(filepath.Join(verif, "replay", "templates.json")); err != nil {
		verif = "/verif"
		if exe, err := os.Executable(); err == nil {
			verif = filepath.Dir(filepath.Dir(exe))
		}
	}
	data, err := os.ReadFile(filepath.Join(verif, "replay", "templates.json"))
	if err != nil {
		return false, map[string]interface{}{"outcome": "no replay templates"}
	}
	var tpls []replayTemplate
	if err := json.Unmarshal(data, &tpls); err != nil {
		return false, map[string]interface{}{"outcome": "bad templates.json: " + err.Error()}
	}
	var last map[string]interface{}
	for _, t := range tpls {
		re, err := regexp.Compile("^(?:" + t.Obligation + ")$")
		if err != nil || !re.MatchString(l.Name) {
			continue
		}
		key := t.File + "#" + t.Test
		replayMu.Lock()
		c, cached := replayCache[key]
		replayMu.Unlock()
		var ok bool
		var out string
		if cached {
			ok, out = c.ok, c.out
		} else {
			ok, out = runReplay(eng.repoDir, filepath.Join(verif, "replay", t.File), t.Test, t.Pkg, seed, t.Schedule)
			if !ok && !strings.Contains(out, "--- PASS") && !strings.Contains(out, "--- FAIL") && !strings.Contains(out, "\nok ") {
				// no verdict (the machine is busy: build or test ran into the time limit): once more
				ok, out = runReplay(eng.repoDir, filepath.Join(verif, "replay", t.File), t.Test, t.Pkg, seed, t.Schedule)
			}
			if !ok && t.FailConfirms {
				// the test name may be a regular expression covering several demonstration tests
				if re, err := regexp.Compile("--- FAIL: (" + t.Test + ")"); err == nil && re.MatchString(out) {
					ok = true
				}
			}
			replayMu.Lock()
			replayCache[key] = replayOutcome{ok, out}
			replayMu.Unlock()
		}
		outcome := "REPLAY-NOT-REPRODUCED"
		if ok {
			outcome = "REPLAY-CONFIRMED"
		}
		res := map[string]interface{}{"outcome": outcome, "template": t.File, "test": t.Test, "note": t.Note, "output": out}
		if ok {
			return true, res
		}
		// several templates may cover one obligation (different inputs): the first that confirms decides
		if last == nil {
			last = res
		} else {
			tried, _ := last["also_tried"].([]string)
			last["also_tried"] = append(tried, t.File)
		}
	}
	if last != nil {
		return false, last
	}
	return false, map[string]interface{}{"outcome": "no replay template for this obligation"}
}

func runReplay(repo, src, test, pkg string, seed int, sched []schedulePoint) (bool, string) {
	tmp, err := os.MkdirTemp("", "gocv-replay-")
	if err != nil {
		return false, err.Error()
	}
	defer os.RemoveAll(tmp)
	dir := repo
	if pkg != "" && pkg != "." {
		dir = filepath.Join(repo, pkg)
	}
	target := filepath.Join(dir, "zz_verif_replay_test.go")
	ov := map[string]map[string]string{"Replace": {target: src}}
	for i, sp := range sched {
		orig := filepath.Join(dir, sp.File)
		data, err := os.ReadFile(orig)
		if err != nil {
			return false, err.Error()
		}
		re, err := regexp.Compile(sp.After)
		if err != nil {
			return false, err.Error()
		}
		lines := strings.Split(string(data), "\n")
		done := false
		for k, ln := range lines {
			if re.MatchString(ln) {
				lines[k] = ln + "\n" + sp.Insert
				done = true
				break
			}
		}
		if !done {
			return false, fmt.Sprintf("schedule point %q not found in %s", sp.After, sp.File)
		}
		patched := filepath.Join(tmp, fmt.Sprintf("sched%d_%s", i, filepath.Base(sp.File)))
		os.WriteFile(patched, []byte(strings.Join(lines, "\n")), 0o644)
		ov["Replace"][orig] = patched
	}
	ovData, _ := json.Marshal(ov)
	ovFile := filepath.Join(tmp, "overlay.json")
	os.WriteFile(ovFile, ovData, 0o644)
	ctx, cancel := context.WithTimeout(context.Background(), 240*time.Second)
	defer cancel()
	cmd := exec.CommandContext(ctx, "go", "test", "-overlay", ovFile, "-v", "-vet=off", "-count=1", "-timeout", "120s", "-run", "^("+test+")$", ".")
	cmd.Dir = dir
	cmd.Env = append(os.Environ(), "GOFLAGS=-mod=readonly", "GOPROXY=off", "GOSUMDB=off", "GOTOOLCHAIN=local", fmt.Sprintf("VERIF_SEED=%d", seed))
	out, _ := cmd.CombinedOutput()
	s := string(out)
	confirmed := strings.Contains(s, "REPLAY-CONFIRMED")
	if len(s) > 8000 {
		// keep both ends: the verdict lines of a test with sub-tests come last
		s = s[:4000] + "\n...[truncated]...\n" + s[len(s)-4000:]
	}
	return confirmed, s
}

type replayOutcome struct {
	ok  bool
	out string
}

var (
	replayMu    sync.Mutex
	replayCache = map[string]replayOutcome{}
)
