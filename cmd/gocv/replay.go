package main

// Replay of refutations against the real code (go test -overlay). Families are added per
// property; without a template the violation is reported with no-failing-input-found.

func tryReplay(eng *Engine, prop string, l *logical, seed int) (bool, map[string]interface{}) {
	return false, map[string]interface{}{"outcome": "no replay template for this obligation family"}
}
