package main

// SMT-LIB term construction. A Term is an s-expression string plus its sort.
// Light constant folding keeps the verification conditions small.

import (
	"fmt"
	"math/big"
	"sort"
	"strings"
)

type Sort string

const (
	SInt  Sort = "Int"
	SBool Sort = "Bool"
	SStr  Sort = "Str"
	SFlt  Sort = "Flt"
)

func ArrSort(idx, elem Sort) Sort { return Sort("(Array " + string(idx) + " " + string(elem) + ")") }
func BVSort(n int) Sort          { return Sort(fmt.Sprintf("(_ BitVec %d)", n)) }

func (s Sort) isArray() bool { return strings.HasPrefix(string(s), "(Array ") }
func (s Sort) isBV() bool    { return strings.HasPrefix(string(s), "(_ BitVec ") }
func (s Sort) bvWidth() int {
	var n int
	fmt.Sscanf(string(s), "(_ BitVec %d)", &n)
	return n
}

// arrElem returns the element sort of an array sort "(Array I E)".
func (s Sort) arrElem() Sort {
	str := string(s)
	str = strings.TrimSuffix(strings.TrimPrefix(str, "(Array "), ")")
	// index sort is first token or parenthesised group
	i := skipSexp(str, 0)
	return Sort(strings.TrimSpace(str[i:]))
}
func (s Sort) arrIdx() Sort {
	str := string(s)
	str = strings.TrimSuffix(strings.TrimPrefix(str, "(Array "), ")")
	i := skipSexp(str, 0)
	return Sort(strings.TrimSpace(str[:i]))
}

func skipSexp(s string, i int) int {
	for i < len(s) && s[i] == ' ' {
		i++
	}
	if i < len(s) && s[i] == '(' {
		d := 0
		for ; i < len(s); i++ {
			if s[i] == '(' {
				d++
			} else if s[i] == ')' {
				d--
				if d == 0 {
					return i + 1
				}
			}
		}
		return i
	}
	for i < len(s) && s[i] != ' ' && s[i] != ')' {
		i++
	}
	return i
}

type Term struct {
	S    string
	Sort Sort
}

var (
	TTrue  = Term{"true", SBool}
	TFalse = Term{"false", SBool}
)

func (t Term) IsTrue() bool  { return t.S == "true" }
func (t Term) IsFalse() bool { return t.S == "false" }
func (t Term) String() string { return t.S }

func IntLit(n int64) Term {
	if n < 0 {
		return Term{fmt.Sprintf("(- %d)", -n), SInt}
	}
	return Term{fmt.Sprintf("%d", n), SInt}
}

func BigLit(n *big.Int) Term {
	if n.Sign() < 0 {
		return Term{"(- " + new(big.Int).Neg(n).String() + ")", SInt}
	}
	return Term{n.String(), SInt}
}

func BVLit(n *big.Int, w int) Term {
	m := new(big.Int).Lsh(big.NewInt(1), uint(w))
	v := new(big.Int).Mod(n, m)
	return Term{fmt.Sprintf("(_ bv%s %d)", v.String(), w), BVSort(w)}
}

// intVal returns the literal value of an Int term, if it is one.
func (t Term) intVal() (*big.Int, bool) {
	if t.Sort != SInt {
		return nil, false
	}
	s := t.S
	neg := false
	if strings.HasPrefix(s, "(- ") && strings.HasSuffix(s, ")") && !strings.Contains(s[3:], " ") {
		neg = true
		s = s[3 : len(s)-1]
	}
	if s == "" || s[0] < '0' || s[0] > '9' {
		return nil, false
	}
	for _, c := range s {
		if c < '0' || c > '9' {
			return nil, false
		}
	}
	v, ok := new(big.Int).SetString(s, 10)
	if !ok {
		return nil, false
	}
	if neg {
		v.Neg(v)
	}
	return v, true
}

func App(op string, sort Sort, args ...Term) Term {
	if len(args) == 0 {
		return Term{op, sort}
	}
	var b strings.Builder
	b.WriteByte('(')
	b.WriteString(op)
	for _, a := range args {
		b.WriteByte(' ')
		b.WriteString(a.S)
	}
	b.WriteByte(')')
	return Term{b.String(), sort}
}

func Not(a Term) Term {
	switch {
	case a.IsTrue():
		return TFalse
	case a.IsFalse():
		return TTrue
	case strings.HasPrefix(a.S, "(not ") && skipSexp(a.S, 5) == len(a.S)-1:
		return Term{a.S[5 : len(a.S)-1], SBool}
	}
	return App("not", SBool, a)
}

func And(as ...Term) Term {
	var keep []Term
	seen := map[string]bool{}
	for _, a := range as {
		if a.IsFalse() {
			return TFalse
		}
		if a.IsTrue() || seen[a.S] {
			continue
		}
		seen[a.S] = true
		keep = append(keep, a)
	}
	switch len(keep) {
	case 0:
		return TTrue
	case 1:
		return keep[0]
	}
	return App("and", SBool, keep...)
}

func Or(as ...Term) Term {
	var keep []Term
	seen := map[string]bool{}
	for _, a := range as {
		if a.IsTrue() {
			return TTrue
		}
		if a.IsFalse() || seen[a.S] {
			continue
		}
		seen[a.S] = true
		keep = append(keep, a)
	}
	switch len(keep) {
	case 0:
		return TFalse
	case 1:
		return keep[0]
	}
	return App("or", SBool, keep...)
}

func Imp(a, b Term) Term {
	switch {
	case a.IsTrue():
		return b
	case a.IsFalse() || b.IsTrue():
		return TTrue
	case b.IsFalse():
		return Not(a)
	}
	return App("=>", SBool, a, b)
}

func Iff(a, b Term) Term { return Eq(a, b) }

func Eq(a, b Term) Term {
	if a.S == b.S {
		return TTrue
	}
	if av, ok := a.intVal(); ok {
		if bv, ok := b.intVal(); ok {
			if av.Cmp(bv) == 0 {
				return TTrue
			}
			return TFalse
		}
	}
	if a.Sort == SBool {
		if b.IsTrue() {
			return a
		}
		if a.IsTrue() {
			return b
		}
		if b.IsFalse() {
			return Not(a)
		}
		if a.IsFalse() {
			return Not(b)
		}
	}
	return App("=", SBool, a, b)
}

func Ne(a, b Term) Term { return Not(Eq(a, b)) }

func Ite(c, a, b Term) Term {
	switch {
	case c.IsTrue():
		return a
	case c.IsFalse():
		return b
	case a.S == b.S:
		return a
	}
	if a.Sort == SBool {
		if a.IsTrue() && b.IsFalse() {
			return c
		}
		if a.IsFalse() && b.IsTrue() {
			return Not(c)
		}
	}
	return App("ite", a.Sort, c, a, b)
}

func arith2(op string, a, b Term, f func(x, y *big.Int) *big.Int) Term {
	if av, ok := a.intVal(); ok {
		if bv, ok := b.intVal(); ok && f != nil {
			return BigLit(f(av, bv))
		}
	}
	return App(op, SInt, a, b)
}

func Add(a, b Term) Term {
	if a.Sort.isBV() {
		return App("bvadd", a.Sort, a, b)
	}
	if v, ok := b.intVal(); ok && v.Sign() == 0 {
		return a
	}
	if v, ok := a.intVal(); ok && v.Sign() == 0 {
		return b
	}
	return arith2("+", a, b, func(x, y *big.Int) *big.Int { return new(big.Int).Add(x, y) })
}

func Sub(a, b Term) Term {
	if a.Sort.isBV() {
		return App("bvsub", a.Sort, a, b)
	}
	if v, ok := b.intVal(); ok && v.Sign() == 0 {
		return a
	}
	if a.S == b.S {
		return IntLit(0)
	}
	return arith2("-", a, b, func(x, y *big.Int) *big.Int { return new(big.Int).Sub(x, y) })
}

func Mul(a, b Term) Term {
	if a.Sort.isBV() {
		return App("bvmul", a.Sort, a, b)
	}
	if v, ok := b.intVal(); ok && v.Cmp(big.NewInt(1)) == 0 {
		return a
	}
	if v, ok := a.intVal(); ok && v.Cmp(big.NewInt(1)) == 0 {
		return b
	}
	return arith2("*", a, b, func(x, y *big.Int) *big.Int { return new(big.Int).Mul(x, y) })
}

func Neg(a Term) Term {
	if v, ok := a.intVal(); ok {
		return BigLit(new(big.Int).Neg(v))
	}
	if a.Sort.isBV() {
		return App("bvneg", a.Sort, a)
	}
	return App("-", SInt, a)
}

func cmp(op string, a, b Term, f func(c int) bool) Term {
	if av, ok := a.intVal(); ok {
		if bv, ok := b.intVal(); ok {
			if f(av.Cmp(bv)) {
				return TTrue
			}
			return TFalse
		}
	}
	return App(op, SBool, a, b)
}

func Lt(a, b Term) Term { return cmp("<", a, b, func(c int) bool { return c < 0 }) }
func Le(a, b Term) Term {
	if a.S == b.S {
		return TTrue
	}
	return cmp("<=", a, b, func(c int) bool { return c <= 0 })
}
func Gt(a, b Term) Term { return Lt(b, a) }
func Ge(a, b Term) Term { return Le(b, a) }

func Select(arr, idx Term) Term {
	// select over store with syntactically equal index
	if strings.HasPrefix(arr.S, "(store ") {
		// parse (store A I V)
		i0 := len("(store ")
		i1 := skipSexp(arr.S, i0)
		i2 := skipSexp(arr.S, i1)
		i3 := skipSexp(arr.S, i2)
		if i3 == len(arr.S)-1 {
			I := strings.TrimSpace(arr.S[i1:i2])
			V := strings.TrimSpace(arr.S[i2:i3])
			if I == idx.S {
				return Term{V, arr.Sort.arrElem()}
			}
			// literal, distinct indices: look through
			if iv, ok := (Term{I, SInt}).intVal(); ok && arr.Sort.arrIdx() == SInt {
				if jv, ok := idx.intVal(); ok && iv.Cmp(jv) != 0 {
					return Select(Term{strings.TrimSpace(arr.S[i0:i1]), arr.Sort}, idx)
				}
			}
		}
	}
	return App("select", arr.Sort.arrElem(), arr, idx)
}

func Store(arr, idx, val Term) Term {
	return App("store", arr.Sort, arr, idx, val)
}

func ConstArr(s Sort, v Term) Term {
	return Term{"((as const " + string(s) + ") " + v.S + ")", s}
}

func Forall(vars []Term, body Term) Term { return quant("forall", vars, body) }
func Exists(vars []Term, body Term) Term { return quant("exists", vars, body) }

func quant(q string, vars []Term, body Term) Term {
	if body.IsTrue() || body.IsFalse() {
		return body
	}
	var b strings.Builder
	b.WriteString("(" + q + " (")
	for _, v := range vars {
		b.WriteString("(" + v.S + " " + string(v.Sort) + ")")
	}
	b.WriteString(") " + body.S + ")")
	return Term{b.String(), SBool}
}

// symbols returns the set of symbol tokens in an s-expression.
func symbolsIn(s string, into map[string]bool) {
	i := 0
	for i < len(s) {
		c := s[i]
		if c == '(' || c == ')' || c == ' ' || c == '\n' || c == '\t' {
			i++
			continue
		}
		if c == '|' {
			j := i + 1
			for j < len(s) && s[j] != '|' {
				j++
			}
			into[s[i:j+1]] = true
			i = j + 1
			continue
		}
		j := i
		for j < len(s) && s[j] != '(' && s[j] != ')' && s[j] != ' ' && s[j] != '\n' && s[j] != '\t' {
			j++
		}
		into[s[i:j]] = true
		i = j
	}
}

// smtName makes a string safe as an SMT symbol.
func smtName(s string) string {
	ok := true
	for _, c := range s {
		if !(c >= 'a' && c <= 'z' || c >= 'A' && c <= 'Z' || c >= '0' && c <= '9' || c == '_' || c == '.' || c == '$' || c == '!' || c == '@' || c == '#') {
			ok = false
			break
		}
	}
	if ok && s != "" && !(s[0] >= '0' && s[0] <= '9') {
		return s
	}
	s = strings.ReplaceAll(s, "|", "!")
	s = strings.ReplaceAll(s, "\\", "!")
	return "|" + s + "|"
}

// Decls is a registry of SMT declarations.
type Decls struct {
	order []string          // symbol names in declaration order
	text  map[string]string // name -> declaration command
	deps  map[string][]string
	n     int
}

func NewDecls() *Decls { return &Decls{text: map[string]string{}, deps: map[string][]string{}} }

func (d *Decls) has(name string) bool { _, ok := d.text[name]; return ok }

func (d *Decls) declare(name, cmd string) {
	if _, ok := d.text[name]; ok {
		return
	}
	d.text[name] = cmd
	d.order = append(d.order, name)
}

func (d *Decls) Const(name string, s Sort) Term {
	n := smtName(name)
	d.declare(n, fmt.Sprintf("(declare-fun %s () %s)", n, s))
	return Term{n, s}
}

func (d *Decls) Fresh(prefix string, s Sort) Term {
	d.n++
	return d.Const(fmt.Sprintf("%s!%d", prefix, d.n), s)
}

func (d *Decls) Fun(name string, args []Sort, ret Sort) string {
	n := smtName(name)
	var as []string
	for _, a := range args {
		as = append(as, string(a))
	}
	d.declare(n, fmt.Sprintf("(declare-fun %s (%s) %s)", n, strings.Join(as, " "), ret))
	return n
}

func (d *Decls) DefineFun(name string, params []Term, ret Sort, body Term) string {
	n := smtName(name)
	var ps []string
	for _, p := range params {
		ps = append(ps, fmt.Sprintf("(%s %s)", p.S, p.Sort))
	}
	d.declare(n, fmt.Sprintf("(define-fun %s (%s) %s %s)", n, strings.Join(ps, " "), ret, body.S))
	return n
}

// emit returns the declarations needed (transitively) by the given texts, in order.
func (d *Decls) emit(texts ...string) string {
	need := map[string]bool{}
	for _, t := range texts {
		symbolsIn(t, need)
	}
	// transitive closure over define-fun bodies
	changed := true
	for changed {
		changed = false
		for _, name := range d.order {
			if need[name] && strings.HasPrefix(d.text[name], "(define-fun") {
				before := len(need)
				symbolsIn(d.text[name], need)
				if len(need) != before {
					changed = true
				}
			}
		}
	}
	var b strings.Builder
	for _, name := range d.order {
		if need[name] {
			b.WriteString(d.text[name])
			b.WriteByte('\n')
		}
	}
	return b.String()
}

func sortedKeys[V any](m map[string]V) []string {
	ks := make([]string, 0, len(m))
	for k := range m {
		ks = append(ks, k)
	}
	sort.Strings(ks)
	return ks
}
