package main

// Parser for the contract files: //@ blocks in /repo/verif_contracts*.go (build tag verif)
// and in /verif/stubs/*.spec (library stubs, trusted).

import (
	"fmt"
	"os"
	"regexp"
	"strconv"
	"strings"
)

type Clause struct {
	Kind  string   // requires ensures invariant decreases modifies oncall ghost assert ...
	Props []string // @C01 tags; empty = all properties of the function
	Text  string
	Arg   string // oncall pattern, ghost anchor, label name
	Line  int
	File  string
	Expr  SpecExpr // parsed lazily
	Name  string   // optional clause name ("ensures fed: ...")
	Assumed bool   // "trusted ensures <expr>": used at call sites, not proved from the body (listed as assumption)
}

type LoopSpec struct {
	Invariants []*Clause
	Decreases  *Clause
	Modifies   []*Clause
}

type UnitSpec struct {
	Requires []*Clause
	Ensures  []*Clause
	Modifies []*Clause
	OnCall   []*Clause
	Ghost    []*Clause // ghost@anchor statements
	Asserts  []*Clause // assert@anchor
	Loops    map[int]*LoopSpec
	Labels   map[string]*LoopSpec // goto-label invariants
	Lits     map[int]*UnitSpec
	Captures []*Clause
	Chans    []*Clause // chan NAME: P(v)
}

func newUnitSpec() *UnitSpec {
	return &UnitSpec{Loops: map[int]*LoopSpec{}, Labels: map[string]*LoopSpec{}, Lits: map[int]*UnitSpec{}}
}

type FuncContract struct {
	Header   string
	RecvName string
	RecvType string // "Chunker", "os.File"; "" for functions
	Name     string // "Next" or "os.Stat" (qualified for stubs)
	Params   []string
	Results  []string
	HasSig   bool
	Props    []string
	Spec     *UnitSpec
	Inline   bool
	Trusted  bool // contract assumed, body not verified
	AssumeEnsures bool // body verified for safety and frame; the ensures clauses are assumed (listed)
	Pure     bool
	Verify   bool // body is verified (repo functions unless trusted/extern)
	Arith    string
	Checks   map[string]bool
	NoChecks map[string]bool
	Safety   []string // properties the zero-annotation safety obligations are attributed to (nil = all props)
	HasSafety bool
	File     string
	Line     int
	Stub     bool
	Iface    bool
}

type GhostDecl struct {
	Name  string // without $
	Type  string
	Field bool
	Line  int
}

type SpecFunc struct {
	Name    string
	Params  []struct{ Name, Type string }
	Ret     string
	Body    string
	Opaque  bool
	Line    int
	File    string
	BodyExp SpecExpr
}

type Axiom struct {
	Name  string
	Text  string
	BV    bool // lemma over machine bit-vectors (arith bv)
	Lemma bool
	Manual bool // not assumed globally: instantiated explicitly with use@anchor name(args)
	Props []string
	Line  int
	File  string
	Expr  SpecExpr
}

type Guard struct {
	Type   string   // struct type name
	Fields []string // guarded field names
	Mutex  string   // mutex field name ("" = embedded Mutex)
	Inv    string
	InvExp SpecExpr
	Rely   string // two-state relation between successive views of the guarded fields: old(e) = earlier view
	RelyExp SpecExpr
	Line   int
	File   string
}

// Owner declares the only functions allowed to write the named fields of a struct type (so that
// a representation invariant proved for those functions is an invariant of the type).
type Owner struct {
	Type    string
	Fields  []string
	Writers []string
	Props   []string
	Line    int
	File    string
}

type ContractFile struct {
	Owners   []*Owner
	Funcs    []*FuncContract
	Ghosts   []*GhostDecl
	Specs    []*SpecFunc
	Axioms   []*Axiom
	Guards   []*Guard
	Sorts    []string
	ErrTypes []string
}

var (
	reFuncHdr = regexp.MustCompile(`^func\s+(?:\(\s*(\w+)\s+\*?([\w./-]+)\s*\)\s*)?([\w./:-]+)\s*(?:\(([^)]*)\))?\s*(?:\(([^)]*)\))?\s*$`)
	reTag     = regexp.MustCompile(`^@(C\d+(?:,C\d+)*)\s+`)
	reLoop    = regexp.MustCompile(`^loop\s+(\d+)\s*:\s*(.*)$`)
	reLabel   = regexp.MustCompile(`^label\s+(\w+)\s*:\s*(.*)$`)
	reLit     = regexp.MustCompile(`^lit\s+(\d+)\s*:\s*(.*)$`)
)

func splitNames(s string) []string {
	var out []string
	for _, p := range strings.Split(s, ",") {
		p = strings.TrimSpace(p)
		if p == "" {
			continue
		}
		// allow "name type" — keep the name only
		out = append(out, strings.Fields(p)[0])
	}
	return out
}

// ParseContractFile reads //@ lines of a file.
func ParseContractFile(path string, stub bool, into *ContractFile) error {
	data, err := os.ReadFile(path)
	if err != nil {
		return err
	}
	lines := strings.Split(string(data), "\n")
	var cur *FuncContract
	var pending string
	pendingLine := 0
	for i := 0; i < len(lines); i++ {
		ln := strings.TrimSpace(lines[i])
		if !strings.HasPrefix(ln, "//@") {
			if !strings.HasPrefix(ln, "//") {
				// blank or code line ends a block
				if ln == "" {
					cur = cur // blocks may contain blank comment lines; keep
				}
			}
			continue
		}
		body := strings.TrimSpace(strings.TrimPrefix(ln, "//@"))
		if body == "" {
			continue
		}
		if i := strings.Index(body, " //#"); i >= 0 { // trailing remark
			body = strings.TrimSpace(body[:i])
		}
		if strings.HasSuffix(body, "\\") {
			if pending == "" {
				pendingLine = i + 1
			}
			pending += strings.TrimSuffix(body, "\\") + " "
			continue
		}
		lineNo := i + 1
		if pending != "" {
			body = pending + body
			lineNo = pendingLine
			pending = ""
		}
		if err := parseContractLine(body, path, lineNo, stub, into, &cur); err != nil {
			return fmt.Errorf("%s:%d: %v", path, lineNo, err)
		}
	}
	return nil
}

func parseContractLine(body, path string, line int, stub bool, cf *ContractFile, cur **FuncContract) error {
	word := body
	rest := ""
	if i := strings.IndexAny(body, " \t"); i >= 0 {
		word, rest = body[:i], strings.TrimSpace(body[i+1:])
	}
	switch {
	case word == "func":
		m := reFuncHdr.FindStringSubmatch(body)
		if m == nil {
			return fmt.Errorf("bad func header: %q", body)
		}
		fc := &FuncContract{Header: body, RecvName: m[1], RecvType: m[2], Name: m[3], Spec: newUnitSpec(), File: path, Line: line, Stub: stub,
			Checks: map[string]bool{}, NoChecks: map[string]bool{}}
		if strings.Contains(body, "(") && (m[4] != "" || m[5] != "" || strings.Contains(strings.TrimPrefix(body, "func"), m[3]+"(")) {
			idx := strings.Index(body, m[3])
			after := body[idx+len(m[3]):]
			if strings.HasPrefix(strings.TrimSpace(after), "(") {
				fc.HasSig = true
				fc.Params = splitNames(m[4])
				fc.Results = splitNames(m[5])
			}
		}
		fc.Verify = !stub
		cf.Funcs = append(cf.Funcs, fc)
		*cur = fc
		return nil
	case word == "ghost" && (strings.HasPrefix(rest, "var ") || strings.HasPrefix(rest, "field ")):
		f := strings.Fields(rest)
		if len(f) < 3 {
			return fmt.Errorf("bad ghost decl")
		}
		cf.Ghosts = append(cf.Ghosts, &GhostDecl{Name: strings.TrimPrefix(f[1], "$"), Type: strings.Join(f[2:], " "), Field: f[0] == "field", Line: line})
		return nil
	case word == "sort":
		cf.Sorts = append(cf.Sorts, strings.Fields(rest)...)
		return nil
	case word == "spec":
		// spec func name(a T, b T) R [= expr] [opaque]
		r := strings.TrimSpace(strings.TrimPrefix(rest, "func"))
		op := strings.Index(r, "(")
		cp := matchParen(r, op)
		if op < 0 || cp < 0 {
			return fmt.Errorf("bad spec func")
		}
		sf := &SpecFunc{Name: strings.TrimSpace(r[:op]), Line: line, File: path}
		for _, p := range strings.Split(r[op+1:cp], ",") {
			p = strings.TrimSpace(p)
			if p == "" {
				continue
			}
			fs := strings.SplitN(p, " ", 2)
			if len(fs) != 2 {
				return fmt.Errorf("spec func param needs a type: %q", p)
			}
			sf.Params = append(sf.Params, struct{ Name, Type string }{fs[0], strings.TrimSpace(fs[1])})
		}
		tail := strings.TrimSpace(r[cp+1:])
		if i := strings.Index(tail, "="); i >= 0 && !strings.HasPrefix(tail[i:], "==") {
			sf.Ret = strings.TrimSpace(tail[:i])
			sf.Body = strings.TrimSpace(tail[i+1:])
		} else {
			sf.Ret = tail
		}
		if strings.HasSuffix(sf.Ret, " opaque") {
			sf.Ret = strings.TrimSpace(strings.TrimSuffix(sf.Ret, " opaque"))
			sf.Opaque = true
		}
		cf.Specs = append(cf.Specs, sf)
		return nil
	case word == "axiom" || word == "lemma":
		props, r := takeTags(rest)
		bv := false
		if strings.HasPrefix(r, "bv ") {
			bv = true
			r = strings.TrimSpace(r[3:])
		}
		manual := false
		if strings.HasPrefix(r, "manual ") {
			manual = true
			r = strings.TrimSpace(r[7:])
		}
		i := strings.Index(r, ":")
		if i < 0 {
			return fmt.Errorf("axiom/lemma needs a name")
		}
		cf.Axioms = append(cf.Axioms, &Axiom{Name: strings.TrimSpace(r[:i]), Text: strings.TrimSpace(r[i+1:]), Lemma: word == "lemma", BV: bv, Manual: manual, Props: props, Line: line, File: path})
		return nil
	case word == "owner":
		// owner [@Cxx] T: f1, f2 by F1, T.M2
		props, r := takeTags(rest)
		i := strings.Index(r, ":")
		by := strings.Index(r, " by ")
		if i < 0 || by < 0 {
			return fmt.Errorf("bad owner")
		}
		cf.Owners = append(cf.Owners, &Owner{Type: strings.TrimSpace(r[:i]), Fields: splitNames(r[i+1 : by]), Writers: splitNames(r[by+4:]), Props: props, Line: line, File: path})
		return nil
	case word == "guard":
		// guard T: f1, f2 by mu inv expr
		i := strings.Index(rest, ":")
		by := strings.Index(rest, " by ")
		if i < 0 || by < 0 {
			return fmt.Errorf("bad guard")
		}
		g := &Guard{Type: strings.TrimSpace(rest[:i]), Line: line, File: path}
		g.Fields = splitNames(rest[i+1 : by])
		tail := strings.TrimSpace(rest[by+4:])
		if j := strings.Index(tail, " rely "); j >= 0 {
			g.Rely = strings.TrimSpace(tail[j+6:])
			tail = strings.TrimSpace(tail[:j])
		}
		if j := strings.Index(tail, " inv "); j >= 0 {
			g.Mutex = strings.TrimSpace(tail[:j])
			g.Inv = strings.TrimSpace(tail[j+5:])
		} else {
			g.Mutex = tail
		}
		cf.Guards = append(cf.Guards, g)
		return nil
	}
	if *cur == nil {
		return fmt.Errorf("clause outside func block: %q", body)
	}
	return parseClause(body, path, line, *cur, (*cur).Spec)
}

func takeTags(s string) ([]string, string) {
	if m := reTag.FindStringSubmatch(s); m != nil {
		return strings.Split(m[1], ","), strings.TrimSpace(s[len(m[0]):])
	}
	return nil, s
}

func matchParen(s string, open int) int {
	if open < 0 || open >= len(s) {
		return -1
	}
	d := 0
	for i := open; i < len(s); i++ {
		switch s[i] {
		case '(':
			d++
		case ')':
			d--
			if d == 0 {
				return i
			}
		}
	}
	return -1
}

func parseClause(body, path string, line int, fc *FuncContract, us *UnitSpec) error {
	if m := reLit.FindStringSubmatch(body); m != nil {
		k, _ := strconv.Atoi(m[1])
		sub := us.Lits[k]
		if sub == nil {
			sub = newUnitSpec()
			us.Lits[k] = sub
		}
		return parseClause(m[2], path, line, fc, sub)
	}
	if m := reLoop.FindStringSubmatch(body); m != nil {
		k, _ := strconv.Atoi(m[1])
		ls := us.Loops[k]
		if ls == nil {
			ls = &LoopSpec{}
			us.Loops[k] = ls
		}
		return parseLoopClause(m[2], path, line, ls)
	}
	if m := reLabel.FindStringSubmatch(body); m != nil {
		ls := us.Labels[m[1]]
		if ls == nil {
			ls = &LoopSpec{}
			us.Labels[m[1]] = ls
		}
		return parseLoopClause(m[2], path, line, ls)
	}
	word := body
	rest := ""
	if i := strings.IndexAny(body, " \t"); i >= 0 {
		word, rest = body[:i], strings.TrimSpace(body[i+1:])
	}
	mk := func(kind string) *Clause {
		props, r := takeTags(rest)
		return &Clause{Kind: kind, Props: props, Text: r, Line: line, File: path}
	}
	switch {
	case word == "requires":
		us.Requires = append(us.Requires, mk(word))
	case word == "ensures":
		us.Ensures = append(us.Ensures, mk(word))
	case word == "modifies":
		us.Modifies = append(us.Modifies, mk(word))
	case word == "captures":
		us.Captures = append(us.Captures, mk(word))
	case word == "chan":
		i := strings.Index(rest, ":")
		if i < 0 {
			return fmt.Errorf("bad chan clause")
		}
		c := &Clause{Kind: "chan", Arg: strings.TrimSpace(rest[:i]), Line: line, File: path}
		c.Props, c.Text = takeTags(strings.TrimSpace(rest[i+1:]))
		us.Chans = append(us.Chans, c)
	case word == "oncall":
		// oncall PATTERN: requires expr
		i := strings.Index(rest, ":")
		if i < 0 {
			return fmt.Errorf("bad oncall")
		}
		c := &Clause{Kind: "oncall", Arg: strings.TrimSpace(rest[:i]), Line: line, File: path}
		r := strings.TrimSpace(rest[i+1:])
		r = strings.TrimSpace(strings.TrimPrefix(r, "requires"))
		c.Props, c.Text = takeTags(r)
		us.OnCall = append(us.OnCall, c)
	case strings.HasPrefix(word, "ghost@"):
		c := &Clause{Kind: "ghost", Arg: strings.TrimPrefix(word, "ghost@"), Text: rest, Line: line, File: path}
		us.Ghost = append(us.Ghost, c)
	case strings.HasPrefix(word, "assert@"):
		c := mk("assert")
		c.Arg = strings.TrimPrefix(word, "assert@")
		us.Asserts = append(us.Asserts, c)
	case strings.HasPrefix(word, "use@"):
		// use@anchor axiomName(arg, ...): an explicit instance of a declared (manual) axiom
		c := mk("use")
		c.Arg = strings.TrimPrefix(word, "use@")
		us.Asserts = append(us.Asserts, c)
	case strings.HasPrefix(word, "assume@"):
		c := mk("assume")
		c.Arg = strings.TrimPrefix(word, "assume@")
		us.Asserts = append(us.Asserts, c)
	case word == "prop":
		fc.Props = append(fc.Props, strings.Fields(strings.ReplaceAll(rest, ",", " "))...)
	case word == "safety":
		fc.HasSafety = true
		for _, c := range strings.Fields(strings.ReplaceAll(rest, ",", " ")) {
			if c != "none" {
				fc.Safety = append(fc.Safety, c)
			}
		}
	case word == "inline":
		fc.Inline = true
	case word == "trusted" && rest == "ensures":
		fc.AssumeEnsures = true
	case word == "trusted" && strings.HasPrefix(rest, "ensures "):
		rest = strings.TrimSpace(strings.TrimPrefix(rest, "ensures "))
		c := mk("ensures")
		c.Assumed = true
		us.Ensures = append(us.Ensures, c)
	case word == "trusted":
		fc.Trusted = true
		fc.Verify = false
	case word == "pure":
		fc.Pure = true
	case word == "arith":
		fc.Arith = rest
	case word == "checks":
		for _, c := range strings.Fields(strings.ReplaceAll(rest, ",", " ")) {
			fc.Checks[c] = true
		}
	case word == "nochecks":
		for _, c := range strings.Fields(strings.ReplaceAll(rest, ",", " ")) {
			fc.NoChecks[c] = true
		}
	default:
		return fmt.Errorf("unknown clause %q", word)
	}
	return nil
}

func parseLoopClause(body, path string, line int, ls *LoopSpec) error {
	word := body
	rest := ""
	if i := strings.IndexAny(body, " \t"); i >= 0 {
		word, rest = body[:i], strings.TrimSpace(body[i+1:])
	}
	props, r := takeTags(rest)
	c := &Clause{Kind: word, Props: props, Text: r, Line: line, File: path}
	switch word {
	case "invariant":
		ls.Invariants = append(ls.Invariants, c)
	case "decreases":
		ls.Decreases = c
	case "modifies":
		ls.Modifies = append(ls.Modifies, c)
	default:
		return fmt.Errorf("unknown loop clause %q", word)
	}
	return nil
}
