package main

// Spec expression syntax: Go expressions plus
//   A ==> B, A <==> B (lowest precedence, ==> right associative)
//   forall x T, y T :: P      exists x T :: P
//   old(e), $ghost names, result names
// Parsing: the non-Go operators are peeled off textually, the rest goes to go/parser.

import (
	"fmt"
	"go/ast"
	"go/parser"
	"strings"
)

type SpecExpr interface{}

type SImp struct{ A, B SpecExpr }
type SIff struct{ A, B SpecExpr }
type SQuant struct {
	Forall bool
	Vars   []struct{ Name, Type string }
	Body   SpecExpr
}
type SGo struct {
	E    ast.Expr
	Subs map[string]SpecExpr
	Src  string
}

const ghostPrefix = "GHOST_"

func ParseSpec(src string) (SpecExpr, error) {
	src = strings.ReplaceAll(src, "$", ghostPrefix)
	p := &specParser{subs: map[string]SpecExpr{}}
	return p.parse(src)
}

type specParser struct {
	subs map[string]SpecExpr
	n    int
}

// splitTop splits s at the first (or last) top-level occurrence of op.
func splitTop(s, op string, last bool) (string, string, bool) {
	depth := 0
	found := -1
	inStr := byte(0)
	for i := 0; i < len(s); i++ {
		c := s[i]
		if inStr != 0 {
			if c == '\\' {
				i++
			} else if c == inStr {
				inStr = 0
			}
			continue
		}
		switch c {
		case '"', '\'', '`':
			inStr = c
		case '(', '[', '{':
			depth++
		case ')', ']', '}':
			depth--
		default:
			if depth == 0 && strings.HasPrefix(s[i:], op) {
				// "==>" must not be part of "<==>"
				if op == "==>" && i > 0 && s[i-1] == '<' {
					continue
				}
				found = i
				if !last {
					return s[:i], s[i+len(op):], true
				}
				i += len(op) - 1
			}
		}
	}
	if found >= 0 {
		return s[:found], s[found+len(op):], true
	}
	return "", "", false
}

func (p *specParser) parse(src string) (SpecExpr, error) {
	s := strings.TrimSpace(src)
	if s == "" {
		return nil, fmt.Errorf("empty spec expression")
	}
	for _, q := range []string{"forall ", "exists "} {
		if strings.HasPrefix(s, q) {
			binder, body, ok := splitTop(s[len(q):], "::", false)
			if !ok {
				return nil, fmt.Errorf("quantifier without '::' in %q", s)
			}
			sq := &SQuant{Forall: q == "forall "}
			for _, v := range strings.Split(binder, ",") {
				f := strings.Fields(v)
				if len(f) < 2 {
					return nil, fmt.Errorf("bad binder %q", v)
				}
				sq.Vars = append(sq.Vars, struct{ Name, Type string }{f[0], strings.Join(f[1:], " ")})
			}
			b, err := p.parse(body)
			if err != nil {
				return nil, err
			}
			sq.Body = b
			return sq, nil
		}
	}
	// a quantifier that follows an operator extends to the end of the expression
	for _, q := range []string{"forall ", "exists "} {
		if head, tail, ok := splitTop(s, q, false); ok && strings.TrimSpace(head) != "" {
			h := strings.TrimSpace(head)
			if strings.HasSuffix(h, "&&") || strings.HasSuffix(h, "||") || strings.HasSuffix(h, "!") || strings.HasSuffix(h, "==>") {
				sub, err := p.parse(q + tail)
				if err != nil {
					return nil, err
				}
				p.n++
				name := fmt.Sprintf("SPECSUB_%d", p.n)
				p.subs[name] = sub
				return p.parse(head + " " + name)
			}
		}
	}
	if a, b, ok := splitTop(s, "<==>", false); ok {
		ea, err := p.parse(a)
		if err != nil {
			return nil, err
		}
		eb, err := p.parse(b)
		if err != nil {
			return nil, err
		}
		return &SIff{ea, eb}, nil
	}
	if a, b, ok := splitTop(s, "==>", false); ok {
		ea, err := p.parse(a)
		if err != nil {
			return nil, err
		}
		eb, err := p.parse(b)
		if err != nil {
			return nil, err
		}
		return &SImp{ea, eb}, nil
	}
	// Replace parenthesised groups containing spec-only syntax by placeholders.
	subs := p.subs
	var out strings.Builder
	for i := 0; i < len(s); i++ {
		c := s[i]
		if c == '"' || c == '`' || c == '\'' {
			j := i + 1
			for j < len(s) && s[j] != c {
				if s[j] == '\\' {
					j++
				}
				j++
			}
			if j >= len(s) {
				j = len(s) - 1
			}
			out.WriteString(s[i : j+1])
			i = j
			continue
		}
		if c == '(' {
			j := matchParen(s, i)
			if j < 0 {
				return nil, fmt.Errorf("unbalanced parentheses in %q", s)
			}
			inner := s[i+1 : j]
			if needsSpec(inner) {
				// if the group itself (not nested deeper) has spec syntax at top level, parse it;
				// otherwise recurse into nested groups by parsing it as a sub-expression anyway.
				sub, err := p.parse(inner)
				if err != nil {
					return nil, err
				}
				p.n++
				name := fmt.Sprintf("SPECSUB_%d", p.n)
				subs[name] = sub
				// keep call syntax intact: f(<group>) -> f(SPECSUB)
				out.WriteString("(" + name + ")")
				i = j
				continue
			}
		}
		out.WriteByte(c)
	}
	e, err := parser.ParseExpr(out.String())
	if err != nil {
		return nil, fmt.Errorf("cannot parse %q: %v", s, err)
	}
	return &SGo{E: e, Subs: subs, Src: s}, nil
}

func needsSpec(s string) bool {
	if strings.Contains(s, "==>") || strings.Contains(s, "::") {
		return true
	}
	return false
}
