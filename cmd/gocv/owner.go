package main

// Field ownership: a syntactic, whole-package obligation that only the declared functions write
// the named fields of a struct type (assignment, inc/dec, address-of, composite literal keys or an
// unkeyed literal). It turns the postconditions proved for those functions into a type invariant.

import (
	"fmt"
	"go/ast"
	"go/token"
	"go/types"
	"sort"
	"strings"
)

func (e *Engine) ownerUnit(prop string) *Unit {
	var owners []*Owner
	for _, o := range e.cf.Owners {
		if hasProp(o.Props, prop) {
			owners = append(owners, o)
		}
	}
	if len(owners) == 0 {
		return nil
	}
	u := newUnit(e, "owner", e.root)
	u.props = []string{prop}
	for _, o := range owners {
		if o.Type == "var" {
			e.ownerVars(u, o, prop)
			continue
		}
		t, err := e.resolveType(e.root.Types, o.Type)
		if err != nil {
			u.fail("%s:%d: %v", shortFile(o.File), o.Line, err)
			continue
		}
		stt, ok := t.Underlying().(*types.Struct)
		if !ok {
			u.fail("%s:%d: owner: %s is not a struct", shortFile(o.File), o.Line, o.Type)
			continue
		}
		fields := map[*types.Var]bool{}
		for i := 0; i < stt.NumFields(); i++ {
			for _, f := range o.Fields {
				if stt.Field(i).Name() == f {
					fields[stt.Field(i)] = true
				}
			}
		}
		if len(fields) != len(o.Fields) {
			u.fail("%s:%d: owner: unknown field in %v", shortFile(o.File), o.Line, o.Fields)
			continue
		}
		allowed := map[string]bool{}
		for _, w := range o.Writers {
			allowed[w] = true
		}
		offenders := map[string]bool{}
		seenWriters := map[string]bool{}
		for fn, fi := range e.funcs {
			if fi.decl == nil || fi.decl.Body == nil {
				continue
			}
			info := fi.pkg.TypesInfo
			name := funcKey(fn)
			hit := func(pos token.Pos, what string) {
				seenWriters[name] = true
				if !allowed[name] {
					offenders[fmt.Sprintf("%s writes %s at %s", name, what, fmt.Sprintf("%s:%d", shortFile(fi.pkg.Fset.Position(pos).Filename), fi.pkg.Fset.Position(pos).Line))] = true
				}
			}
			fieldOf := func(x ast.Expr) (*types.Var, bool) {
				for {
					switch y := ast.Unparen(x).(type) {
					case *ast.IndexExpr:
						x = y.X
						continue
					case *ast.SliceExpr:
						x = y.X
						continue
					case *ast.SelectorExpr:
						if v, ok := info.Uses[y.Sel].(*types.Var); ok && v.IsField() && fields[v] {
							return v, true
						}
						return nil, false
					}
					return nil, false
				}
			}
			ast.Inspect(fi.decl.Body, func(n ast.Node) bool {
				switch x := n.(type) {
				case *ast.AssignStmt:
					for _, l := range x.Lhs {
						if v, ok := fieldOf(l); ok {
							hit(l.Pos(), o.Type+"."+v.Name())
						}
					}
				case *ast.IncDecStmt:
					if v, ok := fieldOf(x.X); ok {
						hit(x.Pos(), o.Type+"."+v.Name())
					}
				case *ast.UnaryExpr:
					if x.Op == token.AND {
						if v, ok := fieldOf(x.X); ok {
							hit(x.Pos(), "&"+o.Type+"."+v.Name())
						}
					}
				case *ast.CompositeLit:
					tv, ok := info.Types[x]
					if !ok || !types.Identical(tv.Type.Underlying(), stt) || len(x.Elts) == 0 {
						return true
					}
					if nt, ok := tv.Type.(*types.Named); !ok || nt.Obj().Name() != strings.TrimPrefix(o.Type, "*") {
						return true
					}
					keyed := false
					for _, el := range x.Elts {
						if kv, ok := el.(*ast.KeyValueExpr); ok {
							keyed = true
							if id, ok := kv.Key.(*ast.Ident); ok {
								if v, ok := info.Uses[id].(*types.Var); ok && fields[v] {
									hit(kv.Pos(), o.Type+"."+v.Name()+" (literal)")
								}
							}
						}
					}
					if !keyed {
						hit(x.Pos(), o.Type+" (unkeyed literal)")
					} else {
						// a keyed literal that leaves an owned field out gives it the zero value: a value of the type made
						// without going through the functions that establish what the fields hold
						for v := range fields {
							named := false
							for _, el := range x.Elts {
								if kv, ok := el.(*ast.KeyValueExpr); ok {
									if id, ok := kv.Key.(*ast.Ident); ok && info.Uses[id] == types.Object(v) {
										named = true
									}
								}
							}
							if !named {
								hit(x.Pos(), o.Type+"."+v.Name()+" (literal leaves it zero)")
							}
						}
					}
				}
				return true
			})
		}
		var offs []string
		for k := range offenders {
			offs = append(offs, k)
		}
		sort.Strings(offs)
		goal := TTrue
		info := fmt.Sprintf("only %s write %s.{%s}", strings.Join(o.Writers, ", "), o.Type, strings.Join(o.Fields, ","))
		if len(offs) > 0 {
			goal = TFalse
			info += "; offenders: " + strings.Join(offs, "; ")
		}
		st := newState()
		u.oblige(st, o.Type+"."+strings.Join(o.Fields, "+"), "owner", []string{prop}, goal, 0, info)
	}
	return u
}

// ownerVars: `owner var: x, y by init:x, init:y` - package-level variables of the root package that are
// written (assigned, inc/dec'd, address taken) only by the named units; with their initializers under
// contract (init:x) this makes the initializers' postconditions invariants of the package.
func (e *Engine) ownerVars(u *Unit, o *Owner, prop string) {
	vars := map[types.Object]bool{}
	for _, f := range o.Fields {
		obj, ok := e.root.Types.Scope().Lookup(f).(*types.Var)
		if !ok {
			u.fail("%s:%d: owner var: unknown package variable %s", shortFile(o.File), o.Line, f)
			return
		}
		vars[obj] = true
	}
	allowed := map[string]bool{}
	for _, w := range o.Writers {
		allowed[w] = true
	}
	offenders := map[string]bool{}
	for fn, fi := range e.funcs {
		if fi.decl == nil || fi.decl.Body == nil {
			continue
		}
		info := fi.pkg.TypesInfo
		name := funcKey(fn)
		varOf := func(x ast.Expr) (types.Object, bool) {
			for {
				switch y := ast.Unparen(x).(type) {
				case *ast.IndexExpr:
					x = y.X
					continue
				case *ast.SliceExpr:
					x = y.X
					continue
				case *ast.SelectorExpr:
					if _, isPkg := info.Uses[identOf(y.X)].(*types.PkgName); isPkg {
						if obj := info.Uses[y.Sel]; vars[obj] {
							return obj, true
						}
					}
					return nil, false
				case *ast.Ident:
					if obj := info.ObjectOf(y); obj != nil && vars[obj] {
						return obj, true
					}
					return nil, false
				}
				return nil, false
			}
		}
		hit := func(pos token.Pos, what string) {
			if !allowed[name] {
				offenders[fmt.Sprintf("%s writes %s at %s:%d", name, what, shortFile(fi.pkg.Fset.Position(pos).Filename), fi.pkg.Fset.Position(pos).Line)] = true
			}
		}
		ast.Inspect(fi.decl.Body, func(n ast.Node) bool {
			switch x := n.(type) {
			case *ast.AssignStmt:
				for _, l := range x.Lhs {
					if v, ok := varOf(l); ok {
						hit(l.Pos(), v.Name())
					}
				}
			case *ast.IncDecStmt:
				if v, ok := varOf(x.X); ok {
					hit(x.Pos(), v.Name())
				}
			case *ast.UnaryExpr:
				if x.Op == token.AND {
					if v, ok := varOf(x.X); ok {
						hit(x.Pos(), "&"+v.Name())
					}
				}
			}
			return true
		})
	}
	var offs []string
	for k := range offenders {
		offs = append(offs, k)
	}
	sort.Strings(offs)
	goal := TTrue
	info := fmt.Sprintf("only %s write the package variables %s", strings.Join(o.Writers, ", "), strings.Join(o.Fields, ","))
	if len(offs) > 0 {
		goal = TFalse
		info += "; offenders: " + strings.Join(offs, "; ")
	}
	u.oblige(newState(), "var."+strings.Join(o.Fields, "+"), "owner", []string{prop}, goal, 0, info)
}

func identOf(x ast.Expr) *ast.Ident {
	id, _ := ast.Unparen(x).(*ast.Ident)
	return id
}
