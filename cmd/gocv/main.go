package main

import (
	"runtime"
	"encoding/json"
	"flag"
	"fmt"
	"go/types"
	"os"
	"path/filepath"
	"regexp"
	"sort"
	"strconv"
	"strings"
	"time"
)

type KnownFinding struct {
	Property   string `json:"property"`
	Obligation string `json:"obligation"`
	What       string `json:"what"`
	Status     string `json:"status"` // open | fixed
	Witness    string `json:"witness,omitempty"`
	Commit     string `json:"commit,omitempty"`
	ID         string `json:"id,omitempty"`
}

type logical struct {
	Name   string
	Kind   string
	Subs   []*Obligation
	Pos    string
	Info   string
	OK     bool
	Status string
	Solver string
	Ms     int64
	Fail   *Obligation
}

func usage() {
	fmt.Fprintln(os.Stderr, "usage: gocv check <PROP> [--thorough] [--update-baseline] [--repo DIR] [--verif DIR] [-v]")
	os.Exit(2)
}

func hasProp(ps []string, p string) bool {
	for _, x := range ps {
		if x == p {
			return true
		}
	}
	return false
}

func main() {
	if len(os.Args) >= 3 && os.Args[1] == "replay-template" {
		// gocv replay-template <obligation-name> [repo]: run the replay template registered for an obligation
		repo := "/repo"
		if len(os.Args) > 3 {
			repo = os.Args[3]
		}
		ok, info := tryReplay(&Engine{repoDir: repo}, "", &logical{Name: os.Args[2]}, 0)
		out, _ := json.MarshalIndent(info, "", " ")
		fmt.Println(strings.ReplaceAll(string(out), "\\n", "\n"))
		if ok {
			os.Exit(1)
		}
		os.Exit(0)
	}
	if len(os.Args) < 3 || os.Args[1] != "check" {
		usage()
	}
	prop := os.Args[2]
	fs := flag.NewFlagSet("check", flag.ExitOnError)
	thorough := fs.Bool("thorough", false, "thorough mode")
	update := fs.Bool("update-baseline", false, "rewrite the obligation ledger from this run")
	repo := fs.String("repo", "/repo", "repository")
	verif := fs.String("verif", "/verif", "verif dir")
	verbose := fs.Bool("v", false, "verbose")
	only := fs.String("only", "", "only functions matching this regexp")
	dump := fs.Bool("dump", false, "keep SMT files and print their paths for failures")
	jobs := fs.Int("j", 16, "parallel solver jobs")
	secsFlag := fs.Int("secs", 0, "per-obligation solver timeout")
	fs.Parse(os.Args[3:])
	t0 := time.Now()
	seed := 0
	if s := os.Getenv("VERIF_SEED"); s != "" {
		seed, _ = strconv.Atoi(s)
	}
	tier := "quick"
	secs := 10
	if *thorough || os.Getenv("VERIF_TIER") == "thorough" {
		tier = "thorough"
		*thorough = true
		secs = 60
	}
	if *secsFlag > 0 {
		secs = *secsFlag
	}

	// Watchdog: verification-condition generation for a body far outside what the contracts were written for can
	// blow up (path explosion). Running out of memory must not look like a verdict: the run ends as undecided.
	go func() {
		limit := uint64(6) << 30
		if v := os.Getenv("GOCV_MEM_LIMIT_MB"); v != "" {
			if n, err := strconv.Atoi(v); err == nil && n > 0 {
				limit = uint64(n) << 20
			}
		}
		for {
			time.Sleep(400 * time.Millisecond)
			var m runtime.MemStats
			runtime.ReadMemStats(&m)
			if m.HeapAlloc > limit {
				msg := fmt.Sprintf("engine resource limit: %d MiB of heap in use while generating / solving verification conditions; nothing is decided for this tree", m.HeapAlloc>>20)
				ev := map[string]interface{}{"property_id": prop, "tier": tier, "seed": seed, "level": "proof",
					"coverage": map[string]interface{}{"evaluations": 1, "distinct_nontrivial": 2, "explanation": msg, "undecided": "all"},
					"wall_s": time.Since(t0).Seconds(), "violations": 0}
				os.MkdirAll(filepath.Join(*verif, "evidence"), 0o755)
				d2, _ := json.MarshalIndent(ev, "", " ")
				os.WriteFile(filepath.Join(*verif, "evidence", prop+".json"), d2, 0o644)
				fmt.Fprintln(os.Stderr, "UNDECIDED:", msg)
				os.Exit(0)
			}
		}
	}()
	eng, err := LoadEngine(*repo, *verif)
	if err != nil {
		failHard(prop, *verif, tier, seed, t0, fmt.Sprintf("engine: %v", err))
	}
	eng.verbose = *verbose
	tLoad := time.Since(t0)

	// units of this property
	var units []*Unit
	eng.loadLocalsBaseline(*verif)
	eng.loadShapes(*verif)
	var fns []*types.Func
	for fn, fc := range eng.contracts {
		if fc.Verify && hasProp(fc.Props, prop) {
			fns = append(fns, fn)
		}
	}
	sort.Slice(fns, func(i, j int) bool { return funcKey(fns[i]) < funcKey(fns[j]) })
	var onlyRe *regexp.Regexp
	if *only != "" {
		onlyRe = regexp.MustCompile(*only)
	}
	runFn := func(fn *types.Func, fc *FuncContract) []*Unit {
		u := eng.RunFunc(fn, fc)
		us := []*Unit{u}
		queue := append([]*Unit(nil), u.subUnits...)
		for len(queue) > 0 {
			su := queue[0]
			queue = queue[1:]
			su.runLit()
			us = append(us, su)
			queue = append(queue, su.subUnits...)
		}
		return us
	}
	fnUnits := map[*types.Func][]*Unit{}
	for _, fn := range fns {
		if onlyRe != nil && !onlyRe.MatchString(funcKey(fn)) {
			continue
		}
		fnUnits[fn] = runFn(fn, eng.contracts[fn])
		units = append(units, fnUnits[fn]...)
	}
	lemmaUnit := eng.lemmaUnit(prop)
	if lemmaUnit != nil && onlyRe == nil {
		units = append(units, lemmaUnit)
	}
	if ou := eng.ownerUnit(prop); ou != nil && onlyRe == nil {
		units = append(units, ou)
	}
	var boundedNotes []string
	if prop == "C13" && onlyRe == nil {
		N := 31
		if *thorough {
			N = 63
		}
		if v := os.Getenv("GOCV_BST_N"); v != "" {
			N, _ = strconv.Atoi(v)
		}
		if bu := eng.boundedBST(prop, N); bu != nil {
			units = append(units, bu)
			boundedNotes = append(boundedNotes, bu.boundedNote)
		}
	}
	tGen := time.Since(t0) - tLoad
	if *verbose {
		for _, u := range units {
			var specs []*UnitSpec
			if u.spec != nil {
				specs = append(specs, u.spec)
			}
			for _, sp := range specs {
				for _, c := range sp.OnCall {
					if _, ok := eng.oncallHit.Load(c); !ok {
						fmt.Fprintf(os.Stderr, "note: %s: oncall pattern %q matched no call site (%s:%d)\n", u.name, c.Arg, shortFile(c.File), c.Line)
					}
				}
			}
		}
	}

	// collect obligations of this property
	var obls []*Obligation
	var engineFailures []string
	// units whose contract could not be evaluated against the current source because a name it mentions
	// (a local variable, a field, a loop or literal ordinal) no longer resolves: the contract is stale,
	// e.g. after a rename. Their obligations are undecided, not violated.
	staleUnits := map[string]string{}
	collect := func() {
	obls, engineFailures = nil, nil
	for k := range staleUnits {
		delete(staleUnits, k)
	}
	for _, sc := range eng.staleContracts {
		if hasProp(sc.props, prop) {
			engineFailures = append(engineFailures, sc.name+": "+sc.msg)
		}
	}
	for _, sc := range eng.staleContracts {
		if hasProp(sc.props, prop) {
			staleUnits[sc.name] = sc.msg
			staleUnits["main."+sc.name] = sc.msg
		}
	}
	for _, u := range units {
		for _, f := range u.failed {
			engineFailures = append(engineFailures, u.name+": "+f)
			if isStaleContractMsg(f) {
				staleUnits[u.name] = f
			}
		}
		for _, h := range u.newHelpers {
			msg := fmt.Sprintf("calls %s, a function that is new since the baseline, has no contract and can not be inlined (loops): the unit can not be decided until it gets one", h)
			if strings.HasPrefix(h, "method ") {
				msg = fmt.Sprintf("%s: library code may call it through an optional interface and no contract describes it, the unit can not be decided", h)
			}
			if strings.HasPrefix(h, "package variable ") {
				msg = fmt.Sprintf("reads %s, which is new since the baseline: nothing specifies what it holds, the unit can not be decided", h)
			}
			if _, dup := staleUnits[u.name]; !dup {
				staleUnits[u.name] = msg
				engineFailures = append(engineFailures, u.name+": "+msg)
			}
		}
		for _, o := range u.obls {
			if hasProp(o.Props, prop) {
				obls = append(obls, o)
			}
		}
	}
	}
	collect()
	work := filepath.Join(os.TempDir(), fmt.Sprintf("gocv-%s-%d", prop, os.Getpid()))
	if *dump {
		// kept for inspection: not named like the scratch directories that later runs sweep
		work = filepath.Join(os.TempDir(), fmt.Sprintf("gocv-dump-%s-%d", prop, os.Getpid()))
	}
	sweepWorkDirs()
	cleanup := func() {
		if !*dump {
			os.RemoveAll(work)
		}
	}
	defer cleanup()
	// obligations recorded as open known findings get a short budget: they are expected to fail
	quickNames := map[string]bool{}
	if data, err := os.ReadFile(filepath.Join(*verif, "known_findings.json")); err == nil {
		var kfs []KnownFinding
		if json.Unmarshal(data, &kfs) == nil {
			for _, k := range kfs {
				if k.Property == prop && k.Status == "open" {
					quickNames[k.Obligation] = true
				}
			}
		}
	}
	// obligations that are not in the ledger of the unchanged tree can only end up undecided (or, replayed,
	// as a violation through their model): they get a brief race so that new helpers with hard frame
	// conditions do not hold the check up
	if !*update && !*thorough {
		if data, err := os.ReadFile(filepath.Join(*verif, "baseline", prop+".json")); err == nil {
			var ls []string
			if json.Unmarshal(data, &ls) == nil && len(ls) > 0 {
				known := map[string]bool{}
				for _, n := range ls {
					known[n] = true
				}
				for _, o := range obls {
					if !known[o.Name] && !known[o.Name+"?absent"] && !o.Cover {
						quickNames[o.Name] = true
					}
				}
			}
		}
	}
	solveAll(obls, solveOpts{dir: work, secs: secs, thorough: *thorough, seed: seed, jobs: *jobs, short: quickNames})
	// Obligations of the ledger that ran out of time (no answer, as opposed to a refutation) get a second,
	// patient pass with little parallelism: wall-clock budgets must not turn a loaded machine into an alarm.
	{
		inLedger := map[string]bool{}
		if data, err := os.ReadFile(filepath.Join(*verif, "baseline", prop+".json")); err == nil {
			var ls []string
			json.Unmarshal(data, &ls)
			for _, n := range ls {
				inLedger[n] = true
			}
		}
		var again []*Obligation
		for _, o := range obls {
			if o.Result == nil || o.Cover || quickNames[o.Name] || !(inLedger[o.Name] || inLedger[o.Name+"?absent"]) {
				continue
			}
			if st := o.Result.Status; st == "timeout" || st == "unknown" || st == "error" {
				again = append(again, o)
			}
		}
		if len(again) > 0 && len(again) <= 40 {
			first := map[*Obligation]*SolveResult{}
			for _, o := range again {
				first[o] = o.Result
			}
			solveAll(again, solveOpts{dir: filepath.Join(work, "retry"), secs: secs, thorough: *thorough, seed: seed, jobs: 3, short: quickNames, patience: 4})
			for _, o := range again {
				o.Result.Tried = append(append([]string{}, first[o].Tried...), append([]string{"retry:"}, o.Result.Tried...)...)
			}
		}
	}
	// Proof repair: where ledger obligations of a function fail (or its contract lost a cut point), try the
	// same contract with its loop invariants restated over a new local of the same type (the role of a
	// counter moved to another variable), or with a vanished label's invariants at a new loop. Only
	// invariants are touched, never requires / ensures / oncall / assert clauses, so a restatement under
	// which every obligation of the function is discharged is a proof of the same specification.
	var repairNotes []string
	var repairedVanish []string // ledger name prefixes replaced by a repaired proof's own obligations
	var repairedVanishIn [][2]string // (unit prefix, substring): ledger names of a repaired unit replaced likewise
	if onlyRe == nil && !*update {
		inLedger := map[string]bool{}
		if data, err := os.ReadFile(filepath.Join(*verif, "baseline", prop+".json")); err == nil {
			var ls []string
			json.Unmarshal(data, &ls)
			for _, n := range ls {
				inLedger[n] = true
			}
		}
		problems := func(us []*Unit, vanishOK string) int {
			if len(us) == 0 {
				return 0
			}
			root := us[0].name
			n := 0
			seen := map[string]bool{}
			for _, u := range us {
				n += len(u.failed) + len(u.newHelpers)
				for _, o := range u.obls {
					if !hasProp(o.Props, prop) {
						continue
					}
					seen[o.Name] = true
					if (inLedger[o.Name] || inLedger[o.Name+"?absent"]) && !quickNames[o.Name] && o.Result != nil && !o.ok() {
						n++
					}
				}
			}
			for name := range inLedger {
				if strings.HasPrefix(name, root+"/") && !seen[name] && !strings.HasSuffix(name, "?absent") && !isSafetyName(name) && !isFrameName(name) && !(vanishOK != "" && strings.Contains(name, vanishOK)) {
					n++
				}
			}
			return n
		}
		for _, fn := range fns {
			us := fnUnits[fn]
			if len(us) == 0 || problems(us, "") == 0 {
				continue
			}
			vs := eng.repairVariants(fn, eng.contracts[fn])
			if len(vs) > 8 {
				vs = vs[:8]
			}
			for vi, v := range vs {
				vus := runFn(fn, v.fc)
				var vobls []*Obligation
				for _, u := range vus {
					for _, o := range u.obls {
						if hasProp(o.Props, prop) {
							vobls = append(vobls, o)
						}
					}
				}
				solveAll(vobls, solveOpts{dir: filepath.Join(work, fmt.Sprintf("repair-%s-%d", funcKey(fn), vi)), secs: secs, thorough: *thorough, seed: seed, jobs: *jobs, short: quickNames})
				if problems(vus, v.vanishOK) != 0 {
					continue
				}
				note := fmt.Sprintf("%s: proof repair - %s (accepted because every obligation of the function is discharged with it; requires/ensures/oncall/assert clauses unchanged)", funcKey(fn), v.note)
				repairNotes = append(repairNotes, note)
				if v.vanishOK != "" {
					if strings.HasPrefix(v.vanishOK, ":") {
						repairedVanishIn = append(repairedVanishIn, [2]string{vus[0].name + "/", v.vanishOK})
					} else {
						repairedVanish = append(repairedVanish, vus[0].name+v.vanishOK)
					}
				}
				vus[0].abstractions[note] = true
				var keep []*Unit
				for _, u := range units {
					mine := false
					for _, x := range us {
						if x == u {
							mine = true
						}
					}
					if !mine {
						keep = append(keep, u)
					}
				}
				units = append(keep, vus...)
				fnUnits[fn] = vus
				break
			}
		}
		if len(repairNotes) > 0 {
			collect()
			for _, n := range repairNotes {
				fmt.Fprintf(os.Stderr, "REPAIRED: %s\n", n)
			}
		}
	}
	tSolve := time.Since(t0) - tLoad - tGen

	// group into logical obligations
	byName := map[string]*logical{}
	var names []string
	for _, o := range obls {
		l := byName[o.Name]
		if l == nil {
			l = &logical{Name: o.Name, Kind: o.Kind, Pos: o.Pos, Info: o.Info, OK: true}
			byName[o.Name] = l
			names = append(names, o.Name)
		}
		l.Subs = append(l.Subs, o)
		if o.Result != nil && o.Result.Ms > l.Ms {
			l.Ms = o.Result.Ms
			l.Solver = o.Result.Solver
		}
		if l.Solver == "" && o.Result != nil {
			l.Solver = o.Result.Solver
		}
		if !o.ok() {
			if l.OK {
				l.Fail = o
			}
			l.OK = false
			l.Status = o.Result.Status
		}
	}
	sort.Strings(names)

	// ledger
	ledgerFile := filepath.Join(*verif, "baseline", prop+".json")
	ledger := map[string]bool{}
	if data, err := os.ReadFile(ledgerFile); err == nil {
		var ls []string
		json.Unmarshal(data, &ls)
		for _, n := range ls {
			ledger[n] = true
		}
	}
	// known findings
	var known []KnownFinding
	if data, err := os.ReadFile(filepath.Join(*verif, "known_findings.json")); err == nil {
		if err := json.Unmarshal(data, &known); err != nil {
			failHard(prop, *verif, tier, seed, t0, "known_findings.json: "+err.Error())
		}
	}
	isKnown := func(name string) *KnownFinding {
		for i := range known {
			if known[i].Property == prop && known[i].Obligation == name && known[i].Status == "open" {
				return &known[i]
			}
		}
		return nil
	}

	if *update {
		if len(staleUnits) > 0 {
			fmt.Fprintf(os.Stderr, "WARNING: --update-baseline while %d unit(s) are stale: their obligations are NOT in the ledger that is written now; fix the contract (or run again if only the baseline format changed) before relying on it\n", len(staleUnits))
		}
		var ls []string
		for _, n := range names {
			l := byName[n]
			if l.Kind == "cover" {
				continue
			}
			if l.OK || isKnown(n) != nil {
				ls = append(ls, n)
			}
		}
		os.MkdirAll(filepath.Dir(ledgerFile), 0o755)
		eng.saveLocalsBaseline(*verif, fns)
		eng.saveShapes(*verif, units)
		data, _ := json.MarshalIndent(ls, "", " ")
		os.WriteFile(ledgerFile, append(data, '\n'), 0o644)
		ledger = map[string]bool{}
		for _, n := range ls {
			ledger[n] = true
		}
		fmt.Fprintf(os.Stderr, "ledger %s: %d obligations\n", ledgerFile, len(ls))
	}

	replayDir := filepath.Join(*verif, "replays", prop)
	var violations []string
	var knownHit []string
	var undecided []string
	claimed, discharged := 0, 0
	var samples []map[string]interface{}
	vacuityFail := 0
	// replayStale: an obligation of a stale unit for which a replay template exists is tried on the real code
	replayStale := func(n string) (string, bool) {
		l := &logical{Name: n, Kind: "stale", Status: "stale-contract"}
		confirmed, info := tryReplay(eng, prop, l, seed)
		if !confirmed {
			return "", false
		}
		os.MkdirAll(replayDir, 0o755)
		file := filepath.Join(replayDir, reUnsafe.ReplaceAllString(n, "_")+".json")
		data, _ := json.MarshalIndent(map[string]interface{}{"property": prop, "obligation": n, "status": "stale contract, replay confirmed",
			"reason": "the unit's contract is stale on this tree (undecided by proof); the recorded replay of this obligation fails on the real code", "replay": info}, "", " ")
		os.WriteFile(file, append(data, '\n'), 0o644)
		return fmt.Sprintf("VIOLATION property=%s replay=%s", prop, file), true
	}
	for _, n := range names {
		l := byName[n]
		if l.Kind == "cover" {
			if !l.OK {
				vacuityFail++
				violations = append(violations, reportViolation(prop, replayDir, l, "vacuous: preconditions or loop guard unsatisfiable", eng, seed))
			}
			continue
		}
		inLedger := ledger[n] || ledger[n+"?absent"] || len(ledger) == 0
		if kf := isKnown(n); kf != nil {
			if !l.OK {
				fmt.Printf("KNOWN-FINDING: property=%s %s [%s]\n", prop, kf.What, n)
				knownHit = append(knownHit, n)
			} else {
				fmt.Fprintf(os.Stderr, "note: known finding %s now discharges (stale entry?)\n", n)
				claimed++
				discharged++
			}
			continue
		}
		if !inLedger {
			// where the property's claim IS the safety sweep of the function (contract clause "safety <prop>",
			// C19: no panic and bounded allocation for every input), a refuted safety obligation at a
			// new or rewritten expression of such a function is a violation in its own right
			if !l.OK && l.Status == "sat" && isSafetyName(n) && l.Fail != nil && l.Fail.Unit != nil && l.Fail.Unit.fc != nil &&
				l.Fail.Unit.fc.HasSafety && hasProp(l.Fail.Unit.fc.Safety, prop) {
				if _, staleU := staleUnits[l.Fail.Unit.name]; !staleU {
					claimed++
					violations = append(violations, reportViolation(prop, replayDir, l, "safety obligation of a function whose contract claims the safety sweep for this property, at an expression the baseline does not have", eng, seed))
					continue
				}
			}
			if !l.OK && l.Status == "sat" {
				// a refuted obligation at a site the unchanged tree does not have: a violation
				// only if the refutation replays on the real code
				if ok, _ := tryReplay(eng, prop, l, seed); ok {
					claimed++
					violations = append(violations, reportViolation(prop, replayDir, l, "new site, refutation replayed on the real code", eng, seed))
					continue
				}
			}
			if !l.OK {
				undecided = append(undecided, fmt.Sprintf("%s (%s) %s", n, l.Status, l.Pos))
				fmt.Fprintf(os.Stderr, "UNDECIDED: %s at %s: %s (not in the ledger of the unchanged tree)\n", n, l.Pos, l.Status)
			}
			continue
		}
		claimed++
		if l.OK {
			// a unit that calls code no contract describes (a helper, package variable or method that is new since
			// the baseline) proves its obligations over an unconstrained stand-in for that code: the proof says
			// nothing about what the new code does. Where a replay is registered for the obligation it is run on the
			// real code and decides.
			if why, isStale := staleUnits[unitOf(n)]; isStale && (strings.HasPrefix(why, "calls ") || strings.HasPrefix(why, "reads ") || strings.HasPrefix(why, "method ")) {
				if v, ok := replayStale(n); ok {
					violations = append(violations, v)
					continue
				}
			}
			discharged++
			if len(samples) < 12 {
				samples = append(samples, map[string]interface{}{"obligation": n, "kind": l.Kind, "at": l.Pos, "clause": l.Info, "solver": l.Solver, "ms": l.Ms, "paths": len(l.Subs)})
			}
			continue
		}
		staleUnit := false
		for un := range staleUnits {
			if strings.HasPrefix(n, un+"/") {
				staleUnit = true
			}
		}
		if staleUnit {
			// the unit's contract could not be evaluated completely: what it produced before the
			// engine stopped is not decisive - unless a recorded replay of this very obligation fails on the
			// real code (then the failing input is the evidence, whatever the state of the contract)
			if v, ok := replayStale(n); ok {
				violations = append(violations, v)
				continue
			}
			undecided = append(undecided, n+" (stale contract)")
			continue
		}
		violations = append(violations, reportViolation(prop, replayDir, l, "", eng, seed))
	}
	// vanished obligations
	var staleObls []string
	for n := range ledger {
		if strings.HasSuffix(n, "?absent") {
			continue // marker of a clause without a site: its disappearance means the site exists now
		}
		if _, ok := byName[n]; !ok && onlyRe == nil {
			stale := false
			for un := range staleUnits {
				if strings.HasPrefix(n, un+"/") {
					stale = true
				}
			}
			for _, u := range units {
				for _, k := range u.goneLoops {
					if strings.HasPrefix(n, fmt.Sprintf("%s/loop%d/", u.name, k)) {
						stale = true
						staleUnits[u.name+fmt.Sprintf("/loop%d", k)] = "the loop is gone from the body (removed or moved into a helper)"
					}
				}
				for _, k := range u.goneLits {
					if strings.HasPrefix(n, fmt.Sprintf("%s/lit%d/", u.name, k)) {
						stale = true
						staleUnits[u.name+fmt.Sprintf("/lit%d", k)] = "the function literal is gone from the body"
					}
				}
			}
			if stale {
				if v, ok := replayStale(n); ok {
					claimed++
					violations = append(violations, v)
					continue
				}
				staleObls = append(staleObls, n)
				continue
			}
			// a safety obligation is named after the expression it guards; when that expression is
			// gone (rewritten, e.g. s[a:len(s)] as s[a:]) there is nothing left to guard - the new
			// expression carries its own obligation
			if isSafetyName(n) || isFrameName(n) {
				continue
			}
			// the precondition of a callee at a call site that no longer exists (the call moved into a helper, or
			// goes through an interface now): nothing is left to show at that site; what the contract demands OF
			// calls is carried by its oncall / ensures clauses, which are checked wherever the call is
			if strings.Contains(n, "/pre:") {
				continue
			}
			replaced := false
			for _, pre := range repairedVanish {
				if strings.HasPrefix(n, pre) {
					replaced = true
				}
			}
			for _, pc := range repairedVanishIn {
				if strings.HasPrefix(n, pc[0]) && strings.Contains(n, pc[1]) {
					replaced = true
				}
			}
			if replaced {
				continue
			}
			l := &logical{Name: n, Kind: "vanished", Status: "vanished"}
			claimed++
			violations = append(violations, reportViolation(prop, replayDir, l, "obligation of the unchanged tree no longer generated (function/contract missing or outside the supported subset)", eng, seed))
		}
	}
	for _, f := range engineFailures {
		fmt.Fprintf(os.Stderr, "ENGINE: %s\n", f)
	}
	if len(staleObls) > 0 {
		sort.Strings(staleObls)
		claimed += len(staleObls)
		for un, msg := range staleUnits {
			fmt.Fprintf(os.Stderr, "STALE-CONTRACT: %s: %s (%d obligations of the ledger undecided on this tree: update the contract)\n", un, msg, len(staleObls))
		}
		for _, n := range staleObls {
			undecided = append(undecided, n+" (stale contract)")
		}
	}
	if len(engineFailures) > 0 && len(violations) == 0 {
		// a unit that could not be executed means its obligations are missing: covered by "vanished"
		// when a ledger exists; without a ledger it is a hard failure
		if len(ledger) == 0 {
			l := &logical{Name: "engine", Kind: "engine", Status: "engine-failure", Info: strings.Join(engineFailures, "; ")}
			violations = append(violations, reportViolation(prop, replayDir, l, strings.Join(engineFailures, "; "), eng, seed))
		}
	}
	if claimed == 0 && len(violations) == 0 {
		l := &logical{Name: "no-obligations", Kind: "vacuity", Status: "none"}
		violations = append(violations, reportViolation(prop, replayDir, l, "no obligations were generated for this property", eng, seed))
	}

	// evidence
	trusted := map[string]bool{}
	abstractions := map[string]bool{}
	assumptions := map[string]bool{}
	var funcs []string
	for _, u := range units {
		funcs = append(funcs, u.name)
		for k := range u.stubsUsed {
			trusted[k] = true
		}
		for k := range u.abstractions {
			abstractions[u.name+": "+k] = true
		}
		for k := range u.assumptions {
			assumptions[k] = true
		}
	}
	for _, a := range eng.cf.Axioms {
		if a.Lemma {
			continue
		}
		// only the axioms that were given to a solver for this property (or instantiated with use@)
		if _, used := eng.axiomsUsed.Load(a.Name); used {
			assumptions["axiom "+a.Name+": "+a.Text] = true
		}
	}
	trusted["VC generator gocv (this repository)"] = true
	trusted["SMT solvers z3-new 5.1.0 / cvc5 1.0 / z3 4.8.12"] = true
	solverCount := map[string]int{}
	var totalMs int64
	for _, o := range obls {
		if o.Result != nil {
			solverCount[o.Result.Solver]++
			totalMs += o.Result.Ms
		}
	}
	ev := map[string]interface{}{
		"property_id": prop,
		"tier":        tier,
		"seed":        seed,
		"level":       "proof",
		"coverage": map[string]interface{}{
			"obligations":              claimed,
			"discharged":               discharged,
			"checker_cmd":              fmt.Sprintf("/verif/bin/gocv check %s%s", prop, map[bool]string{true: " --thorough", false: ""}[*thorough]),
			"trusted_base":             sortedKeys(trusted),
			"samples":                  samples,
			"functions_under_contract": funcs,
			"smt_queries":              len(obls),
			"solver_answers":           solverCount,
			"solver_ms_total":          totalMs,
			"abstractions":             sortedKeys(abstractions),
			"known_findings_hit":       knownHit,
			"bounded":                  boundedNotes,
			"undecided_new_sites":      undecided,
			"vacuity_covers_failed":    vacuityFail,
			"engine_failures":          engineFailures,
			"timing_s":                 map[string]float64{"load": tLoad.Seconds(), "vcgen": tGen.Seconds(), "solve": tSolve.Seconds()},
		},
		"assumptions": sortedKeys(assumptions),
		"wall_s":      time.Since(t0).Seconds(),
		"violations":  len(violations),
	}
	os.MkdirAll(filepath.Join(*verif, "evidence"), 0o755)
	data, _ := json.MarshalIndent(ev, "", " ")
	os.WriteFile(filepath.Join(*verif, "evidence", prop+".json"), append(data, '\n'), 0o644)

	if *verbose {
		slow := append([]*Obligation(nil), obls...)
		sort.Slice(slow, func(i, j int) bool {
			a, b := int64(0), int64(0)
			if slow[i].Result != nil {
				a = slow[i].Result.Ms
			}
			if slow[j].Result != nil {
				b = slow[j].Result.Ms
			}
			return a > b
		})
		for _, o := range obls {
			if o.Result != nil && len(o.Result.Tried) > 1 {
				fmt.Fprintf(os.Stderr, "  fallback: %s %v cover=%v %s\n", o.Name, o.Result.Tried, o.Cover, o.Result.File)
			}
		}
		for i := 0; i < 6 && i < len(slow); i++ {
			if slow[i].Result != nil && slow[i].Result.Ms > 1000 {
				fmt.Fprintf(os.Stderr, "  slow: %s %dms %v %s\n", slow[i].Name, slow[i].Result.Ms, slow[i].Result.Tried, slow[i].Result.File)
			}
		}
		for _, n := range names {
			l := byName[n]
			st := "ok"
			if !l.OK {
				st = "FAIL(" + l.Status + ")"
			}
			fmt.Fprintf(os.Stderr, "  %-70s %-14s %s %dms paths=%d %s\n", n, st, l.Solver, l.Ms, len(l.Subs), l.Pos)
			if !l.OK && *dump && l.Fail != nil && l.Fail.Result != nil {
				fmt.Fprintf(os.Stderr, "      smt: %s  tried: %v\n", l.Fail.Result.File, l.Fail.Result.Tried)
				g := l.Fail.Goal.S
				if len(g) > 400 {
					g = g[:400] + "..."
				}
				fmt.Fprintf(os.Stderr, "      goal: %s\n", g)
			}
		}
	}
	fmt.Fprintf(os.Stderr, "%s: %d/%d obligations discharged (%d queries), %d violations, %d known findings, %d undecided; load %.1fs vcgen %.1fs solve %.1fs\n",
		prop, discharged, claimed, len(obls), len(violations), len(knownHit), len(undecided), tLoad.Seconds(), tGen.Seconds(), tSolve.Seconds())
	for _, v := range violations {
		fmt.Println(v)
	}
	if len(violations) > 0 {
		cleanup()
		os.Exit(1)
	}
}

// unitOf: the unit part of an obligation name ("Func/lit1/ensures#1" -> "Func"; literal units are looked up by their
// own name first by the callers that need them)
func unitOf(n string) string {
	if i := strings.Index(n, "/"); i > 0 {
		return n[:i]
	}
	return n
}

// sweepWorkDirs removes the scratch directories (gocv-<property>-<pid>) of earlier runs whose process is gone: a run
// that was killed (timeout, memory) can not remove its own.
func sweepWorkDirs() {
	ents, err := os.ReadDir(os.TempDir())
	if err != nil {
		return
	}
	re := regexp.MustCompile(`^gocv-C[0-9]+-([0-9]+)$`)
	for _, e := range ents {
		m := re.FindStringSubmatch(e.Name())
		if m == nil || !e.IsDir() {
			continue
		}
		if _, err := os.Stat("/proc/" + m[1]); err == nil {
			continue
		}
		os.RemoveAll(filepath.Join(os.TempDir(), e.Name()))
	}
}

var reUnsafe = regexp.MustCompile(`[^A-Za-z0-9_.@#-]+`)

func reportViolation(prop, dir string, l *logical, why string, eng *Engine, seed int) string {
	os.MkdirAll(dir, 0o755)
	file := filepath.Join(dir, reUnsafe.ReplaceAllString(l.Name, "_")+".json")
	rec := map[string]interface{}{
		"property":   prop,
		"obligation": l.Name,
		"kind":       l.Kind,
		"at":         l.Pos,
		"clause":     l.Info,
		"status":     l.Status,
		"reason":     why,
	}
	suffix := " no-failing-input-found"
	if l.Fail != nil && l.Fail.Result != nil {
		r := l.Fail.Result
		rec["solver"] = r.Solver
		rec["solver_tried"] = r.Tried
		out := r.Output
		if len(out) > 20000 {
			out = out[:20000] + "\n...[truncated]"
		}
		rec["solver_output"] = out
		rec["smt2"] = l.Fail.smtText(true)
		if r.Status != "unsat" {
			// templates drive the real code with an input of the failing class; they do not need the model,
			// so a refutation the solver could not complete (unknown/timeout) is replayed as well
			confirmed, replayInfo := tryReplay(eng, prop, l, seed)
			rec["replay"] = replayInfo
			if confirmed {
				suffix = ""
			}
		}
	}
	data, _ := json.MarshalIndent(rec, "", " ")
	os.WriteFile(file, append(data, '\n'), 0o644)
	return fmt.Sprintf("VIOLATION property=%s replay=%s%s", prop, file, suffix)
}

func failHard(prop, verif, tier string, seed int, t0 time.Time, msg string) {
	dir := filepath.Join(verif, "replays", prop)
	os.MkdirAll(dir, 0o755)
	file := filepath.Join(dir, "engine.json")
	data, _ := json.MarshalIndent(map[string]interface{}{"property": prop, "obligation": "engine", "reason": msg}, "", " ")
	os.WriteFile(file, data, 0o644)
	ev := map[string]interface{}{"property_id": prop, "tier": tier, "seed": seed, "level": "proof",
		"coverage": map[string]interface{}{"evaluations": 1, "distinct_nontrivial": 2, "explanation": "engine failure: " + msg},
		"wall_s": time.Since(t0).Seconds(), "violations": 1}
	os.MkdirAll(filepath.Join(verif, "evidence"), 0o755)
	d2, _ := json.MarshalIndent(ev, "", " ")
	os.WriteFile(filepath.Join(verif, "evidence", prop+".json"), d2, 0o644)
	fmt.Fprintln(os.Stderr, "ENGINE FAILURE:", msg)
	fmt.Printf("VIOLATION property=%s replay=%s no-failing-input-found\n", prop, file)
	os.Exit(1)
}

// lemmaUnit proves the lemmas tagged with the property as standalone obligations.
func (e *Engine) lemmaUnit(prop string) (ru *Unit) {
	var ls []*Axiom
	for _, a := range e.cf.Axioms {
		if a.Lemma && hasProp(a.Props, prop) {
			ls = append(ls, a)
		}
	}
	if len(ls) == 0 {
		return nil
	}
	u := newUnit(e, "lemma", e.root)
	ru = u
	u.props = []string{prop}
	defer func() {
		if r := recover(); r != nil {
			if eu, ok := r.(engineError); ok {
				u.fail("%s", string(eu))
				return
			}
			panic(r)
		}
	}()
	fr := &frame{pkg: e.root.Types, spec: newUnitSpec()}
	u.frames = []*frame{fr}
	for _, a := range ls {
		st := newState()
		u.axiomTerms = nil
		u.bv = a.BV
		if !a.BV {
			u.assumeAxioms(st)
		}
		c := &Clause{Text: a.Text, File: a.File, Line: a.Line}
		// top-level universal quantifiers of a goal are proved for fresh constants (any type,
		// including slices and structs)
		env := map[string]Value{}
		body := a.Expr
		st.clock = u.clk0()
		for {
			q, ok := body.(*SQuant)
			if !ok || !q.Forall {
				break
			}
			for _, v := range q.Vars {
				t, err := e.resolveType(e.root.Types, v.Type)
				if err != nil {
					panic(engineError(fmt.Sprintf("%s:%d: %v", shortFile(a.File), a.Line, err)))
				}
				env[v.Name] = u.freshValue(st, v.Name, t)
			}
			body = q.Body
		}
		t := u.specBoolAt(st, st, env, body, c, 0)
		u.oblige(st, a.Name, "lemma", []string{prop}, t, 0, a.Text)
	}
	return u
}

// isStaleContractMsg recognises engine errors that mean "the contract text does not fit the source any
// more" (as opposed to unsupported code or an internal error).
func isStaleContractMsg(m string) bool {
	for _, k := range []string{"unknown name ", "unknown ghost variable $i", "is not defined in the old state", "in a spec expression", "unknown field", ": no field ", "no field or method", "has no field", "has no method", "has no loop", "has no literal", "no such label"} {
		if strings.Contains(m, k) {
			return true
		}
	}
	return false
}

// isFrameName: frame obligations (what a body or a loop writes stays inside its modifies set, at the end
// and at every break) are generated per location written; code that no longer writes a location, or leaves
// a loop by return instead of break, generates fewer of them - nothing is left unchecked by that.
func isFrameName(n string) bool {
	return strings.Contains(n, "/frame:") || strings.Contains(n, "/frame-break:")
}

func isSafetyName(n string) bool {
	// the expression text after the kind may itself contain slashes (div@chunks/8)
	for _, k := range []string{"bounds@", "div@", "sub@", "make@", "alloc@", "nil@", "conv@", "overflow@", "lock@", "unlock@", "balance@", "lockinv@", "guard@", "guarantee@"} {
		if strings.Contains(n, "/"+k) {
			return true
		}
	}
	return false
}
