package main

// Expression evaluation over the typed AST.

import (
	"fmt"
	"go/ast"
	"go/constant"
	"go/token"
	"go/types"
	"math/big"
	"strings"
)

func exprText(e ast.Expr) string {
	s := types.ExprString(e)
	if len(s) > 48 {
		s = s[:48] + "~"
	}
	return strings.ReplaceAll(s, " ", "")
}

func (u *Unit) typeOf(e ast.Expr) types.Type {
	return u.top().info.TypeOf(e)
}

// constValue converts a compile-time constant.
func (u *Unit) constValue(cv constant.Value, t types.Type) (Value, bool) {
	if t == nil {
		return Value{}, false
	}
	switch cv.Kind() {
	case constant.Bool:
		if constant.BoolVal(cv) {
			return scalar(t, TTrue), true
		}
		return scalar(t, TFalse), true
	case constant.String:
		return scalar(t, u.strLit(constant.StringVal(cv))), true
	case constant.Int:
		n, ok := new(big.Int).SetString(cv.ExactString(), 10)
		if !ok {
			return Value{}, false
		}
		if isInteger(t) || t == types.Typ[types.UntypedInt] || t == types.Typ[types.UntypedRune] {
			if u.bv && isInteger(t) && t != types.Typ[types.UntypedInt] && t != types.Typ[types.UntypedRune] {
				return scalar(t, BVLit(n, bitWidth(t))), true
			}
			return scalar(t, BigLit(n)), true
		}
		if b, ok := t.Underlying().(*types.Basic); ok && b.Info()&types.IsFloat != 0 {
			return scalar(t, u.d.Const("flt_"+n.String(), SFlt)), true
		}
		return scalar(t, BigLit(n)), true
	case constant.Float:
		return scalar(t, u.d.Const("flt_"+strings.ReplaceAll(cv.ExactString(), "/", "_over_"), SFlt)), true
	}
	return Value{}, false
}

func (u *Unit) eval(st *State, e ast.Expr) Value {
	u.curPos = e.Pos()
	info := u.top().info
	if tv, ok := info.Types[e]; ok && tv.Value != nil {
		if v, ok := u.constValue(tv.Value, tv.Type); ok {
			return v
		}
	}
	switch x := e.(type) {
	case *ast.ParenExpr:
		return u.eval(st, x.X)
	case *ast.BasicLit:
		u.unsupported("literal %s", x.Value)
	case *ast.Ident:
		if x.Name == "nil" {
			if t := info.TypeOf(x); t != nil {
				if _, isNil := t.(*types.Basic); isNil {
					return scalar(types.Typ[types.UntypedNil], IntLit(0))
				}
			}
			return scalar(types.Typ[types.UntypedNil], IntLit(0))
		}
		obj := info.ObjectOf(x)
		switch o := obj.(type) {
		case *types.Var:
			return u.load(st, u.varLV(st, o))
		case *types.Const:
			if v, ok := u.constValue(o.Val(), o.Type()); ok {
				return v
			}
		case *types.Func:
			return u.funcValue(o)
		case *types.Nil:
			return scalar(types.Typ[types.UntypedNil], IntLit(0))
		}
		u.unsupported("identifier %s", x.Name)
	case *ast.SelectorExpr:
		if sel, ok := info.Selections[x]; ok {
			switch sel.Kind() {
			case types.FieldVal:
				return u.load(st, u.evalLVr(st, x))
			case types.MethodVal:
				// method value: opaque
				u.abstract("method value %s", exprText(x))
				return u.freshValue(st, "methodval", info.TypeOf(x))
			}
		}
		// qualified identifier pkg.Name
		obj := info.ObjectOf(x.Sel)
		switch o := obj.(type) {
		case *types.Var:
			v := u.load(st, u.varLV(st, o))
			u.sentinelFacts(st, o, v)
			return v
		case *types.Const:
			if v, ok := u.constValue(o.Val(), o.Type()); ok {
				return v
			}
		case *types.Func:
			return u.funcValue(o)
		}
		u.unsupported("selector %s", exprText(x))
	case *ast.StarExpr:
		return u.load(st, u.evalLVr(st, x))
	case *ast.IndexExpr:
		xt := info.TypeOf(x.X)
		if xt != nil {
			if _, isMap := xt.Underlying().(*types.Map); isMap {
				vs := u.evalMapIndex(st, x)
				return vs[0]
			}
			if isString(xt) {
				s := u.eval(st, x.X)
				i := u.eval(st, x.Index)
				u.checkBounds(st, x, i.term(), u.slenOf(st, s.term()), false)
				f := u.d.Fun("sbyte", []Sort{SStr, SInt}, SInt)
				r := App(f, SInt, s.term(), i.term())
				st.assume(And(Le(IntLit(0), r), Le(r, IntLit(255))))
				return scalar(types.Typ[types.Uint8], r)
			}
		}
		return u.load(st, u.evalLVr(st, x))
	case *ast.SliceExpr:
		return u.evalSliceExpr(st, x)
	case *ast.UnaryExpr:
		return u.evalUnary(st, x)
	case *ast.BinaryExpr:
		return u.evalBinary(st, x)
	case *ast.CallExpr:
		vs := u.evalCall(st, x)
		if len(vs) == 0 {
			return Value{T: types.NewTuple()}
		}
		return vs[0]
	case *ast.CompositeLit:
		return u.evalComposite(st, x)
	case *ast.FuncLit:
		return u.closureValue(st, x)
	case *ast.TypeAssertExpr:
		vs := u.evalTypeAssert(st, x, false)
		return vs[0]
	case *ast.KeyValueExpr:
		u.unsupported("key-value expression")
	}
	u.unsupported("expression %T", e)
	return Value{}
}

// evalMulti evaluates an expression yielding n values (call, map index, type assert, receive).
func (u *Unit) evalMulti(st *State, e ast.Expr, n int) []Value {
	switch x := ast.Unparen(e).(type) {
	case *ast.CallExpr:
		vs := u.evalCall(st, x)
		if len(vs) != n {
			u.unsupported("call yields %d values, want %d", len(vs), n)
		}
		return vs
	case *ast.IndexExpr:
		return u.evalMapIndex(st, x)
	case *ast.TypeAssertExpr:
		return u.evalTypeAssert(st, x, true)
	case *ast.UnaryExpr:
		if x.Op == token.ARROW {
			ch := u.eval(st, x.X)
			t := u.typeOf(x.X).Underlying().(*types.Chan).Elem()
			v := u.freshValue(st, "recv", t)
			u.chanRecvFacts(st, x.X, ch, v)
			return []Value{v, boolV(u.d.Fresh("recvok", SBool))}
		}
	}
	u.unsupported("multi-value expression %T", e)
	return nil
}

func (u *Unit) funcValue(fn *types.Func) Value {
	t := u.d.Const("func_"+fn.FullName(), SInt)
	if u.funcConsts == nil {
		u.funcConsts = map[string]*types.Func{}
	}
	u.funcConsts[t.S] = fn
	return scalar(fn.Type(), t)
}

type funcLeaf struct {
	cond Term
	fn   *types.Func
}

// funcLeaves: the top-level functions a function value may be, with the conditions under which it is each
// (`write := a; if c { write = b }` gives ite(c, b, a)); nil when any alternative is something else.
func (u *Unit) funcLeaves(t Term, cond Term) []funcLeaf {
	if fn, ok := u.funcConsts[t.S]; ok {
		if fn.Type().(*types.Signature).Recv() != nil {
			return nil
		}
		return []funcLeaf{{cond, fn}}
	}
	if c, a, b, ok := iteParts(t); ok {
		la := u.funcLeaves(a, And(cond, c))
		lb := u.funcLeaves(b, And(cond, Not(c)))
		if la == nil || lb == nil {
			return nil
		}
		return append(la, lb...)
	}
	return nil
}

func (u *Unit) closureValue(st *State, lit *ast.FuncLit) Value {
	fr := u.top()
	ord := fr.litOrd[lit]
	t := u.d.Const(fmt.Sprintf("closure_%s_%d_%d", u.name, len(u.frames), ord), SInt)
	u.closures[t.S] = &closure{lit: lit, info: fr.info, pkg: fr.pkg, fr: fr}
	return scalar(fr.info.TypeOf(lit), t)
}

// sentinelFacts: error-typed package variables of library packages (io.EOF, ...) are
// non-nil and pairwise distinct.
func (u *Unit) sentinelFacts(st *State, o *types.Var, v Value) {
	if o.Pkg() == nil || !isErrorType(o.Type()) {
		return
	}
	if _, repo := u.eng.allRepoPkgs()[o.Pkg().Path()]; repo {
		return
	}
	st.assume(Ne(v.term(), IntLit(0)))
	for name, t := range u.sentinels {
		if name != globalKey(o) {
			st.assume(Ne(v.term(), t))
		}
	}
	u.sentinels[globalKey(o)] = v.term()
	u.assumptions["library error sentinels (io.EOF, ...) are non-nil and pairwise distinct"] = true
}

// varLV returns the lvalue of a variable (local, boxed, or package-level).
func (u *Unit) varLV(st *State, o *types.Var) LV {
	if o.Pkg() != nil && o.Parent() == o.Pkg().Scope() {
		// a package-level variable of the repository that did not exist at baseline time (a lookup table that
		// replaced a switch, ...): what it holds is not specified anywhere, the unit can not be decided
		if fb := u.eng.funcsBase; fb != nil && u.eng.hasVarBaseline() {
			if _, isRepo := u.eng.allRepoPkgs()[o.Pkg().Path()]; isRepo && !fb["var:"+globalKey(o)] {
				root := u
				for root.parent != nil {
					root = root.parent
				}
				msg := "package variable " + globalKey(o)
				dup := false
				for _, h := range root.newHelpers {
					dup = dup || h == msg
				}
				if !dup {
					root.newHelpers = append(root.newHelpers, msg)
					if root != u {
						u.newHelpers = append(u.newHelpers, msg)
					}
				}
			}
		}
		return LV{kind: lvGlobal, keyT: globalKey(o), T: o.Type()}
	}
	return LV{kind: lvVar, obj: o, T: o.Type()}
}

// evalLVr evaluates an expression as a location for reading (temporaries allowed).
func (u *Unit) evalLVr(st *State, e ast.Expr) LV { return u.evalLV1(st, e, true) }

// evalLV evaluates an assignable expression to an lvalue.
func (u *Unit) evalLV(st *State, e ast.Expr) LV { return u.evalLV1(st, e, false) }

func (u *Unit) evalLV1(st *State, e ast.Expr, read bool) LV {
	info := u.top().info
	u.curPos = e.Pos()
	switch x := e.(type) {
	case *ast.ParenExpr:
		return u.evalLV1(st, x.X, read)
	case *ast.Ident:
		if x.Name == "_" {
			return LV{kind: lvBlank, T: info.TypeOf(x)}
		}
		if o, ok := info.ObjectOf(x).(*types.Var); ok {
			return u.varLV(st, o)
		}
	case *ast.StarExpr:
		p := u.eval(st, x.X)
		pt := p.T.Underlying().(*types.Pointer)
		u.checkNil(st, x, p.term())
		return u.derefLV(p.term(), pt.Elem())
	case *ast.SelectorExpr:
		sel, ok := info.Selections[x]
		if !ok {
			// package-qualified variable
			if o, ok := info.ObjectOf(x.Sel).(*types.Var); ok {
				return u.varLV(st, o)
			}
			break
		}
		// base
		var lv LV
		xt := info.TypeOf(x.X)
		if isPointer(xt) {
			p := u.eval(st, x.X)
			u.checkNil(st, x, p.term())
			lv = u.derefLV(p.term(), xt.Underlying().(*types.Pointer).Elem())
		} else {
			lv = u.evalLV1(st, x.X, true)
		}
		// follow the selection path (embedded fields)
		idx := sel.Index()
		for k, fi := range idx {
			stt, ok := lv.T.Underlying().(*types.Struct)
			if !ok {
				if pt, isP := lv.T.Underlying().(*types.Pointer); isP {
					// embedded pointer
					pv := u.load(st, lv)
					lv = u.derefLV(pv.term(), pt.Elem())
					stt = lv.T.Underlying().(*types.Struct)
				} else {
					u.unsupported("selection through %v", lv.T)
				}
			}
			if sel.Kind() != types.FieldVal && k == len(idx)-1 {
				break
			}
			if opaqueNamed(lv.T) {
				u.unsupported("field of opaque type %v", lv.T)
			}
			lv = lv.field(stt, fi)
		}
		if sel.Kind() == types.FieldVal && len(u.eng.guards) > 0 {
			u.checkGuardedAccess(st, lv, !read, x)
		}
		return lv
	case *ast.IndexExpr:
		xt := info.TypeOf(x.X)
		switch t := xt.Underlying().(type) {
		case *types.Slice:
			s := u.eval(st, x.X)
			i := u.eval(st, x.Index)
			u.checkBounds(st, x, i.term(), s.slen(), false)
			return LV{kind: lvMem, keyT: typeKey(t.Elem()), ref: s.base(), idx: Add(s.off(), i.term()), T: t.Elem()}
		case *types.Array:
			base := u.evalLV1(st, x.X, read)
			i := u.eval(st, x.Index)
			u.checkBounds(st, x, i.term(), IntLit(t.Len()), false)
			if isChunkID(xt) || opaqueNamed(xt) {
				return LV{kind: lvTemp, T: t.Elem(), tmp: u.freshValue(st, "idbyte", t.Elem())}
			}
			n := base
			n.T = t.Elem()
			n.arrIdx = append(append([]Term(nil), base.arrIdx...), u.asInt(i.term()))
			if base.kind == lvTemp {
				ev := Value{T: t.Elem(), L: make([]Term, len(base.tmp.L))}
				for k := range base.tmp.L {
					ev.L[k] = Select(base.tmp.L[k], u.asInt(i.term()))
				}
				n.tmp = ev
				n.arrIdx = nil
			}
			return n
		case *types.Pointer: // pointer to array
			p := u.eval(st, x.X)
			at := t.Elem().Underlying().(*types.Array)
			i := u.eval(st, x.Index)
			u.checkBounds(st, x, i.term(), IntLit(at.Len()), false)
			lv := u.derefLV(p.term(), t.Elem())
			lv.T = at.Elem()
			lv.arrIdx = []Term{u.asInt(i.term())}
			return lv
		case *types.Map:
			m := u.eval(st, x.X)
			k := u.eval(st, x.Index)
			k = u.convert(st, k, t.Key())
			return LV{kind: lvMap, keyT: typeKey(xt), ref: m.term(), idx: k.term(), T: t.Elem(), mapT: t}
		}
	case *ast.CompositeLit, *ast.CallExpr, *ast.SliceExpr, *ast.TypeAssertExpr, *ast.BinaryExpr, *ast.UnaryExpr, *ast.FuncLit, *ast.BasicLit:
		if read {
			v := u.eval(st, e)
			return LV{kind: lvTemp, T: v.T, tmp: v}
		}
	}
	u.unsupported("lvalue %s (%T)", exprText(e), e)
	return LV{}
}

func (u *Unit) asInt(t Term) Term {
	if t.Sort.isBV() {
		return App("bv2nat", SInt, t)
	}
	return t
}

// derefLV is the location a pointer of element type elem points to.
func (u *Unit) derefLV(ref Term, elem types.Type) LV {
	return LV{kind: lvHeap, keyT: typeKey(elem), ref: ref, T: elem}
}

func (u *Unit) evalMapIndex(st *State, x *ast.IndexExpr) []Value {
	xt := u.typeOf(x.X)
	t := xt.Underlying().(*types.Map)
	m := u.eval(st, x.X)
	k := u.convert(st, u.eval(st, x.Index), t.Key())
	ksort := flatten(t.Key())[0].Sort
	dom := u.heapArr(st, "MD:"+typeKey(xt), ArrSort(SInt, ArrSort(ksort, SBool)))
	in := Select(Select(dom, m.term()), k.term())
	stored := u.load(st, LV{kind: lvMap, keyT: typeKey(xt), ref: m.term(), idx: k.term(), T: t.Elem(), mapT: t})
	zero := u.zeroValue(t.Elem())
	v := mergeVal(in, stored, zero)
	v.T = t.Elem()
	return []Value{v, boolV(in)}
}

func (u *Unit) evalSliceExpr(st *State, x *ast.SliceExpr) Value {
	xt := u.typeOf(x.X)
	rt := u.typeOf(x)
	var lo, hi, mx Term
	has := func(e ast.Expr) (Term, bool) {
		if e == nil {
			return Term{}, false
		}
		return u.asInt(u.eval(st, e).term()), true
	}
	switch t := xt.Underlying().(type) {
	case *types.Slice:
		s := u.eval(st, x.X)
		var ok bool
		if lo, ok = has(x.Low); !ok {
			lo = IntLit(0)
		}
		if hi, ok = has(x.High); !ok {
			hi = s.slen()
		}
		if mx, ok = has(x.Max); !ok {
			mx = s.scap()
		}
		if u.checks["bounds"] {
			g := And(Le(IntLit(0), lo), Le(lo, hi), Le(hi, mx), Le(mx, s.scap()))
			u.oblige(st, "bounds@"+exprText(x), "bounds", nil, g, x.Pos(), "slice bounds")
		}
		st.assume(And(Le(IntLit(0), lo), Le(lo, hi), Le(hi, mx), Le(mx, s.scap())))
		return sliceV(rt, s.base(), Add(s.off(), lo), Sub(hi, lo), Sub(mx, lo))
	case *types.Basic: // string
		s := u.eval(st, x.X)
		n := u.slenOf(st, s.term())
		var ok bool
		if lo, ok = has(x.Low); !ok {
			lo = IntLit(0)
		}
		if hi, ok = has(x.High); !ok {
			hi = n
		}
		if u.checks["bounds"] {
			u.oblige(st, "bounds@"+exprText(x), "bounds", nil, And(Le(IntLit(0), lo), Le(lo, hi), Le(hi, n)), x.Pos(), "string slice bounds")
		}
		st.assume(And(Le(IntLit(0), lo), Le(lo, hi), Le(hi, n)))
		f := u.d.Fun("ssub", []Sort{SStr, SInt, SInt}, SStr)
		r := App(f, SStr, s.term(), lo, hi)
		st.assume(Eq(u.slenOf(st, r), Sub(hi, lo)))
		// s[0:len(s)] == s
		st.assume(Imp(And(Eq(lo, IntLit(0)), Eq(hi, n)), Eq(r, s.term())))
		return scalar(rt, r)
	case *types.Array, *types.Pointer:
		// slicing an array (value must be addressable) : a view whose storage is the array.
		// Modelled as a fresh slice with the array's contents copied at this moment (no aliasing back).
		var at *types.Array
		if a, ok := t.(*types.Array); ok {
			at = a
		} else {
			at = t.(*types.Pointer).Elem().Underlying().(*types.Array)
		}
		n := IntLit(at.Len())
		var ok bool
		if lo, ok = has(x.Low); !ok {
			lo = IntLit(0)
		}
		if hi, ok = has(x.High); !ok {
			hi = n
		}
		if u.checks["bounds"] {
			u.oblige(st, "bounds@"+exprText(x), "bounds", nil, And(Le(IntLit(0), lo), Le(lo, hi), Le(hi, n)), x.Pos(), "array slice bounds")
		}
		st.assume(And(Le(IntLit(0), lo), Le(lo, hi), Le(hi, n)))
		base := u.alloc(st, "arrview")
		elem := at.Elem()
		if !isChunkID(xt) && !opaqueNamed(xt) {
			if _, isArr := t.(*types.Array); isArr {
				av := u.eval(st, x.X)
				for k, l := range flatten(elem) {
					key := mKey(typeKey(elem), l.Path)
					arr := u.heapArr(st, key, ArrSort(SInt, ArrSort(SInt, l.Sort)))
					st.heap[key] = Store(arr, base, av.L[k])
				}
			}
		} else {
			// bytes of an ID: abstract content, remembered by an uninterpreted function of the ID
			idv := u.eval(st, x.X)
			f := u.d.Fun("idbytes", []Sort{SInt}, ArrSort(SInt, SInt))
			key := mKey(typeKey(elem), "")
			arr := u.heapArr(st, key, ArrSort(SInt, ArrSort(SInt, SInt)))
			st.heap[key] = Store(arr, base, App(f, ArrSort(SInt, SInt), idv.term()))
		}
		u.abstract("slice of array %s is a copy (writes through the slice do not reach the array)", exprText(x.X))
		return sliceV(rt, base, lo, Sub(hi, lo), Sub(n, lo))
	}
	u.unsupported("slice expression on %v", xt)
	return Value{}
}

func (u *Unit) slenOf(st *State, s Term) Term {
	f := u.d.Fun("slen", []Sort{SStr}, SInt)
	r := App(f, SInt, s)
	if st != nil {
		st.assume(Le(IntLit(0), r))
	}
	return r
}

func (u *Unit) checkBounds(st *State, e ast.Expr, i, n Term, _ bool) {
	i = u.asInt(i)
	g := And(Le(IntLit(0), i), Lt(i, n))
	if u.fc != nil && u.fc.NoChecks["bounds@"+exprText(e)] {
		// site-level waiver (listed as an assumption): the bound is assumed, not proved
		u.assumptions["bounds@"+exprText(e)+" in "+u.name+" assumed (bounded check stands in)"] = true
		st.assume(g)
		return
	}
	if u.checks["bounds"] {
		u.oblige(st, "bounds@"+exprText(e), "bounds", nil, g, e.Pos(), "index in range")
	}
	st.assume(g)
}

func (u *Unit) checkNil(st *State, e ast.Expr, p Term) {
	if u.checks["nil"] {
		u.oblige(st, "nil@"+exprText(e), "nil", nil, Ne(p, IntLit(0)), e.Pos(), "nil dereference")
	}
	st.assume(Ne(p, IntLit(0)))
}

func (u *Unit) evalUnary(st *State, x *ast.UnaryExpr) Value {
	switch x.Op {
	case token.AND:
		// &CompositeLit, &x, &x.f
		inner := ast.Unparen(x.X)
		if cl, ok := inner.(*ast.CompositeLit); ok {
			v := u.evalComposite(st, cl)
			ref := u.alloc(st, "lit")
			u.store(st, u.derefLV(ref, v.T), v)
			return scalar(u.typeOf(x), ref)
		}
		if id, ok := inner.(*ast.Ident); ok {
			if o, ok := u.top().info.ObjectOf(id).(*types.Var); ok {
				if ref, ok := st.boxed[o]; ok {
					return scalar(u.typeOf(x), ref)
				}
				if o.Pkg() != nil && o.Parent() == o.Pkg().Scope() {
					return scalar(u.typeOf(x), u.d.Const("addr_"+globalKey(o), SInt))
				}
			}
		}
		// address of a field or element: an opaque interior pointer
		u.abstract("interior pointer %s", exprText(x))
		r := u.d.Fresh("interior", SInt)
		st.assume(Lt(IntLit(0), r))
		return scalar(u.typeOf(x), r)
	case token.NOT:
		return boolV(Not(u.eval(st, x.X).term()))
	case token.SUB:
		v := u.eval(st, x.X)
		if v.term().Sort == SFlt {
			return scalar(v.T, App(u.d.Fun("fneg", []Sort{SFlt}, SFlt), SFlt, v.term()))
		}
		t := u.typeOf(x)
		return u.binop(st, token.SUB, u.intConst(0, t), v, t, x.Pos())
	case token.ADD:
		return u.eval(st, x.X)
	case token.XOR:
		v := u.eval(st, x.X)
		t := u.typeOf(x)
		if v.term().Sort.isBV() {
			return scalar(t, App("bvnot", v.term().Sort, v.term()))
		}
		if isUnsigned(t) {
			_, hi, _ := intRange(t)
			return scalar(t, Sub(Term{hi, SInt}, v.term()))
		}
		return scalar(t, Sub(Neg(v.term()), IntLit(1)))
	case token.ARROW:
		ch := u.eval(st, x.X)
		t := u.typeOf(x.X).Underlying().(*types.Chan).Elem()
		v := u.freshValue(st, "recv", t)
		u.chanRecvFacts(st, x.X, ch, v)
		if u.inComm == 0 {
			// a plain receive (c := <-ch, outside select): anchors "recv:<channel>" fire with the value bound to v
			u.recvAnchor(st, x, &v)
		}
		return v
	}
	u.unsupported("unary %s", x.Op)
	return Value{}
}

func (u *Unit) evalBinary(st *State, x *ast.BinaryExpr) Value {
	switch x.Op {
	case token.LAND, token.LOR:
		a := u.eval(st, x.X).term()
		// evaluate the right operand under the guard; effects are merged back
		rs := st.clone()
		if x.Op == token.LAND {
			rs.assume(a)
		} else {
			rs.assume(Not(a))
		}
		n0 := len(rs.pc)
		obl0 := len(u.obls)
		b := u.eval(rs, x.Y).term()
		_ = obl0
		// adopt effects: heap/vars changes under the guard
		guard := a
		if x.Op == token.LOR {
			guard = Not(a)
		}
		u.adoptGuarded(st, rs, guard, n0)
		if x.Op == token.LAND {
			return boolV(And(a, b))
		}
		return boolV(Or(a, b))
	}
	l := u.eval(st, x.X)
	r := u.eval(st, x.Y)
	switch x.Op {
	case token.EQL, token.NEQ, token.LSS, token.LEQ, token.GTR, token.GEQ:
		return u.compare(st, x.Op, l, r)
	}
	t := u.typeOf(x)
	if x.Op == token.SHL || x.Op == token.SHR {
		u.curBin = exprText(x)
		defer func() { u.curBin = "" }()
		return u.binop(st, x.Op, u.convertConst(l, t), r, t, x.Pos())
	}
	u.curBin = exprText(x)
	defer func() { u.curBin = "" }()
	return u.binop(st, x.Op, u.convertConst(l, t), u.convertConst(r, t), t, x.Pos())
}

// adoptGuarded merges the effects computed in rs (executed under guard) back into st.
func (u *Unit) adoptGuarded(st, rs *State, guard Term, n0 int) {
	for _, t := range rs.pc[n0:] {
		st.assume(Imp(guard, t))
	}
	for obj, v := range rs.vars {
		if ov, ok := st.vars[obj]; ok {
			st.vars[obj] = mergeVal(guard, v, ov)
		}
	}
	for k, t := range rs.heap {
		ot, ok := st.heap[k]
		if !ok {
			ot = u.heapBase(st, k, t.Sort)
		}
		if ot.S != t.S {
			st.heap[k] = Ite(guard, t, ot)
		}
	}
	if len(rs.havocs) != len(st.havocs) {
		st.havocs = rs.havocs
	}
}

// convertConst adapts untyped constants to the sort of the target type (bv mode).
func (u *Unit) convertConst(v Value, t types.Type) Value {
	if t == nil || len(v.L) != 1 {
		return v
	}
	if u.bv && isInteger(t) && v.L[0].Sort == SInt {
		if n, ok := v.L[0].intVal(); ok {
			return scalar(t, BVLit(n, bitWidth(t)))
		}
		// a compound integer term (ite over literals in a spec function): bridge explicitly
		return scalar(t, Term{fmt.Sprintf("((_ int2bv %d) %s)", bitWidth(t), v.L[0].S), BVSort(bitWidth(t))})
	}
	if v.T == types.Typ[types.UntypedInt] || v.T == types.Typ[types.UntypedRune] || v.T == types.Typ[types.UntypedNil] {
		return Value{T: t, L: v.L}
	}
	return v
}

func (u *Unit) valuesEqual(st *State, a, b Value) Term {
	if len(a.L) != len(b.L) {
		// interface vs concrete comparison
		if isInterface(a.T) && !isInterface(b.T) {
			b = u.convert(st, b, a.T)
		} else if isInterface(b.T) && !isInterface(a.T) {
			a = u.convert(st, a, b.T)
		}
		if len(a.L) != len(b.L) {
			u.unsupported("comparison of %v and %v", a.T, b.T)
		}
	}
	if a.isSlice() || b.isSlice() {
		// only comparison with nil is legal
		if a.isSlice() {
			return Eq(a.base(), IntLit(0))
		}
		return Eq(b.base(), IntLit(0))
	}
	var cs []Term
	for i := range a.L {
		x, y := a.L[i], b.L[i]
		if x.Sort != y.Sort {
			if x.Sort.isBV() && y.Sort == SInt {
				if n, ok := y.intVal(); ok {
					y = BVLit(n, x.Sort.bvWidth())
				}
			} else if y.Sort.isBV() && x.Sort == SInt {
				if n, ok := x.intVal(); ok {
					x = BVLit(n, y.Sort.bvWidth())
				}
			}
		}
		cs = append(cs, Eq(x, y))
	}
	return And(cs...)
}

func (u *Unit) compare(st *State, op token.Token, l, r Value) Value {
	// nil comparisons for slices / maps / pointers / interfaces
	if l.isSlice() && len(r.L) == 1 {
		e := Eq(l.base(), IntLit(0))
		if op == token.NEQ {
			e = Not(e)
		}
		return boolV(e)
	}
	if r.isSlice() && len(l.L) == 1 {
		e := Eq(r.base(), IntLit(0))
		if op == token.NEQ {
			e = Not(e)
		}
		return boolV(e)
	}
	switch op {
	case token.EQL:
		return boolV(u.valuesEqual(st, l, r))
	case token.NEQ:
		return boolV(Not(u.valuesEqual(st, l, r)))
	}
	a, b := l.term(), r.term()
	if a.Sort == SStr || a.Sort == SFlt {
		f := u.d.Fun("lt_"+string(a.Sort), []Sort{a.Sort, a.Sort}, SBool)
		switch op {
		case token.LSS:
			return boolV(App(f, SBool, a, b))
		case token.GTR:
			return boolV(App(f, SBool, b, a))
		case token.LEQ:
			return boolV(Not(App(f, SBool, b, a)))
		default:
			return boolV(Not(App(f, SBool, a, b)))
		}
	}
	if a.Sort.isBV() || b.Sort.isBV() {
		a2, b2 := u.convertConst(l, r.T).term(), u.convertConst(r, l.T).term()
		signed := !isUnsigned(l.T) && !isUnsigned(r.T)
		ops := map[token.Token][2]string{token.LSS: {"bvult", "bvslt"}, token.LEQ: {"bvule", "bvsle"}, token.GTR: {"bvugt", "bvsgt"}, token.GEQ: {"bvuge", "bvsge"}}[op]
		o := ops[0]
		if signed {
			o = ops[1]
		}
		return boolV(App(o, SBool, a2, b2))
	}
	switch op {
	case token.LSS:
		return boolV(Lt(a, b))
	case token.LEQ:
		return boolV(Le(a, b))
	case token.GTR:
		return boolV(Gt(a, b))
	default:
		return boolV(Ge(a, b))
	}
}

var two64 = new(big.Int).Lsh(big.NewInt(1), 64)

func pow2(n int) Term { return BigLit(new(big.Int).Lsh(big.NewInt(1), uint(n))) }

// wrapTo normalises a mathematical integer to the range of machine type t.
func (u *Unit) wrapTo(x Term, t types.Type, exactIfSmall bool) Term {
	w := bitWidth(t)
	m := pow2(w)
	if xv, ok := x.intVal(); ok {
		mv, _ := m.intVal()
		r := new(big.Int).Mod(xv, mv)
		if !isUnsigned(t) {
			h := new(big.Int).Rsh(mv, 1)
			if r.Cmp(h) >= 0 {
				r.Sub(r, mv)
			}
		}
		return BigLit(r)
	}
	if isUnsigned(t) {
		return App("mod", SInt, x, m)
	}
	// signed: ((x + 2^(w-1)) mod 2^w) - 2^(w-1)
	h := pow2(w - 1)
	return Sub(App("mod", SInt, Add(x, h), m), h)
}

// binop implements arithmetic on machine integers over mathematical Int with explicit
// treatment of wrap-around (see DESIGN 2.4): unsigned subtraction wraps exactly; for
// + and * the no-overflow condition is an obligation (checks overflow) or an explicit,
// recorded assumption.
func (u *Unit) binop(st *State, op token.Token, l, r Value, t types.Type, pos token.Pos) Value {
	a, b := l.term(), r.term()
	if a.Sort == SStr && op == token.ADD {
		return scalar(t, u.sconcat(st, a, b))
	}
	if a.Sort == SFlt || b.Sort == SFlt {
		f := u.d.Fun("fop_"+op.String(), []Sort{SFlt, SFlt}, SFlt)
		if a.Sort != SFlt {
			a = App(u.d.Fun("itof", []Sort{SInt}, SFlt), SFlt, a)
		}
		if b.Sort != SFlt {
			b = App(u.d.Fun("itof", []Sort{SInt}, SFlt), SFlt, b)
		}
		return scalar(t, App(f, SFlt, a, b))
	}
	if a.Sort.isBV() || b.Sort.isBV() {
		return u.bvop(st, op, l, r, t)
	}
	// literal operands of bit operations fold
	switch op {
	case token.AND, token.OR, token.XOR, token.AND_NOT:
		if av, ok := a.intVal(); ok && av.Sign() >= 0 {
			if bv, ok := b.intVal(); ok && bv.Sign() >= 0 {
				z := new(big.Int)
				switch op {
				case token.AND:
					z.And(av, bv)
				case token.OR:
					z.Or(av, bv)
				case token.XOR:
					z.Xor(av, bv)
				case token.AND_NOT:
					z.AndNot(av, bv)
				}
				return scalar(t, BigLit(z))
			}
		}
	}
	// x & m for a literal mask m and a flag word x built from literals, |, &, &^ and conditionals (named
	// intermediate values are looked through): decided by the shape of x
	if op == token.AND {
		for _, p := range [][2]Term{{a, b}, {b, a}} {
			if m, ok := p[1].intVal(); ok && m.Sign() > 0 {
				if _, lit := p[0].intVal(); !lit {
					if r, ok := u.maskTerm(p[0], m, 0); ok {
						return scalar(t, r)
					}
				}
			}
		}
	}
	// (x | c) & m == x & m when the literals c and m share no bit
	if op == token.AND {
		for _, p := range [][2]Term{{a, b}, {b, a}} {
			m, ok := p[1].intVal()
			if !ok || m.Sign() < 0 || !strings.HasPrefix(p[0].S, "(bit_or ") {
				continue
			}
			i := len("(bit_or ")
			j := skipSexp(p[0].S, i)
			k := skipSexp(p[0].S, j)
			if strings.TrimSpace(p[0].S[k:]) != ")" {
				continue
			}
			x, y := Term{strings.TrimSpace(p[0].S[i:j]), SInt}, Term{strings.TrimSpace(p[0].S[j:k]), SInt}
			for _, q := range [][2]Term{{x, y}, {y, x}} {
				if zeroUnderMask(q[1], m) {
					return u.binop(st, op, scalar(l.T, q[0]), scalar(r.T, p[1]), t, pos)
				}
			}
		}
	}
	// bit operations distribute over a conditional with literal branches when the other operand is
	// a literal: c | ite(p, x, y) = ite(p, c|x, c|y) (so that flag words fold to constants per case)
	switch op {
	case token.AND, token.OR, token.XOR, token.AND_NOT:
		for k, p := range [][2]Term{{a, b}, {b, a}} {
			if _, lit := p[0].intVal(); !lit {
				continue
			}
			if c, x, y, ok := iteParts(p[1]); ok {
				_, xl := x.intVal()
				_, yl := y.intVal()
				if xl && yl {
					mk := func(z Term) Term {
						lv, rv := scalar(l.T, p[0]), scalar(r.T, z)
						if k == 1 {
							lv, rv = scalar(l.T, z), scalar(r.T, p[0])
						}
						return u.binop(st, op, lv, rv, t, pos).term()
					}
					return scalar(t, Ite(c, mk(x), mk(y)))
				}
			}
		}
	}
	machine := false
	if t != nil {
		_, _, machine = intRange(t)
	}
	inRange := func(x Term) Term {
		lo, hi, _ := intRange(t)
		return And(App("<=", SBool, Term{lo, SInt}, x), App("<=", SBool, x, Term{hi, SInt}))
	}
	noWrap := func(x Term, what string) Term {
		if !machine {
			return x
		}
		if _, lit := x.intVal(); lit {
			return x
		}
		if u.checks["overflow"] {
			u.oblige(st, "overflow@"+what, "overflow", nil, inRange(x), pos, "no wrap-around")
			st.assume(inRange(x))
		} else {
			st.assume(inRange(x))
			u.assumptions["machine arithmetic treated as mathematical: no overflow assumed at + and * sites"] = true
		}
		return x
	}
	switch op {
	case token.ADD:
		return scalar(t, noWrap(Add(a, b), "add"))
	case token.MUL:
		return scalar(t, noWrap(Mul(a, b), "mul"))
	case token.SUB:
		d := Sub(a, b)
		if machine && isUnsigned(t) {
			if u.checks["sub"] {
				u.oblige(st, "sub@"+u.arithSite(pos), "sub", nil, Ge(a, b), pos, "unsigned subtraction does not wrap")
			}
			if _, lit := d.intVal(); lit {
				if v, _ := d.intVal(); v.Sign() >= 0 {
					return scalar(t, d)
				}
			}
			return scalar(t, Ite(Ge(a, b), d, Add(d, pow2(bitWidth(t)))))
		}
		return scalar(t, noWrap(d, "sub"))
	case token.QUO, token.REM:
		if u.checks["div"] {
			u.oblige(st, "div@"+u.arithSite(pos), "div", nil, Ne(b, IntLit(0)), pos, "division by zero")
		}
		st.assume(Ne(b, IntLit(0)))
		nonneg := machine && isUnsigned(t)
		if av, ok := a.intVal(); ok && av.Sign() >= 0 {
			if bv, ok := b.intVal(); ok && bv.Sign() > 0 {
				if op == token.QUO {
					return scalar(t, BigLit(new(big.Int).Quo(av, bv)))
				}
				return scalar(t, BigLit(new(big.Int).Rem(av, bv)))
			}
		}
		if nonneg {
			if op == token.QUO {
				return scalar(t, App("div", SInt, a, b))
			}
			return scalar(t, u.modTerm(st, a, b))
		}
		// truncated division for signed operands
		absA := Ite(Ge(a, IntLit(0)), a, Neg(a))
		absB := Ite(Ge(b, IntLit(0)), b, Neg(b))
		q := App("div", SInt, absA, absB)
		if op == token.QUO {
			sameSign := Eq(Ge(a, IntLit(0)), Ge(b, IntLit(0)))
			return scalar(t, Ite(sameSign, q, Neg(q)))
		}
		rm := u.modTerm(st, absA, absB)
		return scalar(t, Ite(Ge(a, IntLit(0)), rm, Neg(rm)))
	case token.SHL:
		if n, ok := b.intVal(); ok && n.IsInt64() && n.Int64() < 64 {
			x := Mul(a, pow2(int(n.Int64())))
			if machine && isUnsigned(t) {
				return scalar(t, u.wrapTo(x, t, true))
			}
			// signed left shift by a constant: like * (no overflow assumed or checked)
			return scalar(t, noWrap(x, "shl"))
		}
		if av, ok := a.intVal(); ok && av.Cmp(big.NewInt(1)) == 0 {
			// 1 << k with a symbolic k: the power-of-two function (axioms in the prelude)
			f := u.d.Fun("pow2", []Sort{SInt}, SInt)
			return scalar(t, noWrap(App(f, SInt, b), "shl"))
		}
	case token.SHR:
		if n, ok := b.intVal(); ok && n.IsInt64() && n.Int64() < 64 {
			return scalar(t, App("div", SInt, a, pow2(int(n.Int64()))))
		}
	case token.AND:
		// x & (2^k - 1) == x mod 2^k ; x & 0 == 0
		for _, p := range [][2]Term{{a, b}, {b, a}} {
			if n, ok := p[1].intVal(); ok {
				if n.Sign() == 0 {
					return scalar(t, IntLit(0))
				}
				n1 := new(big.Int).Add(n, big.NewInt(1))
				if n1.BitLen() > 0 && new(big.Int).And(n1, n).Sign() == 0 {
					return scalar(t, App("mod", SInt, p[0], BigLit(n1)))
				}
			}
		}
	}
	// remaining bit operations: uninterpreted, with a few sound facts
	f := u.d.Fun("bit_"+map[token.Token]string{token.AND: "and", token.OR: "or", token.XOR: "xor", token.SHL: "shl", token.SHR: "shr", token.AND_NOT: "andnot"}[op], []Sort{SInt, SInt}, SInt)
	res := App(f, SInt, a, b)
	if machine {
		st.assume(inRange(res))
	}
	switch op {
	case token.AND:
		if isUnsigned(t) || t == nil {
			st.assume(Le(res, a))
			st.assume(Le(res, b))
		}
		st.assume(Le(IntLit(0), Ite(And(Ge(a, IntLit(0)), Ge(b, IntLit(0))), res, IntLit(0))))
	case token.OR:
		if isUnsigned(t) {
			st.assume(Ge(res, a))
			st.assume(Ge(res, b))
		}
	case token.SHR:
		if isUnsigned(t) {
			st.assume(Le(res, a))
		}
	}
	u.abstract("bit operation %s is uninterpreted in arith int mode", op)
	return scalar(t, res)
}

// zeroUnderMask: the term has none of the bits of the literal mask m set, by its shape: a literal that shares no
// bit with m, z &^ c with m inside c, or z & c with c sharing no bit with m
func zeroUnderMask(x Term, m *big.Int) bool {
	if c, ok := x.intVal(); ok {
		return c.Sign() >= 0 && new(big.Int).And(c, m).Sign() == 0
	}
	for _, f := range []string{"(bit_andnot ", "(bit_and "} {
		if !strings.HasPrefix(x.S, f) {
			continue
		}
		i := len(f)
		j := skipSexp(x.S, i)
		k := skipSexp(x.S, j)
		if strings.TrimSpace(x.S[k:]) != ")" {
			return false
		}
		c, ok := Term{strings.TrimSpace(x.S[j:k]), SInt}.intVal()
		if !ok || c.Sign() < 0 {
			return false
		}
		if f == "(bit_andnot " {
			return new(big.Int).AndNot(m, c).Sign() == 0
		}
		return new(big.Int).And(c, m).Sign() == 0
	}
	return false
}

// maskTerm computes x & m (m a literal) from the shape of x, or reports that the shape does not decide it.
// The result only contains literals and the conditions of conditionals in x.
func (u *Unit) maskTerm(x Term, m *big.Int, depth int) (Term, bool) {
	if depth > 24 {
		return Term{}, false
	}
	if c, ok := x.intVal(); ok {
		if c.Sign() < 0 {
			return Term{}, false
		}
		return BigLit(new(big.Int).And(c, m)), true
	}
	if d, ok := u.defs[x.S]; ok {
		return u.maskTerm(d, m, depth+1)
	}
	if c, a, b, ok := iteParts(x); ok {
		ra, oka := u.maskTerm(a, m, depth+1)
		if !oka {
			return Term{}, false
		}
		rb, okb := u.maskTerm(b, m, depth+1)
		if !okb {
			return Term{}, false
		}
		if ra.S == rb.S {
			return ra, true
		}
		return Ite(c, ra, rb), true
	}
	two := func(prefix string) (Term, Term, bool) {
		if !strings.HasPrefix(x.S, prefix) {
			return Term{}, Term{}, false
		}
		i := len(prefix)
		j := skipSexp(x.S, i)
		k := skipSexp(x.S, j)
		if strings.TrimSpace(x.S[k:]) != ")" {
			return Term{}, Term{}, false
		}
		return Term{strings.TrimSpace(x.S[i:j]), SInt}, Term{strings.TrimSpace(x.S[j:k]), SInt}, true
	}
	if y, z, ok := two("(bit_or "); ok {
		ry, oky := u.maskTerm(y, m, depth+1)
		rz, okz := u.maskTerm(z, m, depth+1)
		if !oky || !okz {
			return Term{}, false
		}
		cy, ly := ry.intVal()
		cz, lz := rz.intVal()
		switch {
		case ly && lz:
			return BigLit(new(big.Int).Or(cy, cz)), true
		case ly && cy.Sign() == 0:
			return rz, true
		case lz && cz.Sign() == 0:
			return ry, true
		}
		return Term{}, false
	}
	if y, z, ok := two("(bit_andnot "); ok {
		if c, lit := z.intVal(); lit && c.Sign() >= 0 {
			rest := new(big.Int).AndNot(m, c)
			if rest.Sign() == 0 {
				return IntLit(0), true
			}
			if rest.Cmp(m) == 0 {
				return u.maskTerm(y, m, depth+1)
			}
		}
		return Term{}, false
	}
	if y, z, ok := two("(bit_and "); ok {
		for _, q := range [][2]Term{{y, z}, {z, y}} {
			if c, lit := q[1].intVal(); lit && c.Sign() >= 0 {
				both := new(big.Int).And(m, c)
				if both.Sign() == 0 {
					return IntLit(0), true
				}
				if both.Cmp(m) == 0 {
					return u.maskTerm(q[0], m, depth+1)
				}
			}
		}
		return Term{}, false
	}
	return Term{}, false
}

func (u *Unit) bvop(st *State, op token.Token, l, r Value, t types.Type) Value {
	a := u.convertConst(l, t).term()
	b := u.convertConst(r, t).term()
	w := a.Sort.bvWidth()
	if !b.Sort.isBV() {
		if n, ok := b.intVal(); ok {
			b = BVLit(n, w)
		}
	}
	if b.Sort.isBV() && b.Sort.bvWidth() != w {
		// shift counts of other widths
		bw := b.Sort.bvWidth()
		if bw < w {
			b = Term{fmt.Sprintf("((_ zero_extend %d) %s)", w-bw, b.S), BVSort(w)}
		} else {
			b = Term{fmt.Sprintf("((_ extract %d 0) %s)", w-1, b.S), BVSort(w)}
		}
	}
	signed := !isUnsigned(t)
	name := map[token.Token]string{token.ADD: "bvadd", token.SUB: "bvsub", token.MUL: "bvmul", token.AND: "bvand", token.OR: "bvor",
		token.XOR: "bvxor", token.SHL: "bvshl"}[op]
	switch op {
	case token.SHR:
		name = "bvlshr"
		if signed {
			name = "bvashr"
		}
	case token.QUO:
		name = "bvudiv"
		if signed {
			name = "bvsdiv"
		}
	case token.REM:
		name = "bvurem"
		if signed {
			name = "bvsrem"
		}
	case token.AND_NOT:
		return scalar(t, App("bvand", a.Sort, a, App("bvnot", a.Sort, b)))
	}
	if name == "" {
		u.unsupported("bv op %s", op)
	}
	return scalar(t, App(name, a.Sort, a, b))
}

func (u *Unit) sconcat(st *State, a, b Term) Term {
	// s + (c ? x : y) is (c ? s+x : s+y): keeps a suffix chosen up front comparable with one appended in a branch
	if c, x, y, ok := iteParts(b); ok && b.Sort == SStr {
		return Ite(c, u.sconcat(st, a, x), u.sconcat(st, a, y))
	}
	if c, x, y, ok := iteParts(a); ok && a.Sort == SStr {
		return Ite(c, u.sconcat(st, x, b), u.sconcat(st, y, b))
	}
	f := u.d.Fun("sconcat", []Sort{SStr, SStr}, SStr)
	r := App(f, SStr, a, b)
	st.assume(Eq(u.slenOf(st, r), Add(u.slenOf(st, a), u.slenOf(st, b))))
	return r
}

// convert adapts a value to a target type at assignment (interface boxing, untyped consts).
func (u *Unit) convert(st *State, v Value, t types.Type) Value {
	if t == nil || v.T == nil {
		return v
	}
	if v.T == types.Typ[types.UntypedNil] {
		return u.zeroValue(t)
	}
	if isInterface(t) && !isInterface(v.T) && v.T != types.Typ[types.UntypedNil] {
		return u.box(st, v, t)
	}
	v = u.convertConst(v, t)
	if len(v.L) == len(flatten(t)) {
		return Value{T: t, L: v.L}
	}
	return v
}

func (u *Unit) dyntype(x Term) Term {
	f := u.d.Fun("dyntype", []Sort{SInt}, SInt)
	return App(f, SInt, x)
}

// box converts a concrete value to an interface value.
func (u *Unit) box(st *State, v Value, iface types.Type) Value {
	tag := IntLit(int64(u.eng.typeTag(v.T)))
	if len(v.L) == 1 && v.L[0].Sort == SInt && (isPointer(v.T) || isFuncOrMap(v.T)) {
		p := v.L[0]
		st.assume(Imp(Ne(p, IntLit(0)), Eq(u.dyntype(p), tag)))
		return scalar(iface, p)
	}
	ref := u.alloc(st, "boxed")
	st.assume(Eq(u.dyntype(ref), tag))
	u.store(st, LV{kind: lvHeap, keyT: "box:" + typeKey(v.T), ref: ref, T: v.T}, v)
	return scalar(iface, ref)
}

func isFuncOrMap(t types.Type) bool {
	switch t.Underlying().(type) {
	case *types.Signature, *types.Map, *types.Chan:
		return true
	}
	return false
}

func (u *Unit) hasDynType(st *State, x Value, t types.Type) Term {
	if isInterface(t) {
		// assertion to an interface type: unknown unless nil
		r := u.d.Fresh("implements", SBool)
		return And(Ne(x.term(), IntLit(0)), r)
	}
	return And(Ne(x.term(), IntLit(0)), Eq(u.dyntype(x.term()), IntLit(int64(u.eng.typeTag(t)))))
}

func (u *Unit) unbox(st *State, x Value, t types.Type) Value {
	if isInterface(t) {
		return Value{T: t, L: x.L}
	}
	if len(flatten(t)) == 1 && (isPointer(t) || isFuncOrMap(t)) {
		return scalar(t, x.term())
	}
	return u.load(st, LV{kind: lvHeap, keyT: "box:" + typeKey(t), ref: x.term(), T: t})
}

func (u *Unit) evalTypeAssert(st *State, x *ast.TypeAssertExpr, commaOk bool) []Value {
	sv := u.eval(st, x.X)
	t := u.typeOf(x.Type)
	ok := u.hasDynType(st, sv, t)
	if !commaOk {
		if u.checks["panic"] {
			u.oblige(st, "assertion@"+exprText(x), "assertion", nil, ok, x.Pos(), "type assertion cannot fail")
		}
		st.assume(ok)
		return []Value{u.unbox(st, sv, t)}
	}
	val := u.unbox(st, sv, t)
	zero := u.zeroValue(t)
	r := mergeVal(ok, val, zero)
	r.T = t
	return []Value{r, boolV(ok)}
}

func (u *Unit) evalComposite(st *State, x *ast.CompositeLit) Value {
	t := u.typeOf(x)
	switch ut := t.Underlying().(type) {
	case *types.Struct:
		v := u.zeroValue(t)
		nl := append([]Term(nil), v.L...)
		for i, el := range x.Elts {
			fi := i
			var ve ast.Expr = el
			if kv, ok := el.(*ast.KeyValueExpr); ok {
				name := kv.Key.(*ast.Ident).Name
				fi = -1
				for j := 0; j < ut.NumFields(); j++ {
					if ut.Field(j).Name() == name {
						fi = j
					}
				}
				ve = kv.Value
			}
			if fi < 0 {
				u.unsupported("composite literal field")
			}
			fv := u.convert(st, u.evalWithHint(st, ve, ut.Field(fi).Type()), ut.Field(fi).Type())
			lo, hi := fieldRange(ut, fi)
			if len(fv.L) != hi-lo {
				u.unsupported("composite field %s: %d leaves for %d", ut.Field(fi).Name(), len(fv.L), hi-lo)
			}
			copy(nl[lo:hi], fv.L)
		}
		return Value{T: t, L: nl}
	case *types.Slice:
		base := u.alloc(st, "slicelit")
		n := int64(len(x.Elts))
		for i, el := range x.Elts {
			if _, ok := el.(*ast.KeyValueExpr); ok {
				u.unsupported("keyed slice literal")
			}
			ev := u.convert(st, u.evalWithHint(st, el, ut.Elem()), ut.Elem())
			u.store(st, LV{kind: lvMem, keyT: typeKey(ut.Elem()), ref: base, idx: IntLit(int64(i)), T: ut.Elem()}, ev)
		}
		return sliceV(t, base, IntLit(0), IntLit(n), IntLit(n))
	case *types.Array:
		if isChunkID(t) || opaqueNamed(t) {
			if len(x.Elts) == 0 {
				return u.zeroValue(t)
			}
			return u.freshValue(st, "arrlit", t)
		}
		v := u.zeroValue(t)
		nl := append([]Term(nil), v.L...)
		for i, el := range x.Elts {
			if _, ok := el.(*ast.KeyValueExpr); ok {
				u.unsupported("keyed array literal")
			}
			ev := u.convert(st, u.evalWithHint(st, el, ut.Elem()), ut.Elem())
			for k := range nl {
				nl[k] = Store(nl[k], IntLit(int64(i)), ev.L[k])
			}
		}
		return Value{T: t, L: nl}
	case *types.Map:
		ref := u.alloc(st, "maplit")
		u.initMap(st, t, ref)
		for _, el := range x.Elts {
			kv := el.(*ast.KeyValueExpr)
			k := u.convert(st, u.eval(st, kv.Key), ut.Key())
			v := u.convert(st, u.evalWithHint(st, kv.Value, ut.Elem()), ut.Elem())
			u.store(st, LV{kind: lvMap, keyT: typeKey(t), ref: ref, idx: k.term(), T: ut.Elem(), mapT: ut}, v)
		}
		return scalar(t, ref)
	}
	u.unsupported("composite literal of %v", t)
	return Value{}
}

// evalWithHint evaluates composite-literal elements whose type is elided.
func (u *Unit) evalWithHint(st *State, e ast.Expr, hint types.Type) Value {
	return u.eval(st, e)
}

func (u *Unit) initMap(st *State, t types.Type, ref Term) {
	mt := t.Underlying().(*types.Map)
	ksort := flatten(mt.Key())[0].Sort
	dk := "MD:" + typeKey(t)
	dom := u.heapArr(st, dk, ArrSort(SInt, ArrSort(ksort, SBool)))
	st.heap[dk] = Store(dom, ref, ConstArr(ArrSort(ksort, SBool), TFalse))
}

// modTerm is a mod b for a >= 0, b != 0: SMT mod for a literal divisor; for a symbolic divisor
// an uninterpreted function with its range (mod by a variable is non-linear and makes unrelated
// goals slow; the congruence and range facts are what proofs use).
func (u *Unit) modTerm(st *State, a, b Term) Term {
	if _, ok := b.intVal(); ok {
		return App("mod", SInt, a, b)
	}
	f := u.d.Fun("umod", []Sort{SInt, SInt}, SInt)
	r := App(f, SInt, a, b)
	if st != nil && !strings.Contains(r.S, "!q") {
		st.assume(Imp(Gt(b, IntLit(0)), And(Le(IntLit(0), r), Lt(r, b), Eq(a, Add(Mul(b, App("div", SInt, a, b)), r)))))
		// the first two periods spelled out (linear facts; the product above rarely helps the solver):
		// 0 <= a < b gives a, b <= a < 2b gives a - b - which is all `(x + 1) % n` with 0 <= x < n needs
		st.assume(Imp(And(Gt(b, IntLit(0)), Le(IntLit(0), a), Lt(a, b)), Eq(r, a)))
		st.assume(Imp(And(Gt(b, IntLit(0)), Le(b, a), Lt(a, Add(b, b))), Eq(r, Sub(a, b))))
	}
	return r
}

// iteParts splits a term of the form (ite c a b).
func iteParts(t Term) (c, a, b Term, ok bool) {
	if !strings.HasPrefix(t.S, "(ite ") {
		return
	}
	i := len("(ite ")
	j := skipSexp(t.S, i)
	k := skipSexp(t.S, j)
	m := skipSexp(t.S, k)
	if strings.TrimSpace(t.S[m:]) != ")" {
		return
	}
	return Term{strings.TrimSpace(t.S[i:j]), SBool}, Term{strings.TrimSpace(t.S[j:k]), t.Sort}, Term{strings.TrimSpace(t.S[k:m]), t.Sort}, true
}

// siteName names an arithmetic obligation by the text of the expression it belongs to (stable under
// edits elsewhere in the file); the position is the fallback for synthesized operations.
func (u *Unit) arithSite(pos token.Pos) string {
	if u.curBin != "" {
		return u.curBin
	}
	return fmt.Sprint(u.pos(pos))
}
