package main

// Evaluation of contract (spec) expressions against a symbolic state.

import (
	"fmt"
	"go/ast"
	"go/constant"
	"go/token"
	"go/types"
	"strconv"
	"strings"
)

type specCtx struct {
	u     *Unit
	st    *State // state that receives side facts (type ranges)
	cur   *State // state being read (st, or the old state inside old())
	old   *State
	env   map[string]Value
	bound map[string]Value
	pos   token.Pos // scope position for local names
	c     *Clause
	depth int
	fr    *frame
}

type specError string

func (sc *specCtx) errorf(format string, a ...interface{}) {
	where := ""
	if sc.c != nil {
		where = fmt.Sprintf("%s:%d: ", shortFile(sc.c.File), sc.c.Line)
	}
	panic(engineError(where + fmt.Sprintf(format, a...)))
}

func shortFile(f string) string {
	if i := strings.LastIndex(f, "/"); i >= 0 {
		return f[i+1:]
	}
	return f
}

func (u *Unit) specBool(st, old *State, env map[string]Value, e SpecExpr, c *Clause) Term {
	return u.specBoolAt(st, old, env, e, c, token.NoPos)
}

func (u *Unit) specBoolAt(st, old *State, env map[string]Value, e SpecExpr, c *Clause, pos token.Pos) Term {
	v := u.specValAt(st, old, env, e, c, pos)
	if len(v.L) != 1 || v.L[0].Sort != SBool {
		panic(engineError(fmt.Sprintf("%s:%d: spec expression is not boolean: %s", shortFile(c.File), c.Line, c.Text)))
	}
	return v.L[0]
}

func (u *Unit) specValAt(st, old *State, env map[string]Value, e SpecExpr, c *Clause, pos token.Pos) Value {
	sc := &specCtx{u: u, st: st, cur: st, old: old, env: env, bound: map[string]Value{}, pos: pos, c: c, fr: u.top()}
	n0 := 0
	if old != nil {
		n0 = len(old.pc)
	}
	v := sc.eval(e)
	if old != nil && old != st {
		for _, t := range old.pc[n0:] {
			st.assume(t)
		}
		old.pc = old.pc[:n0]
		for _, t := range old.pc[n0:] {
			delete(old.facts, t.S)
		}
	}
	return v
}

func (sc *specCtx) eval(e SpecExpr) Value {
	switch x := e.(type) {
	case *SImp:
		return boolV(Imp(sc.bool(x.A), sc.bool(x.B)))
	case *SIff:
		return boolV(Eq(sc.bool(x.A), sc.bool(x.B)))
	case *SQuant:
		saved := map[string]Value{}
		var vars []Term
		var guards []Term
		for _, v := range x.Vars {
			t, err := sc.resolveType(v.Type)
			if err != nil {
				sc.errorf("%v", err)
			}
			ls := flatten(t)
			if len(ls) != 1 {
				// a bound variable of a composite type: one bound SMT variable per leaf
				val := Value{T: t, L: make([]Term, len(ls))}
				for i, l := range ls {
					sc.u.d.n++
					val.L[i] = Term{fmt.Sprintf("%s!q%d", v.Name, sc.u.d.n), l.Sort}
					vars = append(vars, val.L[i])
				}
				if old, ok := sc.bound[v.Name]; ok {
					saved[v.Name] = old
				}
				sc.bound[v.Name] = val
				continue
			}
			sc.u.d.n++
			bsort := ls[0].Sort
			if sc.u.bv && isInteger(t) {
				bsort = BVSort(bitWidth(t))
			}
			bt := Term{fmt.Sprintf("%s!q%d", v.Name, sc.u.d.n), bsort}
			vars = append(vars, bt)
			if old, ok := sc.bound[v.Name]; ok {
				saved[v.Name] = old
			}
			sc.bound[v.Name] = scalar(t, bt)
			if lo, hi, ok := intRange(t); ok && t != tInt && !sc.u.bv {
				guards = append(guards, App("<=", SBool, Term{lo, SInt}, bt), App("<=", SBool, bt, Term{hi, SInt}))
			}
		}
		// evaluate the body against a scratch fact sink: facts about bound variables must not escape
		savedSt := sc.st
		scratch := sc.st.clone()
		curIsSt := sc.cur == sc.st
		sc.st = scratch
		if curIsSt {
			sc.cur = scratch
		}
		oldN0 := -1
		if sc.old != nil && sc.old != savedSt {
			oldN0 = len(sc.old.pc)
		}
		body := sc.bool(x.Body)
		sc.st = savedSt
		if curIsSt {
			sc.cur = savedSt
		}
		if oldN0 >= 0 && len(sc.old.pc) > oldN0 {
			// facts recorded on the old state while evaluating old(...) under the binder
			extra := append([]Term(nil), sc.old.pc[oldN0:]...)
			sc.old.pc = sc.old.pc[:oldN0]
			for _, t := range extra {
				delete(sc.old.facts, t.S)
				mentions := false
				for _, bv := range vars {
					if strings.Contains(t.S, bv.S) {
						mentions = true
					}
				}
				if mentions {
					savedSt.assume(Forall(vars, t))
				} else {
					sc.old.assume(t)
				}
			}
		}
		// side facts produced while evaluating the body that mention bound vars become hypotheses
		var hyps []Term
		for _, t := range scratch.pc[len(savedSt.pc):] {
			mentions := false
			for _, bv := range vars {
				if strings.Contains(t.S, bv.S) {
					mentions = true
				}
			}
			if mentions {
				if strings.HasPrefix(t.S, "(<= 0 (slen ") || strings.HasPrefix(t.S, "(= (slen (sconcat ") {
					continue // covered by the built-in string axioms of the prelude
				}
				// type and heap facts (machine ranges, references <= clock) hold for every value
				// of the bound variables: assume them universally instead of guarding the body
				savedSt.assume(Forall(vars, t))
			} else {
				savedSt.assume(t)
			}
		}
		for _, v := range x.Vars {
			if old, ok := saved[v.Name]; ok {
				sc.bound[v.Name] = old
			} else {
				delete(sc.bound, v.Name)
			}
		}
		if x.Forall {
			return boolV(Forall(vars, Imp(And(append(guards, hyps...)...), body)))
		}
		return boolV(Exists(vars, And(append(append(guards, hyps...), body)...)))
	case *SGo:
		return sc.goExpr(x.E, x.Subs)
	}
	sc.errorf("bad spec expression")
	return Value{}
}

// resolveType resolves a type name used in a clause: in the package of the file the clause was
// written in, then in the package of the function, then in the root package.
func (sc *specCtx) resolveType(name string) (types.Type, error) {
	var firstErr error
	var pkgs []*types.Package
	if sc.c != nil && sc.c.File != "" {
		pkgs = append(pkgs, sc.u.eng.pkgOfFile(sc.c.File).Types)
	}
	if sc.fr != nil && sc.fr.pkg != nil {
		pkgs = append(pkgs, sc.fr.pkg)
	}
	pkgs = append(pkgs, sc.u.eng.root.Types)
	for _, p := range pkgs {
		t, err := sc.u.eng.resolveType(p, name)
		if err == nil {
			return t, nil
		}
		if firstErr == nil {
			firstErr = err
		}
	}
	return nil, firstErr
}

func (sc *specCtx) bool(e SpecExpr) Term {
	v := sc.eval(e)
	if len(v.L) != 1 || v.L[0].Sort != SBool {
		sc.errorf("expected boolean spec expression")
	}
	return v.L[0]
}

func (sc *specCtx) lookupLocal(name string) (types.Object, bool) {
	if !sc.pos.IsValid() {
		// function-level clause: look in the function scope (parameters, named results)
		if sc.fr.fn != nil {
			if s := sc.fr.fn.Scope(); s != nil {
				if obj := s.Lookup(name); obj != nil {
					return obj, true
				}
			}
		}
	} else {
		scope := sc.fr.pkg.Scope().Innermost(sc.pos)
		if scope != nil {
			if _, obj := scope.LookupParent(name, sc.pos); obj != nil {
				return obj, true
			}
		}
	}
	if obj := sc.fr.pkg.Scope().Lookup(name); obj != nil {
		return obj, true
	}
	if obj := types.Universe.Lookup(name); obj != nil {
		return obj, true
	}
	return nil, false
}

// resolveName looks a contract identifier up at the clause's position, with rename repair against the
// baseline declarations of the function (baseline/locals.json).
func (sc *specCtx) resolveName(name string) (types.Object, bool) {
	obj, ok := sc.lookupLocal(name)
	if ok && obj.Parent() != nil && (obj.Parent() == types.Universe || (obj.Pkg() != nil && obj.Parent() == obj.Pkg().Scope())) {
		// resolved to a package-level or predeclared object: if the baseline knows this name as a
		// variable of the function that has since been renamed, the contract means that variable
		if r := sc.u.eng.renames(sc.u.renameFn()); r != nil {
			if nw, has := r.old2new[name]; has {
				if o2, ok2 := sc.lookupLocal(nw); ok2 {
					obj = o2
				}
			}
		}
	}
	if ok && obj.Parent() != nil && obj.Parent() != types.Universe {
		// resolved to a variable of an enclosing scope while the baseline knows this name as a variable that
		// has since been renamed and whose new declaration is visible here in a scope nested inside: at
		// baseline time that inner declaration shadowed the outer one, the contract means the inner variable
		if r := sc.u.eng.renames(sc.u.renameFn()); r != nil {
			if nw, has := r.old2new[name]; has {
				if o2, ok2 := sc.lookupLocal(nw); ok2 && o2 != obj && o2.Parent() != nil && scopeInside(o2.Parent(), obj.Parent()) {
					obj = o2
					sc.u.abstractions[fmt.Sprintf("contract name %q resolved to the renamed inner variable %q (rename repair against the baseline)", name, nw)] = true
				}
			}
		}
	}
	if !ok {
		// renamed since the baseline?
		if r := sc.u.eng.renames(sc.u.renameFn()); r != nil {
			if nw, has := r.old2new[name]; has {
				obj, ok = sc.lookupLocal(nw)
				if ok {
					sc.u.abstractions[fmt.Sprintf("contract name %q resolved to the renamed variable %q (rename repair against the baseline)", name, nw)] = true
				}
			}
		}
	}
	if !ok && sc.fr != nil && sc.fr.fn != nil && sc.fr.fn != sc.u.renameFn() {
		// a clause of a callee's contract evaluated at a call site: the names are the callee's, and so are the
		// renames (a parameter of the callee renamed since the baseline)
		if r := sc.u.eng.renames(sc.fr.fn); r != nil {
			if nw, has := r.old2new[name]; has {
				obj, ok = sc.lookupLocal(nw)
				if ok {
					sc.u.abstractions[fmt.Sprintf("contract name %q of %s resolved to its renamed parameter %q (rename repair against the baseline)", name, funcKey(sc.fr.fn), nw)] = true
				}
			}
		}
	}
	return obj, ok
}

func (sc *specCtx) ident(name string, subs map[string]SpecExpr) Value {
	if sub, ok := subs[name]; ok {
		return sc.eval(sub)
	}
	if v, ok := sc.bound[name]; ok {
		return v
	}
	if strings.HasPrefix(name, ghostPrefix) {
		g := strings.TrimPrefix(name, ghostPrefix)
		if v, ok := sc.env["$"+g]; ok {
			return v
		}
		if t, ok := sc.u.eng.ghostVars[g]; ok {
			return sc.u.load(sc.cur, LV{kind: lvGhostVar, name: g, T: t})
		}
		sc.errorf("unknown ghost variable $%s", g)
	}
	if v, ok := sc.env[name]; ok {
		return v
	}
	switch name {
	case "true":
		return boolV(TTrue)
	case "false":
		return boolV(TFalse)
	case "nil":
		return scalar(types.Typ[types.UntypedNil], IntLit(0))
	}
	obj, ok := sc.resolveName(name)
	if !ok {
		sc.errorf("unknown name %q in %q (at %v valid=%v)", name, sc.c.Text, sc.u.eng.root.Fset.Position(sc.pos), sc.pos.IsValid())
	}
	if obj.Name() != name {
		// resolved through a rename: where the clause is evaluated with values bound by name (a callee's clause
		// at a call site binds the callee's parameters to the arguments), the binding is under the new name
		if v, ok := sc.env[obj.Name()]; ok {
			return v
		}
	}
	switch o := obj.(type) {
	case *types.Var:
		lv := sc.u.varLV(sc.cur, o)
		if lv.kind == lvVar {
			if _, has := sc.cur.vars[o]; !has {
				if _, boxed := sc.cur.boxed[o]; !boxed {
					if sc.cur != sc.st {
						sc.errorf("local %q is not defined in the old state", name)
					}
				}
			}
		}
		v := sc.u.load(sc.cur, lv)
		return v
	case *types.Const:
		if v, ok := sc.u.constValue(o.Val(), o.Type()); ok {
			return v
		}
	case *types.Nil:
		return scalar(types.Typ[types.UntypedNil], IntLit(0))
	}
	sc.errorf("cannot use %q in a spec expression", name)
	return Value{}
}

func derefType(t types.Type) (types.Type, bool) {
	if p, ok := t.Underlying().(*types.Pointer); ok {
		return p.Elem(), true
	}
	return t, false
}

// lv evaluates a spec expression designating a location.
func (sc *specCtx) lv(e ast.Expr, subs map[string]SpecExpr) (LV, bool) {
	switch x := e.(type) {
	case *ast.ParenExpr:
		return sc.lv(x.X, subs)
	case *ast.Ident:
		if strings.HasPrefix(x.Name, ghostPrefix) {
			g := strings.TrimPrefix(x.Name, ghostPrefix)
			if t, ok := sc.u.eng.ghostVars[g]; ok {
				return LV{kind: lvGhostVar, name: g, T: t}, true
			}
		}
		if _, ok := sc.bound[x.Name]; ok {
			return LV{}, false
		}
		if _, ok := sc.env[x.Name]; ok {
			return LV{}, false
		}
		if obj, ok := sc.resolveName(x.Name); ok {
			if o, ok := obj.(*types.Var); ok {
				return sc.u.varLV(sc.cur, o), true
			}
		}
		return LV{}, false
	case *ast.StarExpr:
		p := sc.goExpr(x.X, subs)
		if el, ok := derefType(p.T); ok {
			return sc.u.derefLV(p.term(), el), true
		}
	case *ast.SelectorExpr:
		name := x.Sel.Name
		if strings.HasPrefix(name, ghostPrefix) {
			g := strings.TrimPrefix(name, ghostPrefix)
			t, ok := sc.u.eng.ghostFlds[g]
			if !ok {
				sc.errorf("unknown ghost field $%s", g)
			}
			base := sc.goExpr(x.X, subs)
			if len(base.L) != 1 {
				sc.errorf("ghost field on aggregate value")
			}
			return LV{kind: lvGhostField, name: g, ref: base.L[0], T: t}, true
		}
		// package-qualified?
		if id, ok := x.X.(*ast.Ident); ok {
			if _, isB := sc.bound[id.Name]; !isB {
				if _, isE := sc.env[id.Name]; !isE {
					if obj, ok := sc.lookupLocal(id.Name); ok {
						if pn, ok := obj.(*types.PkgName); ok {
							if o, ok := pn.Imported().Scope().Lookup(name).(*types.Var); ok {
								lv := sc.u.varLV(sc.cur, o)
								sc.u.sentinelFacts(sc.st, o, sc.u.load(sc.cur, lv))
								return lv, true
							}
						}
					} else if p := sc.u.eng.lookupPkg(id.Name); p != nil {
						if o, ok := p.Scope().Lookup(name).(*types.Var); ok {
							lv := sc.u.varLV(sc.cur, o)
							sc.u.sentinelFacts(sc.st, o, sc.u.load(sc.cur, lv))
							return lv, true
						}
					}
				}
			}
		}
		var base LV
		bv := Value{}
		if blv, ok := sc.lv(x.X, subs); ok {
			base = blv
		} else {
			bv = sc.goExpr(x.X, subs)
			base = LV{kind: lvTemp, T: bv.T, tmp: bv}
		}
		// auto-deref
		if el, isP := derefType(base.T); isP {
			pv := sc.u.load(sc.cur, base)
			base = sc.u.derefLV(pv.term(), el)
		}
		obj, index, _ := types.LookupFieldOrMethod(base.T, true, sc.fr.pkg, name)
		if _, ok := obj.(*types.Var); !ok {
			// unexported field of another package: retry with that package
			if n, ok := base.T.(*types.Named); ok && n.Obj().Pkg() != nil {
				obj, index, _ = types.LookupFieldOrMethod(base.T, true, n.Obj().Pkg(), name)
			}
		}
		if _, ok := obj.(*types.Var); !ok {
			sc.errorf("type %v has no field %s", base.T, name)
		}
		lv := base
		for _, fi := range index {
			if el, isP := derefType(lv.T); isP {
				pv := sc.u.load(sc.cur, lv)
				lv = sc.u.derefLV(pv.term(), el)
			}
			stt, ok := lv.T.Underlying().(*types.Struct)
			if !ok {
				sc.errorf("selection through non-struct %v", lv.T)
			}
			lv = lv.field(stt, fi)
		}
		return lv, true
	case *ast.IndexExpr:
		bv := sc.goExpr(x.X, subs)
		iv := sc.goExpr(x.Index, subs)
		switch t := bv.T.Underlying().(type) {
		case *types.Slice:
			return LV{kind: lvMem, keyT: typeKey(t.Elem()), ref: bv.base(), idx: Add(bv.off(), iv.term()), T: t.Elem()}, true
		case *types.Map:
			return LV{kind: lvMap, keyT: typeKey(bv.T), ref: bv.term(), idx: iv.term(), T: t.Elem(), mapT: t}, true
		case *types.Array:
			if blv, ok := sc.lv(x.X, subs); ok && !isChunkID(bv.T) {
				n := blv
				n.T = t.Elem()
				n.arrIdx = append(append([]Term(nil), blv.arrIdx...), iv.term())
				return n, true
			}
		}
	}
	return LV{}, false
}

func (sc *specCtx) goExpr(e ast.Expr, subs map[string]SpecExpr) Value {
	u := sc.u
	switch x := e.(type) {
	case *ast.ParenExpr:
		return sc.goExpr(x.X, subs)
	case *ast.BasicLit:
		switch x.Kind {
		case token.INT:
			cv := constant.MakeFromLiteral(x.Value, token.INT, 0)
			v, _ := u.constValue(cv, tUntyped)
			return v
		case token.STRING:
			s, _ := strconv.Unquote(x.Value)
			return scalar(tString, u.strLit(s))
		case token.CHAR:
			cv := constant.MakeFromLiteral(x.Value, token.CHAR, 0)
			v, _ := u.constValue(constant.ToInt(cv), tUntyped)
			return v
		}
		sc.errorf("unsupported literal %s", x.Value)
	case *ast.Ident:
		return sc.ident(x.Name, subs)
	case *ast.SelectorExpr, *ast.StarExpr:
		// constants of other packages (io.EOF is a var; os.O_RDWR a const)
		if se, ok := x.(*ast.SelectorExpr); ok {
			if id, ok := se.X.(*ast.Ident); ok {
				if _, b := sc.bound[id.Name]; !b {
					if _, en := sc.env[id.Name]; !en {
						var p *types.Package
						if obj, ok := sc.lookupLocal(id.Name); ok {
							if pn, ok := obj.(*types.PkgName); ok {
								p = pn.Imported()
							}
						} else {
							p = u.eng.lookupPkg(id.Name)
						}
						if p != nil {
							if c, ok := p.Scope().Lookup(se.Sel.Name).(*types.Const); ok {
								if v, ok := u.constValue(c.Val(), c.Type()); ok {
									return v
								}
							}
						}
					}
				}
			}
		}
		lv, ok := sc.lv(e, subs)
		if !ok {
			sc.errorf("cannot evaluate %s", types.ExprString(e))
		}
		return u.load(sc.cur, lv)
	case *ast.IndexExpr:
		bv := sc.goExpr(x.X, subs)
		if gm, ok := bv.T.(*GhostMap); ok {
			iv := sc.goExpr(x.Index, subs)
			return scalar(gm.V, Select(bv.term(), iv.term()))
		}
		if mt, ok := bv.T.Underlying().(*types.Map); ok {
			iv := sc.goExpr(x.Index, subs)
			ksort := flatten(mt.Key())[0].Sort
			dom := u.heapArr(sc.cur, "MD:"+typeKey(bv.T), ArrSort(SInt, ArrSort(ksort, SBool)))
			in := Select(Select(dom, bv.term()), iv.term())
			stored := u.load(sc.cur, LV{kind: lvMap, keyT: typeKey(bv.T), ref: bv.term(), idx: iv.term(), T: mt.Elem(), mapT: mt})
			r := mergeVal(in, stored, u.zeroValue(mt.Elem()))
			r.T = mt.Elem()
			return r
		}
		if isString(bv.T) {
			iv := sc.goExpr(x.Index, subs)
			f := u.d.Fun("sbyte", []Sort{SStr, SInt}, SInt)
			return scalar(types.Typ[types.Uint8], App(f, SInt, bv.term(), iv.term()))
		}
		if at, ok := bv.T.Underlying().(*types.Array); ok {
			if _, isLV := sc.lv(x.X, subs); !isLV || isChunkID(bv.T) {
				iv := sc.goExpr(x.Index, subs)
				if isChunkID(bv.T) || opaqueNamed(bv.T) {
					f := u.d.Fun("idbytes", []Sort{SInt}, ArrSort(SInt, SInt))
					return scalar(at.Elem(), Select(App(f, ArrSort(SInt, SInt), bv.term()), iv.term()))
				}
				ev := Value{T: at.Elem(), L: make([]Term, len(bv.L))}
				for k := range bv.L {
					ev.L[k] = Select(bv.L[k], iv.term())
				}
				return ev
			}
		}
		lv, ok := sc.lv(e, subs)
		if !ok {
			sc.errorf("cannot index %s", types.ExprString(e))
		}
		return u.load(sc.cur, lv)
	case *ast.SliceExpr:
		bv := sc.goExpr(x.X, subs)
		if isString(bv.T) {
			lo, hi := IntLit(0), u.slenOf(sc.st, bv.term())
			if x.Low != nil {
				lo = sc.goExpr(x.Low, subs).term()
			}
			if x.High != nil {
				hi = sc.goExpr(x.High, subs).term()
			}
			f := u.d.Fun("ssub", []Sort{SStr, SInt, SInt}, SStr)
			return scalar(bv.T, App(f, SStr, bv.term(), lo, hi))
		}
		if !bv.isSlice() {
			sc.errorf("slice expression on non-slice in spec")
		}
		lo, hi := IntLit(0), bv.slen()
		if x.Low != nil {
			lo = sc.goExpr(x.Low, subs).term()
		}
		if x.High != nil {
			hi = sc.goExpr(x.High, subs).term()
		}
		return sliceV(bv.T, bv.base(), Add(bv.off(), lo), Sub(hi, lo), Sub(bv.scap(), lo))
	case *ast.UnaryExpr:
		if x.Op == token.AND {
			// &v for a program variable whose address is taken (boxed): the reference of its box
			if id, ok := ast.Unparen(x.X).(*ast.Ident); ok {
				// a parameter bound by value while a callee's contract is applied at a call site
				if v, ok := sc.env[id.Name]; ok && v.T != nil {
					st := sc.cur
					ref := sc.u.alloc(st, "specbox_"+id.Name)
					sc.u.store(st, sc.u.derefLV(ref, v.T), v)
					return scalar(types.NewPointer(v.T), ref)
				}
				if obj, ok := sc.lookupLocal(id.Name); ok {
					if o, ok := obj.(*types.Var); ok {
						st := sc.cur
						if ref, ok := st.boxed[o]; ok {
							return scalar(types.NewPointer(o.Type()), ref)
						}
						if sc.u.old != nil {
							if ref, ok := sc.u.old.boxed[o]; ok {
								return scalar(types.NewPointer(o.Type()), ref)
							}
						}
						// an unboxed variable: a temporary box holding its current value (what a call of a
						// pointer method on the variable sees)
						if v, ok := st.vars[o]; ok {
							ref := sc.u.alloc(st, "specbox_"+o.Name())
							sc.u.store(st, sc.u.derefLV(ref, o.Type()), v)
							return scalar(types.NewPointer(o.Type()), ref)
						}
					}
				}
			}
			sc.errorf("& in spec: operand must be a variable whose address is taken in the function")
		}
		v := sc.goExpr(x.X, subs)
		switch x.Op {
		case token.NOT:
			return boolV(Not(v.term()))
		case token.SUB:
			return scalar(v.T, Neg(v.term()))
		case token.ADD:
			return v
		}
		sc.errorf("unsupported unary %s in spec", x.Op)
	case *ast.BinaryExpr:
		switch x.Op {
		case token.LAND:
			return boolV(And(sc.goExpr(x.X, subs).term(), sc.goExpr(x.Y, subs).term()))
		case token.LOR:
			return boolV(Or(sc.goExpr(x.X, subs).term(), sc.goExpr(x.Y, subs).term()))
		}
		l := sc.goExpr(x.X, subs)
		r := sc.goExpr(x.Y, subs)
		switch x.Op {
		case token.EQL:
			return boolV(sc.equal(l, r))
		case token.NEQ:
			return boolV(Not(sc.equal(l, r)))
		case token.LSS, token.LEQ, token.GTR, token.GEQ:
			return u.compare(sc.st, x.Op, l, r)
		case token.ADD:
			if l.term().Sort == SStr {
				return scalar(tString, u.sconcat(sc.st, l.term(), r.term()))
			}
			return scalar(pickT(l, r), Add(l.term(), r.term()))
		case token.SUB:
			return scalar(pickT(l, r), Sub(l.term(), r.term()))
		case token.MUL:
			return scalar(pickT(l, r), Mul(l.term(), r.term()))
		case token.QUO:
			return scalar(pickT(l, r), App("div", SInt, l.term(), r.term()))
		case token.REM:
			return scalar(pickT(l, r), sc.u.modTerm(sc.st, l.term(), r.term()))
		case token.AND, token.OR, token.XOR, token.SHL, token.SHR:
			// same uninterpreted symbols / constant rules as the program semantics
			saved := u.checks
			u.checks = map[string]bool{}
			t := pickT(l, r)
			if t == tUntyped {
				t = types.Typ[types.Uint64]
			}
			v := u.binop(sc.st, x.Op, l, r, t, token.NoPos)
			u.checks = saved
			return v
		}
		sc.errorf("unsupported operator %s in spec", x.Op)
	case *ast.CallExpr:
		return sc.call(x, subs)
	case *ast.CompositeLit:
		// only T{} (zero value) is supported
		if len(x.Elts) == 0 {
			t, err := u.eng.resolveType(sc.fr.pkg, types.ExprString(x.Type))
			if err != nil {
				sc.errorf("%v", err)
			}
			return u.zeroValue(t)
		}
	}
	sc.errorf("unsupported spec expression %s (%T)", types.ExprString(e), e)
	return Value{}
}

func pickT(l, r Value) types.Type {
	if l.T != nil && l.T != tUntyped {
		return l.T
	}
	if r.T != nil {
		return r.T
	}
	return tInt
}

func (sc *specCtx) equal(l, r Value) Term {
	if l.isSlice() && len(r.L) == 1 {
		return Eq(l.base(), IntLit(0)) // comparison with nil
	}
	if r.isSlice() && len(l.L) == 1 {
		return Eq(r.base(), IntLit(0))
	}
	if l.isSlice() && r.isSlice() {
		// slice header equality (same view)
		return And(Eq(l.base(), r.base()), Eq(l.off(), r.off()), Eq(l.slen(), r.slen()))
	}
	return sc.u.valuesEqual(sc.st, l, r)
}

func (sc *specCtx) call(x *ast.CallExpr, subs map[string]SpecExpr) Value {
	u := sc.u
	name := ""
	switch f := x.Fun.(type) {
	case *ast.Ident:
		name = f.Name
	case *ast.SelectorExpr:
		name = types.ExprString(f)
	case *ast.ParenExpr:
		name = types.ExprString(f)
	case *ast.ArrayType, *ast.StarExpr:
		name = types.ExprString(f)
	}
	arg := func(i int) Value { return sc.goExpr(x.Args[i], subs) }
	switch name {
	case "old":
		saved := sc.cur
		if sc.old == nil {
			sc.errorf("old() used where there is no old state")
		}
		sc.cur = sc.old
		v := arg(0)
		sc.cur = saved
		return v
	case "len":
		v := arg(0)
		switch {
		case v.isSlice():
			return intV(v.slen())
		case isString(v.T):
			return intV(u.slenOf(sc.st, v.term()))
		}
		if at, ok := v.T.Underlying().(*types.Array); ok {
			return intV(IntLit(at.Len()))
		}
		if _, ok := v.T.Underlying().(*types.Map); ok {
			f := u.d.Fun("maplen", []Sort{SInt, ArrSort(SInt, SBool)}, SInt)
			_ = f
			sc.errorf("len of map in spec is not supported")
		}
		sc.errorf("len of %v", v.T)
	case "cap":
		v := arg(0)
		if v.isSlice() {
			return intV(v.scap())
		}
	case "int", "int64", "uint64", "uint32", "int32", "uint", "uint8", "byte", "uint16":
		// spec integers are mathematical: conversions are the identity
		v := arg(0)
		t, _ := u.eng.resolveType(sc.fr.pkg, name)
		return scalar(t, v.term())
	case "is":
		v := arg(0)
		t, err := sc.resolveType(types.ExprString(x.Args[1]))
		if err != nil {
			sc.errorf("%v", err)
		}
		return boolV(u.hasDynType(sc.st, v, t))
	case "as":
		v := arg(0)
		t, err := sc.resolveType(types.ExprString(x.Args[1]))
		if err != nil {
			sc.errorf("%v", err)
		}
		return u.unbox(sc.cur, v, t)
	case "has": // has(m, k): key present in a Go map
		m := arg(0)
		k := arg(1)
		mt, ok := m.T.Underlying().(*types.Map)
		if !ok {
			sc.errorf("has() on non-map")
		}
		ksort := flatten(mt.Key())[0].Sort
		dom := u.heapArr(sc.cur, "MD:"+typeKey(m.T), ArrSort(SInt, ArrSort(ksort, SBool)))
		return boolV(Select(Select(dom, m.term()), k.term()))
	case "held": // held(mu): lock count of a mutex location
		lv, ok := sc.lv(x.Args[0], subs)
		if !ok {
			sc.errorf("held() needs a mutex location")
		}
		return intV(u.load(sc.cur, lv).term())
	case "ite":
		c := arg(0).term()
		a, b := arg(1), arg(2)
		r := mergeVal(c, a, b)
		r.T = pickT(a, b)
		return r
	case "inrng": // inrng(s, j): j is an absolute position inside the window of slice s
		v := arg(0)
		j := arg(1).term()
		if !v.isSlice() {
			sc.errorf("inrng() of non-slice")
		}
		return boolV(And(Le(v.off(), j), Lt(j, Add(v.off(), v.slen()))))
	case "elem": // elem(s, j): element at absolute position j of the backing array of s
		v := arg(0)
		j := arg(1).term()
		if !v.isSlice() {
			sc.errorf("elem() of non-slice")
		}
		et := v.T.Underlying().(*types.Slice).Elem()
		return u.load(sc.cur, LV{kind: lvMem, keyT: typeKey(et), ref: v.base(), idx: j, T: et})
	case "bytes": // bytes(slice): abstract byte string of a []byte
		v := arg(0)
		return sc.bytesOf(v)
	case "pow2": // pow2(k) = 2^k (the function used for 1 << k)
		f := u.d.Fun("pow2", []Sort{SInt}, SInt)
		return intV(App(f, SInt, arg(0).term()))
	case "fresh": // fresh(x): the reference x was allocated after the old state (unit entry / call time)
		v := arg(0)
		if sc.old == nil || sc.old.clock.S == "" {
			sc.errorf("fresh() needs an old state")
		}
		return boolV(Gt(v.L[0], sc.old.clock))
	case "off": // off(s): absolute position of the first element of slice s in its backing array
		v := arg(0)
		if !v.isSlice() {
			sc.errorf("off() of non-slice")
		}
		return intV(v.off())
	case "base": // base(s): identity of the backing array of slice s
		v := arg(0)
		if !v.isSlice() {
			sc.errorf("base() of non-slice")
		}
		return intV(v.base())
	case "blen": // blen(b): length of an abstract byte string
		v := arg(0)
		f := u.d.Fun("blen", []Sort{Sort("Bytes")}, SInt)
		return intV(App(f, SInt, v.term()))
	case "ref": // the reference leaf of a pointer/interface value as an integer
		v := arg(0)
		return intV(v.L[0])
	case "dyntype":
		return intV(u.dyntype(arg(0).term()))
	}
	if sf, ok := u.eng.specFuncs[name]; ok {
		return sc.specFunc(sf, x, subs)
	}
	sc.errorf("unknown spec function %q", name)
	return Value{}
}

// bytesOf abstracts the content of a byte slice: bytes(mem-row, off, len).
func (sc *specCtx) bytesOf(v Value) Value {
	u := sc.u
	if !v.isSlice() {
		sc.errorf("bytes() of non-slice")
	}
	elem := v.T.Underlying().(*types.Slice).Elem()
	arr := u.heapArr(sc.cur, mKey(typeKey(elem), ""), ArrSort(SInt, ArrSort(SInt, SInt)))
	return scalar(&GhostSort{Name: "Bytes"}, u.bytesTerm(Select(arr, v.base()), v.off(), v.slen()))
}

func (u *Unit) bytesTerm(row, off, ln Term) Term {
	f := u.d.Fun("bytesof", []Sort{ArrSort(SInt, SInt), SInt, SInt}, Sort("Bytes"))
	return App(f, Sort("Bytes"), row, off, ln)
}

func (sc *specCtx) specFunc(sf *SpecFunc, x *ast.CallExpr, subs map[string]SpecExpr) Value {
	u := sc.u
	if len(x.Args) != len(sf.Params) {
		sc.errorf("spec function %s expects %d arguments", sf.Name, len(sf.Params))
	}
	args := make([]Value, len(x.Args))
	for i := range x.Args {
		args[i] = sc.goExpr(x.Args[i], subs)
	}
	rt, err := u.eng.resolveType(u.eng.pkgOfFile(sf.File).Types, sf.Ret)
	if err != nil {
		sc.errorf("spec func %s: %v", sf.Name, err)
	}
	if u.bv && sf.Name == "rotl32" && args[0].term().Sort == BVSort(32) {
		// in bit-vector lemmas the rotation has its machine meaning (constant amounts only)
		if n, ok := args[1].term().intVal(); ok && n.IsInt64() {
			k := ((n.Int64() % 32) + 32) % 32
			return scalar(args[0].T, Term{fmt.Sprintf("((_ rotate_left %d) %s)", k, args[0].term().S), BVSort(32)})
		}
		sc.errorf("rotl32 in a bit-vector lemma needs a constant amount")
	}
	if sf.BodyExp != nil && !sf.Opaque {
		// macro expansion in the current context
		if sc.depth > 20 {
			sc.errorf("spec function recursion too deep (%s)", sf.Name)
		}
		saved := map[string]Value{}
		had := map[string]bool{}
		for i, p := range sf.Params {
			if old, ok := sc.bound[p.Name]; ok {
				saved[p.Name] = old
				had[p.Name] = true
			}
			pt, err := u.eng.resolveType(u.eng.pkgOfFile(sf.File).Types, p.Type)
			if err != nil {
				sc.errorf("spec func %s: %v", sf.Name, err)
			}
			a := args[i]
			if len(a.L) == len(flatten(pt)) {
				a = Value{T: pt, L: a.L}
			}
			sc.bound[p.Name] = a
		}
		sc.depth++
		// the body is resolved in the package scope only (no locals of the use site)
		savedPos, savedEnv := sc.pos, sc.env
		sc.env = map[string]Value{}
		for k, v := range savedEnv {
			if strings.HasPrefix(k, "$") {
				sc.env[k] = v
			}
		}
		v := sc.eval(sf.BodyExp)
		sc.pos, sc.env = savedPos, savedEnv
		sc.depth--
		for _, p := range sf.Params {
			if had[p.Name] {
				sc.bound[p.Name] = saved[p.Name]
			} else {
				delete(sc.bound, p.Name)
			}
		}
		if len(v.L) == len(flatten(rt)) {
			v = u.convertConst(v, rt)
			v.T = rt
		}
		return v
	}
	// uninterpreted
	var sorts []Sort
	var terms []Term
	for _, a := range args {
		for _, l := range a.L {
			sorts = append(sorts, l.Sort)
			terms = append(terms, l)
		}
	}
	rl := flatten(rt)
	if len(rl) != 1 {
		sc.errorf("uninterpreted spec function %s must return a scalar", sf.Name)
	}
	f := u.d.Fun("spec_"+sf.Name, sorts, rl[0].Sort)
	return scalar(rt, App(f, rl[0].Sort, terms...))
}

// assumeAxioms adds the global axioms to a state (listed as assumptions in evidence).
func (u *Unit) assumeAxioms(st *State) {
	for _, a := range u.eng.cf.Axioms {
		if a.Lemma || a.Manual {
			continue
		}
		c := &Clause{Text: a.Text, File: a.File, Line: a.Line}
		sc := &specCtx{u: u, st: st, cur: st, env: map[string]Value{}, bound: map[string]Value{}, c: c, fr: u.top()}
		t := sc.bool(a.Expr)
		u.axiomTerms = append(u.axiomTerms, axiomTerm{a.Name, t})
	}
}

type axiomTerm struct {
	name string
	t    Term
}

// scopeInside: inner is a strict descendant of outer.
func scopeInside(inner, outer *types.Scope) bool {
	for s := inner.Parent(); s != nil; s = s.Parent() {
		if s == outer {
			return true
		}
	}
	return false
}
