package main

// Symbolic state: local store, heaps (Burstall-Bornat: one SMT array per struct leaf
// behind pointers, one array-of-arrays per element leaf of slices), path condition.

import (
	"fmt"
	"go/types"
	"math/big"
	"strings"
)

type deferEntry struct {
	run func(st *State) []*Out
	// guard: the defer was registered on only some of the paths merged into this state;
	// it runs exactly when guard holds (zero Term: always)
	guard Term
}

type State struct {
	vars   map[types.Object]Value
	boxed  map[types.Object]Term // address-taken locals: reference into the pointer heap
	heap   map[string]Term
	pc     []Term
	facts  map[string]bool
	defers []*deferEntry
	// names bound by the contract machinery (results, ghost locals)
	names  map[string]Value
	havocs []havocEvent
	clock  Term // allocation clock: every reference handed out so far is <= clock
}

// havocEvent records that every heap key matching pred was forgotten; keys first touched
// afterwards must not be identified with their entry value.
type havocEvent struct {
	id   int
	pred func(key string) bool
	// partial != nil: keys matching partial (and not pred) were only written at references
	// allocated after clock; rows at references <= clock are unchanged.
	partial func(key string) bool
	clock   Term
	// loopFrame: the event is a loop-head havoc in a function with a declared frame; the new
	// symbol of a key satisfies the frame invariant (asserted at loop entry and at back edges)
	loopFrame bool
	// keep: rows of memory this function allocated and has not given away when the event (a call) happened;
	// whatever the callee does, it cannot reach them
	keep []keepRef
}

type keepRef struct {
	ref      Term
	prefixes []string
}

func (k keepRef) covers(key string) bool {
	for _, p := range k.prefixes {
		if key == p || strings.HasPrefix(key, p) {
			return true
		}
	}
	return false
}

func (u *Unit) clk0() Term { return u.d.Const("clk0", SInt) }

// tick advances the allocation clock by an unknown amount (callee allocations).
func (u *Unit) tick(st *State) {
	n := u.d.Fresh("clk", SInt)
	st.assume(Le(st.clock, n))
	st.clock = n
}

func newState() *State {
	return &State{vars: map[types.Object]Value{}, boxed: map[types.Object]Term{}, heap: map[string]Term{}, facts: map[string]bool{}, names: map[string]Value{}}
}

func (s *State) clone() *State {
	n := &State{vars: make(map[types.Object]Value, len(s.vars)), boxed: make(map[types.Object]Term, len(s.boxed)),
		heap: make(map[string]Term, len(s.heap)), facts: make(map[string]bool, len(s.facts)), names: make(map[string]Value, len(s.names))}
	for k, v := range s.vars {
		n.vars[k] = v
	}
	for k, v := range s.boxed {
		n.boxed[k] = v
	}
	for k, v := range s.heap {
		n.heap[k] = v
	}
	for k, v := range s.facts {
		n.facts[k] = v
	}
	for k, v := range s.names {
		n.names[k] = v
	}
	n.pc = append([]Term(nil), s.pc...)
	n.defers = append([]*deferEntry(nil), s.defers...)
	n.havocs = append([]havocEvent(nil), s.havocs...)
	n.clock = s.clock
	return n
}

// dead reports whether a literally false fact has been assumed on this path.
func (s *State) dead() bool { return s.facts["false"] }

func (s *State) assume(t Term) {
	if t.IsTrue() {
		return
	}
	if s.facts[t.S] {
		return
	}
	s.facts[t.S] = true
	s.pc = append(s.pc, t)
}

func joinPath(prefix, leaf string) string {
	switch {
	case prefix == "":
		return strings.TrimPrefix(leaf, "")
	case leaf == "":
		return prefix
	case strings.HasPrefix(leaf, ".") || strings.HasPrefix(leaf, "["):
		return prefix + leaf
	}
	return prefix + "." + leaf
}

// ---- heap arrays

func (u *Unit) heapArr(st *State, key string, sort Sort) Term {
	if t, ok := st.heap[key]; ok {
		return t
	}
	return u.heapBase(st, key, sort)
}

// heapBase is the symbol standing for a heap key that has not been written in this state:
// the entry value, or the value after the latest havoc that covered the key.
func (u *Unit) heapBase(st *State, key string, sort Sort) Term {
	return u.heapBaseAt(st, key, sort, len(st.havocs))
}

func (u *Unit) heapBaseAt(st *State, key string, sort Sort, n int) Term {
	for i := n - 1; i >= 0; i-- {
		h := st.havocs[i]
		if h.pred(key) {
			nw := u.d.Const(fmt.Sprintf("H%d_%s", h.id, key), sort)
			if h.loopFrame && u.old != nil {
				u.frameAssume(st, key, nw)
			}
			if len(h.keep) > 0 && sort.isArray() && sort.arrIdx() == SInt {
				var prev Term
				havePrev := false
				for _, kr := range h.keep {
					if kr.covers(key) {
						if !havePrev {
							prev = u.heapBaseAt(st, key, sort, i)
							havePrev = true
						}
						st.assume(Eq(Select(nw, kr.ref), Select(prev, kr.ref)))
					}
				}
			}
			return nw
		}
		if h.partial != nil && h.partial(key) && sort.isArray() && sort.arrIdx() == SInt {
			nw := u.d.Const(fmt.Sprintf("H%d_%s", h.id, key), sort)
			prev := u.heapBaseAt(st, key, sort, i)
			st.assume(frameFact(nw, prev, h.clock))
			return nw
		}
	}
	return u.d.Const("H0_"+key, sort)
}

// frameFact: rows at references that existed at clock are the same in nw and prev.
func frameFact(nw, prev, clock Term) Term {
	r := Term{"r!hf", SInt}
	return Forall([]Term{r}, Imp(Le(r, clock), Eq(Select(nw, r), Select(prev, r))))
}

func (u *Unit) setHeap(st *State, key string, t Term) { st.heap[key] = t }

// ghostKey: heap key of a ghost variable leaf ("$:name" for scalars).
func ghostKey(name, path string, n int) string {
	if n == 1 {
		return "$:" + name
	}
	return "$:" + name + "#" + path
}

func fKey(tkey, path string) string { return "F:" + tkey + ":" + path }
func mKey(tkey, path string) string { return "M:" + tkey + ":" + path }

// rangeFact adds the machine range of a leaf read from unknown storage.
func (u *Unit) rangeFact(st *State, l Leaf, t Term) {
	if l.Sort != SInt || u.bv {
		return
	}
	if lo, hi, ok := intRange(l.T); ok {
		if _, lit := t.intVal(); lit {
			return
		}
		// only unsigned lower bounds and narrow types matter in practice; keep both bounds
		st.assume(App("<=", SBool, Term{lo, SInt}, t))
		st.assume(App("<=", SBool, t, Term{hi, SInt}))
	}
}

func (u *Unit) sliceFacts(st *State, v Value) {
	if !v.isSlice() {
		return
	}
	if _, lit := v.slen().intVal(); lit {
		return
	}
	st.assume(Le(IntLit(0), v.off()))
	st.assume(Le(IntLit(0), v.slen()))
	st.assume(Le(v.slen(), v.scap()))
}

// capBound: cap * element size <= 2^46 bytes (a slice fits into the address space).
func capBound(t types.Type) Term {
	sz := int64(1)
	if t != nil {
		if sl, ok := t.Underlying().(*types.Slice); ok {
			if n := elemSize(sl.Elem()); n > 1 {
				sz = n
			}
		}
	}
	b := new(big.Int).Lsh(big.NewInt(1), 46)
	return BigLit(b.Div(b, big.NewInt(sz)))
}

// typeFacts assumes machine ranges / slice well-formedness for all leaves of v.
func (u *Unit) typeFacts(st *State, v Value) {
	ls := flatten(v.T)
	for i, l := range ls {
		if strings.HasSuffix(l.Path, ".len") && i >= 2 {
			off, ln, cp := v.L[i-1], v.L[i], v.L[i+1]
			st.assume(Le(IntLit(0), off))
			st.assume(Le(IntLit(0), ln))
			st.assume(Le(ln, cp))
			st.assume(Le(cp, capBound(ls[i+1].T))) // no slice exceeds the address space
			continue
		}
		if strings.HasSuffix(l.Path, ".base") || strings.HasSuffix(l.Path, ".off") || strings.HasSuffix(l.Path, ".cap") {
			continue
		}
		u.rangeFact(st, l, v.L[i])
	}
}

// ---- lvalues

const (
	lvVar = iota
	lvHeap
	lvMem
	lvMap
	lvGlobal
	lvGhostVar
	lvGhostField
	lvBlank
	lvTemp // rvalue that is not addressable (reads only)
)

type LV struct {
	kind   int
	obj    types.Object
	keyT   string
	ref    Term
	idx    Term
	prefix string
	T      types.Type
	lo     int
	arrIdx []Term
	tmp    Value
	mapT   *types.Map
	name   string
}

func (lv LV) String() string {
	return fmt.Sprintf("LV{kind=%d keyT=%s prefix=%s T=%v}", lv.kind, lv.keyT, lv.prefix, lv.T)
}

// field narrows an lvalue of struct type to field i.
func (lv LV) field(st *types.Struct, i int) LV {
	f := st.Field(i)
	n := lv
	n.T = f.Type()
	switch lv.kind {
	case lvVar:
		lo, _ := fieldRange(st, i)
		n.lo = lv.lo + lo
	case lvTemp:
		lo, hi := fieldRange(st, i)
		n.tmp = Value{T: f.Type(), L: lv.tmp.L[lo:hi]}
	default:
		n.prefix = joinPath(lv.prefix, f.Name())
	}
	return n
}

func (u *Unit) leafKey(lv LV, l Leaf) string {
	p := joinPath(lv.prefix, l.Path)
	switch lv.kind {
	case lvHeap:
		return fKey(lv.keyT, p)
	case lvMem:
		return mKey(lv.keyT, p)
	case lvMap:
		return "MV:" + lv.keyT + ":" + p
	case lvGlobal:
		return "G:" + lv.keyT + ":" + p
	}
	panic("leafKey")
}

func applyIdx(t Term, idx []Term) Term {
	for _, i := range idx {
		t = Select(t, i)
	}
	return t
}

func storeIdx(arr Term, idx []Term, v Term) Term {
	if len(idx) == 0 {
		return v
	}
	inner := storeIdx(Select(arr, idx[0]), idx[1:], v)
	return Store(arr, idx[0], inner)
}

// leafSortAt gives the sort of leaf l after stripping len(arrIdx) array levels.
func stripArr(s Sort, n int) Sort {
	for i := 0; i < n; i++ {
		s = s.arrElem()
	}
	return s
}

// containerLeaves returns the leaves of the container-level type when arrIdx is in use.
// For array element lvalues T is the element type, while the storage leaf is the array leaf:
// element leaf path p corresponds to container leaf path p+"[]" (one "[]" per index level).
func arrSuffix(n int) string { return strings.Repeat("[]", n) }

func (u *Unit) load(st *State, lv LV) Value {
	ls := flatten(lv.T)
	out := Value{T: lv.T, L: make([]Term, len(ls))}
	suf := arrSuffix(len(lv.arrIdx))
	switch lv.kind {
	case lvTemp:
		return lv.tmp
	case lvBlank:
		return u.freshValue(st, "blank", lv.T)
	case lvVar:
		if ref, ok := st.boxed[lv.obj]; ok {
			// boxed local: stored in the pointer heap under its own type
			b := LV{kind: lvHeap, keyT: "box:" + typeKey(lv.obj.Type()), ref: ref, T: lv.obj.Type()}
			whole := u.load(st, b)
			if len(lv.arrIdx) > 0 {
				for i := range ls {
					out.L[i] = applyIdx(whole.L[lv.lo+i], lv.arrIdx)
				}
				return out
			}
			copy(out.L, whole.L[lv.lo:lv.lo+len(ls)])
			return out
		}
		whole, ok := st.vars[lv.obj]
		if !ok {
			whole = u.freshValue(st, lv.obj.Name(), lv.obj.Type())
			u.refFacts(st, whole, u.clk0())
			st.vars[lv.obj] = whole
		}
		if len(lv.arrIdx) > 0 {
			for i := range ls {
				out.L[i] = applyIdx(whole.L[lv.lo+i], lv.arrIdx)
			}
			return out
		}
		copy(out.L, whole.L[lv.lo:lv.lo+len(ls)])
		return out
	case lvHeap:
		for i, l := range ls {
			cl := l
			cl.Path += suf
			arr := u.heapArr(st, u.leafKey(lv, cl), ArrSort(SInt, wrapArr(l.Sort, len(lv.arrIdx))))
			out.L[i] = applyIdx(Select(arr, lv.ref), lv.arrIdx)
			u.rangeFact(st, l, out.L[i])
		}
	case lvMem:
		for i, l := range ls {
			cl := l
			cl.Path += suf
			arr := u.heapArr(st, u.leafKey(lv, cl), ArrSort(SInt, ArrSort(SInt, wrapArr(l.Sort, len(lv.arrIdx)))))
			out.L[i] = applyIdx(Select(Select(arr, lv.ref), lv.idx), lv.arrIdx)
			u.rangeFact(st, l, out.L[i])
		}
	case lvMap:
		ksort := flatten(lv.mapT.Key())[0].Sort
		for i, l := range ls {
			arr := u.heapArr(st, u.leafKey(lv, l), ArrSort(SInt, ArrSort(ksort, l.Sort)))
			out.L[i] = Select(Select(arr, lv.ref), lv.idx)
			u.rangeFact(st, l, out.L[i])
		}
	case lvGlobal:
		for i, l := range ls {
			cl := l
			cl.Path += suf
			key := u.leafKey(lv, cl)
			t, ok := st.heap[key]
			if !ok {
				t = u.heapBase(st, key, wrapArr(l.Sort, len(lv.arrIdx)))
			}
			out.L[i] = applyIdx(t, lv.arrIdx)
			u.rangeFact(st, l, out.L[i])
		}
	case lvGhostVar:
		for i, l := range ls {
			out.L[i] = u.heapArr(st, ghostKey(lv.name, l.Path, len(ls)), l.Sort)
		}
	case lvGhostField:
		arr := u.heapArr(st, "$F:"+lv.name, ArrSort(SInt, ls[0].Sort))
		out.L[0] = Select(arr, lv.ref)
	}
	if lv.kind == lvHeap || lv.kind == lvMem || lv.kind == lvMap || lv.kind == lvGlobal {
		u.sliceFacts2(st, out)
		u.refFacts(st, out, st.clock)
	}
	return out
}

// isRefLeaf: the leaf holds a reference into one of the heaps.
func isRefLeaf(l Leaf) bool {
	if l.Sort != SInt {
		return false
	}
	if strings.HasSuffix(l.Path, ".base") {
		return true
	}
	if strings.HasSuffix(l.Path, ".off") || strings.HasSuffix(l.Path, ".len") || strings.HasSuffix(l.Path, ".cap") {
		return false
	}
	if l.T == nil {
		return false
	}
	switch l.T.Underlying().(type) {
	case *types.Pointer, *types.Map, *types.Chan, *types.Interface:
		return true
	}
	return false
}

// refFacts: no reference stored anywhere exceeds the allocation clock.
func (u *Unit) refFacts(st *State, v Value, clock Term) {
	if clock.S == "" {
		return
	}
	for i, l := range flatten(v.T) {
		if isRefLeaf(l) {
			if _, lit := v.L[i].intVal(); lit {
				continue
			}
			st.assume(Le(v.L[i], clock))
		}
	}
}

func wrapArr(s Sort, n int) Sort {
	for i := 0; i < n; i++ {
		s = ArrSort(SInt, s)
	}
	return s
}

func (u *Unit) sliceFacts2(st *State, v Value) {
	ls := flatten(v.T)
	for i, l := range ls {
		if strings.HasSuffix(l.Path, ".len") && i >= 2 && i+1 < len(ls) {
			st.assume(Le(IntLit(0), v.L[i-1]))
			st.assume(Le(IntLit(0), v.L[i]))
			st.assume(Le(v.L[i], v.L[i+1]))
			st.assume(Le(v.L[i+1], capBound(ls[i+1].T))) // no slice exceeds the address space
		}
	}
}

// nameHeap gives a large heap term a name: nested stores mention the previous array twice, so
// unnamed terms double in size with every write.
func (u *Unit) nameHeap(st *State, t Term) Term {
	if len(t.S) <= 320 {
		return t
	}
	n := u.d.Fresh("hs", t.Sort)
	st.assume(Eq(n, t))
	return n
}

// nameBig replaces large leaf terms by fresh constants defined equal to them, which keeps
// verification conditions small (values are shared instead of being copied into every use).
func (u *Unit) nameBig(st *State, v Value, hint string) Value {
	var out *Value
	for i, t := range v.L {
		if len(t.S) > 96 {
			if out == nil {
				c := Value{T: v.T, L: append([]Term(nil), v.L...)}
				out = &c
			}
			n := u.d.Fresh("v_"+hint, t.Sort)
			st.assume(Eq(n, t))
			if u.defs == nil {
				u.defs = map[string]Term{}
			}
			u.defs[n.S] = t
			out.L[i] = n
		}
	}
	if out != nil {
		return *out
	}
	return v
}

func (u *Unit) store(st *State, lv LV, v Value) {
	ls := flatten(lv.T)
	if len(v.L) != len(ls) {
		panic(fmt.Sprintf("store: %d leaves into %v (%d leaves), value type %v", len(v.L), lv.T, len(ls), v.T))
	}
	if lv.kind == lvVar || lv.kind == lvGhostVar {
		h := lv.name
		if lv.obj != nil {
			h = lv.obj.Name()
		}
		v = u.nameBig(st, v, h)
	}
	suf := arrSuffix(len(lv.arrIdx))
	switch lv.kind {
	case lvBlank, lvTemp:
		return
	case lvVar:
		if ref, ok := st.boxed[lv.obj]; ok {
			b := LV{kind: lvHeap, keyT: "box:" + typeKey(lv.obj.Type()), ref: ref, T: lv.obj.Type()}
			whole := u.load(st, b)
			nl := append([]Term(nil), whole.L...)
			for i := range ls {
				nl[lv.lo+i] = storeIdx(whole.L[lv.lo+i], lv.arrIdx, v.L[i])
			}
			u.store(st, b, Value{T: lv.obj.Type(), L: nl})
			return
		}
		whole, ok := st.vars[lv.obj]
		if !ok {
			if lv.lo == 0 && len(ls) == len(flatten(lv.obj.Type())) && len(lv.arrIdx) == 0 {
				st.vars[lv.obj] = Value{T: lv.obj.Type(), L: append([]Term(nil), v.L...)}
				return
			}
			whole = u.freshValue(st, lv.obj.Name(), lv.obj.Type())
		}
		nl := append([]Term(nil), whole.L...)
		for i := range ls {
			nl[lv.lo+i] = storeIdx(whole.L[lv.lo+i], lv.arrIdx, v.L[i])
		}
		st.vars[lv.obj] = Value{T: lv.obj.Type(), L: nl}
	case lvHeap:
		for i, l := range ls {
			cl := l
			cl.Path += suf
			key := u.leafKey(lv, cl)
			arr := u.heapArr(st, key, ArrSort(SInt, wrapArr(l.Sort, len(lv.arrIdx))))
			st.heap[key] = u.nameHeap(st, Store(arr, lv.ref, storeIdx(Select(arr, lv.ref), lv.arrIdx, v.L[i])))
		}
	case lvMem:
		for i, l := range ls {
			cl := l
			cl.Path += suf
			key := u.leafKey(lv, cl)
			arr := u.heapArr(st, key, ArrSort(SInt, ArrSort(SInt, wrapArr(l.Sort, len(lv.arrIdx)))))
			row := Select(arr, lv.ref)
			st.heap[key] = u.nameHeap(st, Store(arr, lv.ref, Store(row, lv.idx, storeIdx(Select(row, lv.idx), lv.arrIdx, v.L[i]))))
		}
	case lvMap:
		ksort := flatten(lv.mapT.Key())[0].Sort
		for i, l := range ls {
			key := u.leafKey(lv, l)
			arr := u.heapArr(st, key, ArrSort(SInt, ArrSort(ksort, l.Sort)))
			st.heap[key] = u.nameHeap(st, Store(arr, lv.ref, Store(Select(arr, lv.ref), lv.idx, v.L[i])))
		}
		dk := "MD:" + lv.keyT
		dom := u.heapArr(st, dk, ArrSort(SInt, ArrSort(ksort, SBool)))
		st.heap[dk] = Store(dom, lv.ref, Store(Select(dom, lv.ref), lv.idx, TTrue))
	case lvGlobal:
		for i, l := range ls {
			cl := l
			cl.Path += suf
			key := u.leafKey(lv, cl)
			if len(lv.arrIdx) > 0 {
				t, ok := st.heap[key]
				if !ok {
					t = u.heapBase(st, key, wrapArr(l.Sort, len(lv.arrIdx)))
				}
				st.heap[key] = storeIdx(t, lv.arrIdx, v.L[i])
			} else {
				st.heap[key] = v.L[i]
			}
		}
	case lvGhostVar:
		for i, l := range ls {
			st.heap[ghostKey(lv.name, l.Path, len(ls))] = v.L[i]
		}
	case lvGhostField:
		key := "$F:" + lv.name
		arr := u.heapArr(st, key, ArrSort(SInt, ls[0].Sort))
		st.heap[key] = Store(arr, lv.ref, v.L[0])
	}
}

// freshValue creates an unconstrained value of type t (with machine-range facts).
func (u *Unit) freshValue(st *State, name string, t types.Type) Value {
	ls := flatten(t)
	v := Value{T: t, L: make([]Term, len(ls))}
	for i, l := range ls {
		s := l.Sort
		if u.bv && s == SInt && isInteger(l.T) {
			s = BVSort(bitWidth(l.T))
		}
		v.L[i] = u.d.Fresh(name+strings.ReplaceAll(l.Path, "[]", "_arr"), s)
	}
	if st != nil {
		u.typeFacts(st, v)
	}
	return v
}

// zeroValue is Go's zero value of type t.
func (u *Unit) zeroValue(t types.Type) Value {
	ls := flatten(t)
	v := Value{T: t, L: make([]Term, len(ls))}
	for i, l := range ls {
		v.L[i] = u.zeroOfSort(l.Sort, l.T)
	}
	return v
}

func (u *Unit) zeroOfSort(s Sort, t types.Type) Term {
	switch {
	case s == SInt:
		if u.bv && t != nil && isInteger(t) {
			return Term{fmt.Sprintf("(_ bv0 %d)", bitWidth(t)), BVSort(bitWidth(t))}
		}
		return IntLit(0)
	case s == SBool:
		return TFalse
	case s == SStr:
		return u.strLit("")
	case s == SFlt:
		return u.d.Const("flt_zero", SFlt)
	case s.isArray():
		return ConstArr(s, u.zeroOfSort(s.arrElem(), t))
	case s.isBV():
		return Term{fmt.Sprintf("(_ bv0 %d)", s.bvWidth()), s}
	}
	return u.d.Const("zero_"+string(s), s)
}

// strLit returns the constant for a string literal; distinct literals are distinct values.
func (u *Unit) strLit(s string) Term {
	name := fmt.Sprintf("str%q", s)
	t := u.d.Const(name, SStr)
	if _, ok := u.strLits[s]; !ok {
		u.strLits[s] = t
	}
	return t
}

// havocHeap forgets heap arrays whose key matches pred (ghost state excepted: it changes
// only through declared modifies clauses).
func (u *Unit) havocHeap(st *State, pred func(key string) bool) {
	u.havocHeap2(st, pred, nil, Term{})
}

// havocHeap2 additionally takes a partial predicate: keys that were written only at
// references allocated after clock keep their rows at older references.
func (u *Unit) havocHeap2(st *State, pred, partial func(key string) bool, clock Term) {
	u.havocHeap3(st, pred, partial, clock, false)
}

func (u *Unit) havocHeap3(st *State, pred, partial func(key string) bool, clock Term, loopFrame bool) {
	u.nextHavoc++
	id := u.nextHavoc
	p := func(key string) bool { return !strings.HasPrefix(key, "$") && pred(key) }
	var pp func(string) bool
	if partial != nil {
		pp = func(key string) bool {
			return !strings.HasPrefix(key, "$") && !strings.HasPrefix(key, "G:") && !p(key) && partial(key)
		}
	}
	var keep []keepRef
	if !loopFrame && partial == nil {
		keep = u.localKeep(st)
	}
	for _, k := range sortedKeys(st.heap) {
		t := st.heap[k]
		if p(k) {
			nw := u.d.Const(fmt.Sprintf("H%d_%s", id, k), t.Sort)
			st.heap[k] = nw
			if loopFrame && u.old != nil {
				u.frameAssume(st, k, nw)
			}
			if t.Sort.isArray() && t.Sort.arrIdx() == SInt {
				for _, kr := range keep {
					if kr.covers(k) {
						st.assume(Eq(Select(nw, kr.ref), Select(t, kr.ref)))
					}
				}
			}
		} else if pp != nil && pp(k) && t.Sort.isArray() && t.Sort.arrIdx() == SInt {
			nw := u.d.Const(fmt.Sprintf("H%d_%s", id, k), t.Sort)
			st.assume(frameFact(nw, t, clock))
			st.heap[k] = nw
		}
	}
	st.havocs = append(st.havocs, havocEvent{id: id, pred: p, partial: pp, clock: clock, loopFrame: loopFrame, keep: keep})
}

// havocGhost forgets one ghost variable or ghost field entirely.
func (u *Unit) havocGhost(st *State, name string) { u.havocGhost2(st, name, false) }

func (u *Unit) havocGhost2(st *State, name string, loopFrame bool) {
	u.nextHavoc++
	id := u.nextHavoc
	match := func(key string) bool {
		return key == "$:"+name || key == "$F:"+name || strings.HasPrefix(key, "$:"+name+"#")
	}
	for _, k := range sortedKeys(st.heap) {
		if !match(k) {
			continue
		}
		t := st.heap[k]
		nw := u.d.Const(fmt.Sprintf("H%d_%s", id, k), t.Sort)
		st.heap[k] = nw
		if loopFrame && u.old != nil {
			u.frameAssume(st, k, nw)
		}
	}
	st.havocs = append(st.havocs, havocEvent{id: id, loopFrame: loopFrame, pred: match})
}

type heapKeyInfo struct {
	key  string
	sort Sort
}

// readHeapKeys lists the heap keys for which a base symbol (H<n>_key) has been declared in
// this unit, i.e. keys that were read at some point.
func (u *Unit) readHeapKeys() []heapKeyInfo {
	seen := map[string]bool{}
	var out []heapKeyInfo
	for _, name := range u.d.order {
		raw := strings.Trim(name, "|")
		if len(raw) < 3 || raw[0] != 'H' {
			continue
		}
		i := strings.Index(raw, "_")
		if i < 2 {
			continue
		}
		digits := raw[1:i]
		ok := true
		for _, c := range digits {
			if c < '0' || c > '9' {
				ok = false
			}
		}
		if !ok {
			continue
		}
		key := raw[i+1:]
		if seen[key] || strings.HasPrefix(key, "$") {
			continue
		}
		decl := u.d.text[name]
		j := strings.Index(decl, " () ")
		if j < 0 {
			continue
		}
		seen[key] = true
		out = append(out, heapKeyInfo{key, Sort(strings.TrimSuffix(decl[j+4:], ")"))})
	}
	return out
}
