package main

// Engine: loads /repo (tag verif), the contract files and stubs, resolves contracts to
// *types.Func objects, and creates verification units (functions and function literals).

import (
	"go/parser"
	"regexp"
	"sync"
	"fmt"
	"go/ast"
	"go/token"
	"go/types"
	"os"
	"path/filepath"
	"sort"
	"strings"

	"golang.org/x/tools/go/packages"
)

type fnInfo struct {
	decl *ast.FuncDecl
	pkg  *packages.Package
}

type Engine struct {
	staleContracts []staleContract
	shapesBase  map[string]bodyShape // loop / literal signatures per body under contract at baseline time
	funcsBase   map[string]bool // names of all repository functions at baseline time (nil: unknown)
	newMethods  map[string][]string // receiver type -> methods that are not in the baseline (the type was)
	verifDir    string              // the --verif directory (stubs, baseline, replay templates)
	localsBase  map[string][]localDecl // baseline declarations per function (rename repair)
	renameCache map[*types.Func]*renameMaps
	renameMu    sync.Mutex
	varBaseOnce sync.Once
	fieldOnce   sync.Once
	fieldNames  map[string]bool
	varBase     bool
	callNames map[string]bool // names declared as functions or used in call position anywhere in the repo packages
	axiomsUsed sync.Map // axiom name -> true: included in at least one query of this run
	oncallHit sync.Map // *Clause -> true: oncall clauses that matched at least one call site
	fset      *token.FileSet
	pkgs      []*packages.Package
	root      *packages.Package // github.com/folbricht/desync
	cmd       *packages.Package // cmd/desync
	allPkgs   map[string]*packages.Package
	cf        *ContractFile
	contracts map[*types.Func]*FuncContract
	byName    map[string]*FuncContract // "Recv.Name" fallback
	funcs     map[*types.Func]*fnInfo
	specFuncs map[string]*SpecFunc
	ghostVars map[string]types.Type
	ghostFlds map[string]types.Type
	sorts     map[string]bool
	guards    map[string]*Guard // struct type name -> guard
	typeTags  map[string]int
	errs      []string
	repoDir   string
	verbose   bool
	leafErrs  []types.Type
}

func (e *Engine) errorf(format string, a ...interface{}) {
	e.errs = append(e.errs, fmt.Sprintf(format, a...))
}

func LoadEngine(repoDir, verifDir string) (*Engine, error) {
	e := &Engine{contracts: map[*types.Func]*FuncContract{}, byName: map[string]*FuncContract{}, funcs: map[*types.Func]*fnInfo{},
		specFuncs: map[string]*SpecFunc{}, ghostVars: map[string]types.Type{}, ghostFlds: map[string]types.Type{}, sorts: map[string]bool{},
		guards: map[string]*Guard{}, typeTags: map[string]int{}, allPkgs: map[string]*packages.Package{}, repoDir: repoDir, verifDir: verifDir}
	e.fset = token.NewFileSet()
	cfg := &packages.Config{Mode: packages.LoadAllSyntax, Dir: repoDir, BuildFlags: []string{"-tags", "verif"}, Fset: e.fset,
		Env: append(os.Environ(), "GOFLAGS=-mod=mod", "GOPROXY=off", "GOSUMDB=off", "GOTOOLCHAIN=local")}
	pkgs, err := packages.Load(cfg, ".", "./cmd/desync")
	if err != nil {
		return nil, err
	}
	e.pkgs = pkgs
	for _, p := range pkgs {
		for _, er := range p.Errors {
			return nil, fmt.Errorf("load error: %v", er)
		}
		if strings.HasSuffix(p.PkgPath, "cmd/desync") {
			e.cmd = p
		} else {
			e.root = p
		}
	}
	if e.root == nil {
		return nil, fmt.Errorf("root package not loaded")
	}
	packages.Visit(pkgs, nil, func(p *packages.Package) { e.allPkgs[p.PkgPath] = p })
	// index function declarations of the repo packages; remember every name that is declared as a
	// function or appears in call position (a contract clause naming a callee outside this set is stale)
	e.callNames = map[string]bool{}
	for _, p := range pkgs {
		for _, f := range p.Syntax {
			for _, d := range f.Decls {
				if fd, ok := d.(*ast.FuncDecl); ok {
					e.callNames[fd.Name.Name] = true
					if obj, ok := p.TypesInfo.Defs[fd.Name].(*types.Func); ok {
						e.funcs[obj] = &fnInfo{fd, p}
					}
				}
			}
			ast.Inspect(f, func(n ast.Node) bool {
				if c, ok := n.(*ast.CallExpr); ok {
					switch fx := ast.Unparen(c.Fun).(type) {
					case *ast.Ident:
						e.callNames[fx.Name] = true
					case *ast.SelectorExpr:
						e.callNames[fx.Sel.Name] = true
					}
				}
				return true
			})
		}
	}
	// contract files: every verif_contracts*.go in the two package dirs, plus stubs
	e.cf = &ContractFile{}
	var files []string
	for _, dir := range []string{repoDir, filepath.Join(repoDir, "cmd", "desync")} {
		m, _ := filepath.Glob(filepath.Join(dir, "verif_contracts*.go"))
		sort.Strings(m)
		files = append(files, m...)
	}
	for _, f := range files {
		if err := ParseContractFile(f, false, e.cf); err != nil {
			return nil, err
		}
	}
	stubs, _ := filepath.Glob(filepath.Join(verifDir, "stubs", "*.spec"))
	sort.Strings(stubs)
	for _, f := range stubs {
		if err := ParseContractFile(f, true, e.cf); err != nil {
			return nil, err
		}
	}
	if err := e.resolve(); err != nil {
		return nil, err
	}
	return e, nil
}

// pkgOfFile returns the repo package a contract file belongs to.
func (e *Engine) pkgOfFile(file string) *packages.Package {
	if strings.Contains(file, "/cmd/desync/") && e.cmd != nil {
		return e.cmd
	}
	return e.root
}

func (e *Engine) lookupPkg(name string) *types.Package {
	// by import path or by package name
	if p, ok := e.allPkgs[name]; ok {
		return p.Types
	}
	var cands []*types.Package
	for path, p := range e.allPkgs {
		if p.Types != nil && (p.Types.Name() == name || strings.HasSuffix(path, "/"+name)) {
			cands = append(cands, p.Types)
		}
	}
	sort.Slice(cands, func(i, j int) bool { return len(cands[i].Path()) < len(cands[j].Path()) })
	if len(cands) > 0 {
		return cands[0]
	}
	return nil
}

// resolveType parses a type expression in the scope of pkg (ghost sorts included).
func (e *Engine) resolveType(pkg *types.Package, s string) (types.Type, error) {
	s = strings.TrimSpace(s)
	if e.sorts[s] {
		return &GhostSort{Name: s}, nil
	}
	if strings.HasPrefix(s, "map[") {
		// ghost (value) map
		end := strings.Index(s, "]")
		k, err := e.resolveType(pkg, s[4:end])
		if err != nil {
			return nil, err
		}
		v, err := e.resolveType(pkg, s[end+1:])
		if err != nil {
			return nil, err
		}
		return &GhostMap{K: k, V: v}, nil
	}
	if s == "ref" {
		return types.Typ[types.UnsafePointer], nil
	}
	if strings.HasPrefix(s, "[]") {
		el, err := e.resolveType(pkg, s[2:])
		if err != nil {
			return nil, err
		}
		return types.NewSlice(el), nil
	}
	// qualified names of packages not imported by pkg: resolve manually
	if i := strings.LastIndex(s, "."); i > 0 && !strings.ContainsAny(s, "[]() ") {
		star := strings.HasPrefix(s, "*")
		q := strings.TrimPrefix(s[:i], "*")
		if p := e.lookupPkg(q); p != nil {
			if obj := p.Scope().Lookup(s[i+1:]); obj != nil {
				if star {
					return types.NewPointer(obj.Type()), nil
				}
				return obj.Type(), nil
			}
		}
	}
	tv, err := types.Eval(e.fset, pkg, token.NoPos, s)
	if err != nil {
		return nil, fmt.Errorf("cannot resolve type %q: %v", s, err)
	}
	if !tv.IsType() {
		return nil, fmt.Errorf("%q is not a type", s)
	}
	return tv.Type, nil
}

func (e *Engine) resolve() error {
	for _, s := range e.cf.Sorts {
		e.sorts[s] = true
	}
	for _, g := range e.cf.Ghosts {
		t, err := e.resolveType(e.root.Types, g.Type)
		if err != nil {
			return fmt.Errorf("ghost %s: %v", g.Name, err)
		}
		if g.Field {
			e.ghostFlds[g.Name] = t
		} else {
			e.ghostVars[g.Name] = t
		}
	}
	for _, sf := range e.cf.Specs {
		if _, dup := e.specFuncs[sf.Name]; dup {
			return fmt.Errorf("duplicate spec func %s", sf.Name)
		}
		e.specFuncs[sf.Name] = sf
		if sf.Body != "" {
			ex, err := ParseSpec(sf.Body)
			if err != nil {
				return fmt.Errorf("%s:%d: %v", sf.File, sf.Line, err)
			}
			sf.BodyExp = ex
		}
	}
	for _, a := range e.cf.Axioms {
		ex, err := ParseSpec(a.Text)
		if err != nil {
			return fmt.Errorf("%s:%d: %v", a.File, a.Line, err)
		}
		a.Expr = ex
	}
	for _, g := range e.cf.Guards {
		if g.Inv != "" {
			ex, err := ParseSpec(g.Inv)
			if err != nil {
				return fmt.Errorf("%s:%d: %v", g.File, g.Line, err)
			}
			g.InvExp = ex
		}
		if g.Rely != "" {
			ex, err := ParseSpec(g.Rely)
			if err != nil {
				return fmt.Errorf("%s:%d: %v", g.File, g.Line, err)
			}
			g.RelyExp = ex
		}
		e.guards[g.Type] = g
	}
	for _, fc := range e.cf.Funcs {
		if err := e.parseClauses(fc.Spec); err != nil {
			return err
		}
		fn, err := e.findFunc(fc)
		if err != nil {
			if fc.File != "" && !strings.HasSuffix(fc.File, ".spec") {
				// a contract on a repository function that no longer exists under that name (renamed or
				// removed): the contract is stale; its obligations are undecided for the properties it serves
				e.staleContracts = append(e.staleContracts, staleContract{name: contractUnitName(fc), props: fc.Props, msg: fmt.Sprintf("%s:%d: %v", shortFile(fc.File), fc.Line, err)})
				continue
			}
			return fmt.Errorf("%s:%d: %v", fc.File, fc.Line, err)
		}
		if _, dup := e.contracts[fn]; dup {
			return fmt.Errorf("%s:%d: duplicate contract for %s", fc.File, fc.Line, fn.FullName())
		}
		e.contracts[fn] = fc
		if recv := fn.Type().(*types.Signature).Recv(); recv != nil && isInterface(recv.Type()) {
			fc.Iface = true
			fc.Verify = false
		}
		if _, ok := e.funcs[fn]; !ok {
			fc.Verify = false
		}
	}
	return nil
}

func (e *Engine) parseClauses(us *UnitSpec) error {
	all := [][]*Clause{us.Requires, us.Ensures, us.OnCall, us.Asserts, us.Chans}
	for _, ls := range us.Loops {
		all = append(all, ls.Invariants)
		if ls.Decreases != nil {
			all = append(all, []*Clause{ls.Decreases})
		}
	}
	for _, ls := range us.Labels {
		all = append(all, ls.Invariants)
		if ls.Decreases != nil {
			all = append(all, []*Clause{ls.Decreases})
		}
	}
	for _, cs := range all {
		for _, c := range cs {
			ex, err := ParseSpec(c.Text)
			if err != nil {
				return fmt.Errorf("%s:%d: %v", c.File, c.Line, err)
			}
			c.Expr = ex
		}
	}
	for _, c := range us.Ghost {
		// "lhs = expr"
		lhs, rhs, ok := splitTop(c.Text, "=", false)
		if !ok || strings.HasPrefix(rhs, "=") {
			return fmt.Errorf("%s:%d: ghost statement must be an assignment", c.File, c.Line)
		}
		le, err := ParseSpec(lhs)
		if err != nil {
			return fmt.Errorf("%s:%d: %v", c.File, c.Line, err)
		}
		re, err := ParseSpec(rhs)
		if err != nil {
			return fmt.Errorf("%s:%d: %v", c.File, c.Line, err)
		}
		c.Expr = [2]SpecExpr{le, re}
	}
	for _, sub := range us.Lits {
		if err := e.parseClauses(sub); err != nil {
			return err
		}
	}
	return nil
}

// findFunc resolves a contract header to the function object.
func (e *Engine) findFunc(fc *FuncContract) (*types.Func, error) {
	pkg := e.pkgOfFile(fc.File).Types
	name := fc.Name
	if fc.RecvType != "" {
		rt := fc.RecvType
		tp := pkg
		if i := strings.LastIndex(rt, "."); i >= 0 {
			tp = e.lookupPkg(rt[:i])
			if tp == nil {
				return nil, fmt.Errorf("unknown package %q", rt[:i])
			}
			rt = rt[i+1:]
		}
		obj := tp.Scope().Lookup(rt)
		if obj == nil {
			return nil, fmt.Errorf("unknown type %s", fc.RecvType)
		}
		for _, t := range []types.Type{obj.Type(), types.NewPointer(obj.Type())} {
			o, _, _ := types.LookupFieldOrMethod(t, true, tp, name)
			if fn, ok := o.(*types.Func); ok {
				return fn, nil
			}
		}
		return nil, fmt.Errorf("type %s has no method %s", fc.RecvType, name)
	}
	if strings.HasPrefix(name, "init:") {
		return e.initUnit(e.pkgOfFile(fc.File), strings.TrimPrefix(name, "init:"))
	}
	tp := pkg
	if i := strings.LastIndex(name, "."); i >= 0 {
		tp = e.lookupPkg(name[:i])
		if tp == nil {
			return nil, fmt.Errorf("unknown package %q", name[:i])
		}
		name = name[i+1:]
	}
	obj := tp.Scope().Lookup(name)
	fn, ok := obj.(*types.Func)
	if !ok {
		return nil, fmt.Errorf("unknown function %s", fc.Name)
	}
	return fn, nil
}

func (e *Engine) typeTag(t types.Type) int {
	k := typeKey(t)
	if n, ok := e.typeTags[k]; ok {
		return n
	}
	n := len(e.typeTags) + 1
	e.typeTags[k] = n
	return n
}

// funcKey is the display name of a function: "Recv.Name" or "Name" ("main." prefix for cmd).
func funcKey(fn *types.Func) string {
	sig := fn.Type().(*types.Signature)
	name := fn.Name()
	if r := sig.Recv(); r != nil {
		t := r.Type()
		if p, ok := t.(*types.Pointer); ok {
			t = p.Elem()
		}
		name = typeKey(t) + "." + name
	} else if fn.Pkg() != nil {
		switch {
		case strings.HasSuffix(fn.Pkg().Path(), "folbricht/desync"):
		case strings.HasSuffix(fn.Pkg().Path(), "cmd/desync"):
			name = "main." + name
		default:
			name = fn.Pkg().Name() + "." + name
		}
	}
	return name
}

func (e *Engine) allRepoPkgs() map[string]bool {
	m := map[string]bool{}
	for _, p := range e.pkgs {
		m[p.PkgPath] = true
	}
	return m
}

type staleContract struct {
	name  string
	props []string
	msg   string
}

// contractUnitName is the unit name ("T.M" or "F", "main.F" outside the root package is not
// reconstructed: prefix match on the bare name is used) of a contract header.
func contractUnitName(fc *FuncContract) string {
	if fc.RecvType != "" {
		return strings.TrimPrefix(fc.RecvType, "*") + "." + fc.Name
	}
	return fc.Name
}

// staleCallee returns the first callee name mentioned by an anchor or oncall clause of the spec that
// is no function name in the repository any more (renamed or removed callee).
func (e *Engine) staleCallee(us *UnitSpec) string {
	if us == nil || e.callNames == nil {
		return ""
	}
	check := func(name string) string {
		if i := strings.LastIndex(name, "#"); i > 0 {
			name = name[:i]
		}
		if i := strings.LastIndex(name, "."); i >= 0 {
			name = name[i+1:]
		}
		if name == "" || name == "*" {
			return ""
		}
		// a function under contract that no longer exists under its name (renamed / removed): whoever anchors
		// clauses at calls of it is stale as well, even if the short name still occurs elsewhere (a builtin)
		for _, sc := range e.staleContracts {
			short := sc.name
			if i := strings.LastIndex(short, "."); i >= 0 {
				short = short[i+1:]
			}
			if short == name {
				return name
			}
		}
		if e.callNames[name] {
			return ""
		}
		return name
	}
	var cs []*Clause
	cs = append(cs, us.Ghost...)
	cs = append(cs, us.Asserts...)
	for _, c := range cs {
		// channel anchors name an expression; a field in it that no struct of the repository has any more
		// (renamed) makes the clause unmatchable
		for _, pre := range []string{"send:", "recv:", "close:"} {
			if strings.HasPrefix(c.Arg, pre) {
				for _, m := range reSelName.FindAllStringSubmatch(c.Arg, -1) {
					if !e.fieldNameSet()[m[1]] {
						return "field " + m[1]
					}
				}
			}
		}
		for _, pre := range []string{"after:", "before:", "call:"} {
			if strings.HasPrefix(c.Arg, pre) {
				if n := check(strings.TrimPrefix(c.Arg, pre)); n != "" {
					return n
				}
			}
		}
	}
	for _, c := range us.OnCall {
		if n := check(c.Arg); n != "" {
			return n
		}
	}
	for _, sub := range us.Lits {
		if n := e.staleCallee(sub); n != "" {
			return n
		}
	}
	return ""
}

// initUnit makes the initializer of a package-level variable a unit of its own: `var x, y = f()` becomes
// the body `x, y = f()` of a parameterless function named init:x, run like any other function under
// contract (its postconditions may mention the package variables it initialises).
func (e *Engine) initUnit(p *packages.Package, name string) (*types.Func, error) {
	for _, f := range p.Syntax {
		for _, d := range f.Decls {
			gd, ok := d.(*ast.GenDecl)
			if !ok || gd.Tok != token.VAR {
				continue
			}
			for _, sp := range gd.Specs {
				vs := sp.(*ast.ValueSpec)
				hit := false
				for _, n := range vs.Names {
					hit = hit || n.Name == name
				}
				if !hit {
					continue
				}
				if len(vs.Values) == 0 {
					return nil, fmt.Errorf("package variable %s has no initializer", name)
				}
				var lhs []ast.Expr
				for _, n := range vs.Names {
					id := &ast.Ident{NamePos: n.NamePos, Name: n.Name}
					if obj := p.TypesInfo.Defs[n]; obj != nil {
						p.TypesInfo.Uses[id] = obj
					}
					lhs = append(lhs, id)
				}
				body := &ast.BlockStmt{Lbrace: vs.Pos(), Rbrace: vs.End(), List: []ast.Stmt{
					&ast.AssignStmt{Lhs: lhs, TokPos: vs.Pos(), Tok: token.ASSIGN, Rhs: vs.Values}}}
				fd := &ast.FuncDecl{Name: &ast.Ident{NamePos: vs.Pos(), Name: "init:" + name},
					Type: &ast.FuncType{Func: vs.Pos(), Params: &ast.FieldList{}}, Body: body}
				fn := types.NewFunc(vs.Pos(), p.Types, "init:"+name, types.NewSignatureType(nil, nil, nil, nil, nil, false))
				e.funcs[fn] = &fnInfo{fd, p}
				return fn, nil
			}
		}
	}
	return nil, fmt.Errorf("unknown package variable %s", name)
}

// hasVarBaseline: the baseline lists package-level variables (older baselines listed functions only).
func (e *Engine) hasVarBaseline() bool {
	e.varBaseOnce.Do(func() {
		for k := range e.funcsBase {
			if strings.HasPrefix(k, "var:") {
				e.varBase = true
				return
			}
		}
	})
	return e.varBase
}

var reSelName = regexp.MustCompile(`\.([A-Za-z_]\w*)`)

// fieldNameSet: names of all struct fields and methods declared in or used by the repository packages.
func (e *Engine) fieldNameSet() map[string]bool {
	e.fieldOnce.Do(func() {
		e.fieldNames = map[string]bool{}
		for _, p := range e.pkgs {
			for id, obj := range p.TypesInfo.Defs {
				if v, ok := obj.(*types.Var); ok && v.IsField() {
					e.fieldNames[id.Name] = true
				}
				if _, ok := obj.(*types.Func); ok {
					e.fieldNames[id.Name] = true
				}
			}
			for id, obj := range p.TypesInfo.Uses {
				if v, ok := obj.(*types.Var); ok && v.IsField() {
					e.fieldNames[id.Name] = true
				}
				if _, ok := obj.(*types.Func); ok {
					e.fieldNames[id.Name] = true
				}
			}
		}
	})
	return e.fieldNames
}

// staleChanAnchor: a send:/recv:/close: anchor names a channel expression such as r.done; when its base is a
// parameter or the receiver of the function and a field along the path does not exist in that type any more
// (renamed), the clause can never match: the contract is stale.
func (e *Engine) staleChanAnchor(fn *types.Func, us *UnitSpec) string {
	if us == nil || fn.Scope() == nil {
		return ""
	}
	var cs []*Clause
	cs = append(cs, us.Ghost...)
	cs = append(cs, us.Asserts...)
	for _, c := range cs {
		for _, pre := range []string{"send:", "recv:", "close:"} {
			if !strings.HasPrefix(c.Arg, pre) {
				continue
			}
			txt := strings.TrimPrefix(c.Arg, pre)
			txt = strings.TrimSuffix(txt, "()")
			ex, err := parser.ParseExpr(txt)
			if err != nil {
				continue
			}
			// unwind the selector chain
			var names []string
			cur := ex
			for {
				if c2, ok := cur.(*ast.CallExpr); ok {
					cur = c2.Fun
					continue
				}
				if sel, ok := cur.(*ast.SelectorExpr); ok {
					names = append([]string{sel.Sel.Name}, names...)
					cur = sel.X
					continue
				}
				break
			}
			id, ok := cur.(*ast.Ident)
			if !ok || len(names) == 0 {
				continue
			}
			obj := fn.Scope().Lookup(id.Name)
			if obj == nil {
				if r := e.renames(fn); r != nil {
					if nw, has := r.old2new[id.Name]; has {
						obj = fn.Scope().Lookup(nw)
					}
				}
			}
			v, ok := obj.(*types.Var)
			if !ok {
				continue // a local of the body, a captured variable: resolved (or found stale) when evaluated
			}
			t := v.Type()
			for _, n := range names {
				o, _, _ := types.LookupFieldOrMethod(t, true, fn.Pkg(), n)
				if o == nil {
					return fmt.Sprintf("%s has no field or method %s (anchor %s)", types.TypeString(t, nil), n, c.Arg)
				}
				t = o.Type()
				if sg, ok := t.(*types.Signature); ok && sg.Results().Len() == 1 {
					t = sg.Results().At(0).Type()
				}
			}
		}
	}
	return ""
}
