package main

// Native models of a few library functions whose semantics need more than a
// requires/ensures stub (locks, once, errgroup, error wrapping, sort.Search).
// Each model used by a proof is listed in the evidence's trusted base.

import (
	"fmt"
	"go/ast"
	"go/token"
	"go/types"
	"strings"
)

// syncCall handles methods of sync.Mutex / RWMutex / Once called on a field or variable.
func (u *Unit) syncCall(st *State, call *ast.CallExpr, fn *types.Func, sel *ast.SelectorExpr) *syncResult {
	if fn.Pkg() == nil || fn.Pkg().Path() != "sync" {
		return nil
	}
	recv := fn.Type().(*types.Signature).Recv().Type()
	if p, ok := recv.(*types.Pointer); ok {
		recv = p.Elem()
	}
	rn := typeKey(recv)
	switch rn {
	case "sync.Mutex", "sync.RWMutex":
		lv := u.mutexLV(st, sel)
		name := exprText(sel.X)
		u.stubsUsed["model:sync."+fn.Name()] = true
		if u.anchorsApply() {
			u.runAnchorsNamed(st, "before:"+fn.Name(), call.Pos(), nil)
		}
		switch fn.Name() {
		case "Lock", "RLock":
			cur := u.load(st, lv).term()
			mode := int64(1)
			if fn.Name() == "RLock" {
				mode = 2
			}
			u.noteLock(lv, name)
			if u.checks["lock"] {
				u.oblige(st, "lock@"+name, "lock", nil, Eq(cur, IntLit(0)), call.Pos(), "mutex not already held by this goroutine")
			}
			// a goroutine that locks a mutex it already holds never gets here
			st.assume(Eq(cur, IntLit(0)))
			u.store(st, lv, scalar(lv.T, IntLit(mode)))
			u.acquireGuard(st, sel, lv, call.Pos())
		case "Unlock", "RUnlock":
			cur := u.load(st, lv).term()
			u.noteLock(lv, name)
			u.oblige(st, "unlock@"+name, "lock", nil, Ne(cur, IntLit(0)), call.Pos(), "unlock of a mutex that is held")
			u.releaseGuard(st, sel, lv, call.Pos())
			u.store(st, lv, scalar(lv.T, IntLit(0)))
		default:
			u.abstract("sync.%s.%s not modelled", rn, fn.Name())
		}
		if u.anchorsApply() {
			u.runAnchorsNamed(st, "after:"+fn.Name(), call.Pos(), nil)
		}
		return &syncResult{}
	case "sync.Once":
		if fn.Name() != "Do" {
			return nil
		}
		u.stubsUsed["model:sync.Once.Do"] = true
		lv := u.mutexLV(st, sel)
		done := u.load(st, lv).term()
		// run f iff not done; afterwards done (even if f "failed")
		arg := ast.Unparen(call.Args[0])
		rs := st.clone()
		rs.assume(Eq(done, IntLit(0)))
		n0 := len(rs.pc)
		switch a := arg.(type) {
		case *ast.FuncLit:
			cv := u.closureValue(rs, a)
			u.inlineLit(rs, u.closures[cv.term().S], nil)
		default:
			fv := u.eval(rs, arg)
			if cl, ok := u.closures[fv.term().S]; ok {
				u.inlineLit(rs, cl, nil)
			} else {
				u.abstract("once.Do(%s): callee unknown, heap havocked", exprText(arg))
				u.havocHeap(rs, func(string) bool { return true })
			}
		}
		u.adoptGuarded(st, rs, Eq(done, IntLit(0)), n0)
		u.store(st, lv, scalar(lv.T, IntLit(1)))
		return &syncResult{}
	case "sync.WaitGroup":
		u.stubsUsed["model:sync.WaitGroup"] = true
		return &syncResult{}
	}
	return nil
}

// mutexLV locates the mutex a sync method is called on (field, embedded field or variable).
func (u *Unit) mutexLV(st *State, sel *ast.SelectorExpr) LV {
	info := u.top().info
	xt := info.TypeOf(sel.X)
	selection := info.Selections[sel]
	var lv LV
	if isPointer(xt) {
		p := u.eval(st, sel.X)
		lv = u.derefLV(p.term(), xt.Underlying().(*types.Pointer).Elem())
	} else {
		lv = u.evalLVr(st, sel.X)
	}
	if selection != nil {
		idx := selection.Index()
		for _, fi := range idx[:len(idx)-1] {
			if isPointer(lv.T) {
				pv := u.load(st, lv)
				lv = u.derefLV(pv.term(), lv.T.Underlying().(*types.Pointer).Elem())
			}
			lv = lv.field(lv.T.Underlying().(*types.Struct), fi)
		}
	}
	return lv
}

type lockLoc struct {
	lv   LV
	name string
}

func (u *Unit) noteLock(lv LV, name string) {
	for _, l := range u.locks {
		if l.name == name {
			return
		}
	}
	u.locks = append(u.locks, lockLoc{lv, name})
}

// checkLockBalance: every mutex touched by the function is in its entry state at return.
func (u *Unit) checkLockBalance(st *State, pos token.Pos) {
	for _, l := range u.locks {
		if l.lv.kind == lvVar {
			if _, ok := st.vars[l.lv.obj]; !ok {
				if _, boxed := st.boxed[l.lv.obj]; !boxed {
					continue // local mutex out of scope
				}
			}
			if _, ok := u.old.vars[l.lv.obj]; !ok {
				// a local mutex must be released
				now := u.load(st, l.lv).term()
				u.oblige(st, "balance@"+l.name, "lock", nil, Eq(now, IntLit(0)), pos, "local mutex released at return")
				continue
			}
		}
		now := u.load(st, l.lv).term()
		was := u.load(u.old, l.lv).term()
		u.oblige(st, "balance@"+l.name, "lock", nil, Eq(now, was), pos, "mutex held-state at return equals the entry state")
	}
}

// Guards are declared per allocated struct type with field paths relative to it:
//   guard T: f1, f2 by mu inv I(self)          guard SwapWriteStore: SwapStore.s by SwapStore.mu

// pathType returns the type found by following a dotted field path from struct type t.
func pathType(t types.Type, path string) types.Type {
	for _, name := range strings.Split(path, ".") {
		st, ok := t.Underlying().(*types.Struct)
		if !ok {
			return nil
		}
		var next types.Type
		for i := 0; i < st.NumFields(); i++ {
			if st.Field(i).Name() == name {
				next = st.Field(i).Type()
			}
		}
		if next == nil {
			return nil
		}
		t = next
	}
	return t
}

func (u *Unit) guardOf(mu LV) *Guard {
	if mu.kind != lvHeap {
		return nil
	}
	g := u.eng.guards[mu.keyT]
	if g == nil || g.Mutex != mu.prefix {
		return nil
	}
	return g
}

// acquireGuard: on Lock, the guarded fields take unknown values satisfying the lock invariant
// (other goroutines may have changed them while the lock was free).
func (u *Unit) acquireGuard(st *State, sel *ast.SelectorExpr, mu LV, pos token.Pos) {
	g := u.guardOf(mu)
	if g == nil {
		return
	}
	t := u.eng.lookupNamed(mu.keyT)
	prev := st.clone() // this goroutine's latest view of the guarded state
	for _, f := range g.Fields {
		ft := pathType(t, f)
		if ft == nil {
			panic(engineError(fmt.Sprintf("guard %s: no field %s", g.Type, f)))
		}
		flv := LV{kind: lvHeap, keyT: mu.keyT, ref: mu.ref, prefix: f, T: ft}
		nv := u.freshValue(st, "locked_"+strings.ReplaceAll(f, ".", "_"), ft)
		u.refFacts(st, nv, st.clock)
		u.store(st, flv, nv)
		u.havocReachable(st, ft)
	}
	env := map[string]Value{"self": scalar(types.NewPointer(t), mu.ref)}
	if g.InvExp != nil {
		c := &Clause{Text: g.Inv, File: g.File, Line: g.Line}
		st.assume(u.specBoolAt(st, u.old, env, g.InvExp, c, token.NoPos))
	}
	if g.RelyExp != nil {
		// other goroutines changed the guarded state only in ways allowed by the rely relation
		c := &Clause{Text: g.Rely, File: g.File, Line: g.Line}
		st.assume(u.specBoolAt(st, prev, env, g.RelyExp, c, token.NoPos))
		u.lockSnaps[mu.keyT+"|"+mu.ref.S] = st.clone()
	}
}

// havocReachable: the memory behind a guarded map/slice field may have been changed as well.
func (u *Unit) havocReachable(st *State, t types.Type) {
	switch tt := t.Underlying().(type) {
	case *types.Map:
		k := typeKey(t)
		u.havocHeap(st, func(key string) bool { return key == "MD:"+k || strings.HasPrefix(key, "MV:"+k+":") })
	case *types.Slice:
		k := typeKey(tt.Elem())
		u.havocHeap(st, func(key string) bool { return strings.HasPrefix(key, "M:"+k+":") })
	}
}

func (u *Unit) releaseGuard(st *State, sel *ast.SelectorExpr, mu LV, pos token.Pos) {
	g := u.guardOf(mu)
	if g == nil {
		return
	}
	t := u.eng.lookupNamed(mu.keyT)
	env := map[string]Value{"self": scalar(types.NewPointer(t), mu.ref)}
	if g.InvExp != nil {
		c := &Clause{Text: g.Inv, File: g.File, Line: g.Line}
		goal := u.specBoolAt(st, u.old, env, g.InvExp, c, token.NoPos)
		u.oblige(st, "lockinv@"+exprText(sel.X), "lockinv", nil, goal, pos, g.Inv)
	}
	if g.RelyExp != nil {
		// guarantee: what this goroutine did while holding the lock is itself allowed by the relation
		if snap, ok := u.lockSnaps[mu.keyT+"|"+mu.ref.S]; ok {
			c := &Clause{Text: g.Rely, File: g.File, Line: g.Line}
			goal := u.specBoolAt(st, snap, env, g.RelyExp, c, token.NoPos)
			u.oblige(st, "guarantee@"+exprText(sel.X), "lockinv", nil, goal, pos, g.Rely)
		}
	}
}

func (e *Engine) lookupNamed(key string) types.Type {
	if strings.HasPrefix(key, "main.") && e.cmd != nil {
		if o := e.cmd.Types.Scope().Lookup(strings.TrimPrefix(key, "main.")); o != nil {
			return o.Type()
		}
	}
	if o := e.root.Types.Scope().Lookup(key); o != nil {
		return o.Type()
	}
	panic(engineError("unknown guarded type " + key))
}

// checkGuardedAccess: reading or writing a guarded field requires holding the mutex
// (the write lock for writes).
func (u *Unit) checkGuardedAccess(st *State, lv LV, write bool, e ast.Expr) {
	if lv.kind != lvHeap || len(u.frames) == 0 {
		return
	}
	g := u.eng.guards[lv.keyT]
	if g == nil {
		return
	}
	guarded := false
	for _, f := range g.Fields {
		if lv.prefix == f || strings.HasPrefix(lv.prefix, f+".") {
			guarded = true
		}
	}
	if !guarded {
		return
	}
	t := u.eng.lookupNamed(lv.keyT)
	mt := pathType(t, g.Mutex)
	if mt == nil {
		panic(engineError(fmt.Sprintf("guard %s: no mutex field %s", g.Type, g.Mutex)))
	}
	mlv := LV{kind: lvHeap, keyT: lv.keyT, ref: lv.ref, prefix: g.Mutex, T: mt}
	held := u.load(st, mlv).term()
	goal := Ne(held, IntLit(0))
	if write {
		goal = Eq(held, IntLit(1))
	}
	u.oblige(st, fmt.Sprintf("guard@%s.%s", lv.keyT, lv.prefix), "guard", nil, goal, e.Pos(), "guarded field accessed with the lock held")
}

func (u *Unit) lockMods(sel *ast.SelectorExpr, m *modSet) {
	info := u.top().info
	xt := info.TypeOf(sel.X)
	if xt == nil {
		return
	}
	// x.mu.Lock() / x.Lock(): the mutex leaf lives in x's struct (or one level up)
	if inner, ok := ast.Unparen(sel.X).(*ast.SelectorExpr); ok {
		if bt := info.TypeOf(inner.X); bt != nil {
			if p, ok := bt.Underlying().(*types.Pointer); ok {
				m.keys = append(m.keys, "F:"+typeKey(p.Elem())+":"+inner.Sel.Name)
				if g := u.eng.guards[typeKey(p.Elem())]; g != nil {
					m.keys = append(m.keys, "F:"+typeKey(p.Elem())+":")
					m.keys = append(m.keys, "M:", "MV:", "MD:")
				}
				return
			}
		}
	}
	if p, ok := xt.Underlying().(*types.Pointer); ok {
		m.keys = append(m.keys, "F:"+typeKey(p.Elem())+":")
		if g := u.eng.guards[typeKey(p.Elem())]; g != nil {
			m.keys = append(m.keys, "M:", "MV:", "MD:")
		}
		return
	}
	if id, ok := ast.Unparen(sel.X).(*ast.Ident); ok {
		if obj := info.ObjectOf(id); obj != nil {
			m.vars[obj] = true
		}
	}
}

// libraryModel implements calls with native semantics. ok=false: not modelled here.
func (u *Unit) libraryModel(st *State, cs *callSite) ([]Value, bool) {
	fn := cs.fn
	full := fn.FullName()
	mark := func() { u.stubsUsed["model:"+full] = true }
	newErr := func(tagName string) Value {
		e := u.alloc(st, "err")
		st.assume(Eq(u.dyntype(e), IntLit(int64(u.eng.typeTagByName(tagName)))))
		st.assume(Eq(u.unwrap(e), IntLit(0)))
		return scalar(cs.sig.Results().At(0).Type(), e)
	}
	switch full {
	case "errors.New", "github.com/pkg/errors.New", "github.com/pkg/errors.Errorf":
		mark()
		return []Value{newErr("*errors.errorString")}, true
	case "fmt.Errorf":
		mark()
		return []Value{newErr("*fmt.wrapError")}, true
	case "github.com/pkg/errors.Wrap", "github.com/pkg/errors.Wrapf", "github.com/pkg/errors.WithStack", "github.com/pkg/errors.WithMessage":
		mark()
		inner := cs.args[0].term()
		e := u.alloc(st, "wrapped")
		st.assume(Eq(u.dyntype(e), IntLit(int64(u.eng.typeTagByName("*github.com/pkg/errors.withStack")))))
		st.assume(Eq(u.unwrap(e), inner))
		return []Value{scalar(cs.sig.Results().At(0).Type(), Ite(Eq(inner, IntLit(0)), IntLit(0), e))}, true
	case "errors.As", "github.com/pkg/errors.As":
		mark()
		// target is &x with x of a concrete error type
		at := u.typeOf(cs.call.Args[1])
		if at == nil {
			break
		}
		pt, ok := at.Underlying().(*types.Pointer)
		if !ok {
			break
		}
		if isInterface(pt.Elem()) {
			break
		}
		tag := IntLit(int64(u.eng.typeTag(pt.Elem())))
		e0 := cs.args[0].term()
		e1 := u.unwrap(e0)
		e2 := u.unwrap(e1)
		// error types of the repository that have no Unwrap method end the chain
		for _, nt := range u.eng.leafErrorTypes() {
			tg := IntLit(int64(u.eng.typeTag(nt)))
			for _, e := range []Term{e0, e1} {
				st.assume(Imp(Eq(u.dyntype(e), tg), Eq(u.unwrap(e), IntLit(0))))
			}
		}
		m0 := And(Ne(e0, IntLit(0)), Eq(u.dyntype(e0), tag))
		m1 := And(Ne(e0, IntLit(0)), Ne(e1, IntLit(0)), Eq(u.dyntype(e1), tag))
		m2 := And(Ne(e0, IntLit(0)), Ne(e1, IntLit(0)), Ne(e2, IntLit(0)), Eq(u.dyntype(e2), tag))
		found := Ite(m0, e0, Ite(m1, e1, e2))
		okT := Or(m0, m1, m2)
		u.assumptions["errors.As: error chains are inspected to depth 3"] = true
		// *target = found value
		tgt := u.derefLV(cs.args[1].term(), pt.Elem())
		if obj := u.boxedTarget(cs.call.Args[1]); obj != nil {
			tgt = LV{kind: lvVar, obj: obj, T: obj.Type()}
		}
		oldv := u.load(st, tgt)
		nv := u.unbox(st, scalar(cs.args[0].T, found), pt.Elem())
		u.store(st, tgt, mergeVal(okT, nv, oldv))
		return []Value{boolV(okT)}, true
	case "bytes.Equal":
		// bytes.Equal(a[:], b[:]) over two whole digest arrays is a == b
		if len(cs.call.Args) == 2 {
			full := func(e ast.Expr) (ast.Expr, bool) {
				se, ok := ast.Unparen(e).(*ast.SliceExpr)
				if !ok || se.Low != nil || se.High != nil || se.Max != nil {
					return nil, false
				}
				t := u.typeOf(se.X)
				return se.X, t != nil && isChunkID(t)
			}
			xa, oka := full(cs.call.Args[0])
			xb, okb := full(cs.call.Args[1])
			if oka && okb {
				mark()
				va, vb := u.eval(st, xa), u.eval(st, xb)
				if len(va.L) == 1 && len(vb.L) == 1 {
					return []Value{boolV(Eq(va.term(), vb.term()))}, true
				}
			}
		}
		return nil, false
	case "os.IsNotExist":
		mark()
		f := u.d.Fun("spec_notExist", []Sort{SInt}, SBool) // = spec func notExist in stubs/std.spec
		e := cs.args[0].term()
		r := App(f, SBool, e)
		st.assume(Imp(Eq(e, IntLit(0)), Not(r)))
		return []Value{boolV(r)}, true
	case "golang.org/x/sync/errgroup.WithContext":
		mark()
		g := u.alloc(st, "errgroup")
		ctx := u.d.Fresh("gctx", SInt)
		st.assume(Lt(IntLit(0), ctx))
		return []Value{scalar(cs.sig.Results().At(0).Type(), g), scalar(cs.sig.Results().At(1).Type(), ctx)}, true
	case "(*golang.org/x/sync/errgroup.Group).Go":
		mark()
		if lit, ok := ast.Unparen(cs.call.Args[0]).(*ast.FuncLit); ok {
			u.spawnLit(st, lit, "g.Go")
		} else {
			u.abstract("g.Go(%s): not a literal, heap havocked", exprText(cs.call.Args[0]))
			u.havocHeap(st, func(string) bool { return true })
		}
		return nil, true
	case "(*golang.org/x/sync/errgroup.Group).Wait":
		mark()
		for _, pm := range u.spawned {
			u.havocMods(st, pm)
		}
		r := u.freshValue(st, "waiterr", cs.sig.Results().At(0).Type())
		u.runAnchorsNamed(st, "wait", cs.call.Pos(), map[string]Value{"werr": r})
		return []Value{r}, true
	case "sort.Search":
		mark()
		return []Value{u.sortSearch(st, cs)}, true
	case "(context.Context).Done", "(context.Context).Err", "context.Background", "context.WithCancel":
		mark()
		return u.freshResults(st, cs.sig, fn.Name()), true
	case "math.Log2":
		mark()
		// 2^(e-1) <= n < 2^e relation is provided through the stub for the conversion site
	}
	return nil, false
}

func (u *Unit) boxedTarget(e ast.Expr) types.Object {
	ue, ok := ast.Unparen(e).(*ast.UnaryExpr)
	if !ok || ue.Op != token.AND {
		return nil
	}
	id, ok := ast.Unparen(ue.X).(*ast.Ident)
	if !ok {
		return nil
	}
	return u.top().info.ObjectOf(id)
}

func (u *Unit) unwrap(e Term) Term {
	f := u.d.Fun("unwrap", []Sort{SInt}, SInt)
	return App(f, SInt, e)
}

func (e *Engine) typeTagByName(name string) int {
	if n, ok := e.typeTags[name]; ok {
		return n
	}
	n := len(e.typeTags) + 1
	e.typeTags[name] = n
	return n
}

// sortSearch: r = sort.Search(n, pred) with pred a single-return literal.
// Obligation: pred is monotone on [0,n). Then r is the least index with pred, or n.
func (u *Unit) sortSearch(st *State, cs *callSite) Value {
	n := cs.args[0].term()
	lit, ok := ast.Unparen(cs.call.Args[1]).(*ast.FuncLit)
	if !ok || len(lit.Body.List) != 1 {
		u.abstract("sort.Search with a non-trivial predicate: result only bounded")
		r := u.d.Fresh("search", SInt)
		st.assume(And(Le(IntLit(0), r), Le(r, n)))
		return intV(r)
	}
	ret, ok := lit.Body.List[0].(*ast.ReturnStmt)
	if !ok || len(ret.Results) != 1 {
		u.unsupported("sort.Search predicate shape")
	}
	param := u.top().info.Defs[lit.Type.Params.List[0].Names[0]]
	pred := func(s *State, i Term) Term {
		saved, had := s.vars[param]
		s.vars[param] = intV(i)
		savedChecks := u.checks
		u.checks = map[string]bool{}
		n0 := len(s.pc)
		t := u.eval(s, ret.Results[0]).term()
		// facts generated while evaluating with a bound index must not leak as global facts
		extra := append([]Term(nil), s.pc[n0:]...)
		s.pc = s.pc[:n0]
		for _, x := range extra {
			delete(s.facts, x.S)
			if !strings.Contains(x.S, i.S) {
				s.assume(x)
			}
		}
		u.checks = savedChecks
		if had {
			s.vars[param] = saved
		} else {
			delete(s.vars, param)
		}
		return t
	}
	j := Term{"j!ss", SInt}
	k := Term{"k!ss", SInt}
	inR := func(x Term) Term { return And(Le(IntLit(0), x), Lt(x, n)) }
	mono := Forall([]Term{j, k}, Imp(And(inR(j), inR(k), Le(j, k), pred(st, j)), pred(st, k)))
	u.oblige(st, "pre:sort.Search.monotone@sort.Search", "requires", nil, mono, cs.call.Pos(), "sort.Search predicate is monotone")
	r := u.d.Fresh("search", SInt)
	st.assume(And(Le(IntLit(0), r), Le(r, n)))
	st.assume(Forall([]Term{j}, Imp(And(Le(IntLit(0), j), Lt(j, r)), Not(pred(st, j)))))
	st.assume(Forall([]Term{j}, Imp(And(Le(r, j), Lt(j, n)), pred(st, j))))
	return intV(r)
}

// leafErrorTypes: named types of the repository packages with an Error method and no Unwrap.
func (e *Engine) leafErrorTypes() []types.Type {
	if e.leafErrs != nil {
		return e.leafErrs
	}
	for _, p := range e.pkgs {
		sc := p.Types.Scope()
		for _, name := range sc.Names() {
			tn, ok := sc.Lookup(name).(*types.TypeName)
			if !ok {
				continue
			}
			t := tn.Type()
			if _, isIface := t.Underlying().(*types.Interface); isIface {
				continue
			}
			for _, cand := range []types.Type{t, types.NewPointer(t)} {
				ms := types.NewMethodSet(cand)
				if ms.Lookup(p.Types, "Error") != nil && ms.Lookup(p.Types, "Unwrap") == nil && ms.Lookup(p.Types, "Cause") == nil {
					e.leafErrs = append(e.leafErrs, cand)
				}
			}
		}
	}
	return e.leafErrs
}
