package main

// Frame checking: a function with a "pure" or "modifies" contract must leave every
// location outside its declared frame unchanged (callers rely on that).

import (
	"fmt"
	"go/token"
	"go/types"
	"strings"
)

type frameItem struct {
	all    bool
	prefix string // whole heap key prefix ("F:T:f")
	lv     *LV
	mem    *Value // mem(x): window of a slice
	ghost  string
}

func (u *Unit) frameItems(fr *frame) ([]frameItem, bool) {
	fc := u.fc
	if fc == nil || u.lit != nil || fc.AssumeEnsures {
		return nil, false
	}
	if !fc.Pure && len(fr.spec.Modifies) == 0 {
		return nil, false
	}
	var items []frameItem
	for _, c := range fr.spec.Modifies {
		for _, item := range splitTopCommas(c.Text) {
			item = strings.TrimSpace(item)
			switch {
			case item == "" || item == "nothing":
			case item == "all":
				items = append(items, frameItem{all: true})
			case strings.HasPrefix(item, "heap("):
				tf := item[5 : len(item)-1]
				i := strings.LastIndex(tf, ".")
				items = append(items, frameItem{prefix: "F:" + tf[:i] + ":" + tf[i+1:]})
			case strings.HasPrefix(item, "allmem("):
				items = append(items, frameItem{prefix: "M:" + item[7:len(item)-1]})
			case strings.HasPrefix(item, "maps("):
				items = append(items, frameItem{prefix: "MD:" + mapsKey(item)}, frameItem{prefix: "MV:" + mapsKey(item)})
			case strings.HasPrefix(item, "mem("):
				ex, err := ParseSpec(item[4 : len(item)-1])
				if err != nil {
					panic(engineError(err.Error()))
				}
				v := u.specValAt(u.old, u.old, u.entryNames, ex, c, token.NoPos)
				items = append(items, frameItem{mem: &v})
			default:
				ex, err := ParseSpec(item)
				if err != nil {
					panic(engineError(err.Error()))
				}
				sg := ex.(*SGo)
				sc := &specCtx{u: u, st: u.old, cur: u.old, old: u.old, env: u.entryNames, bound: map[string]Value{}, c: c, fr: fr}
				lv, ok := sc.lv(sg.E, sg.Subs)
				if !ok {
					panic(engineError(fmt.Sprintf("%s:%d: modifies item %q is not a location", shortFile(c.File), c.Line, item)))
				}
				if lv.kind == lvGhostVar || lv.kind == lvGhostField {
					items = append(items, frameItem{ghost: lv.name})
				} else {
					l := lv
					items = append(items, frameItem{lv: &l})
				}
			}
		}
	}
	return items, true
}

// frameGoals returns, for heap key k currently valued now, the formulas stating that k is
// unchanged relative to the function entry outside the declared frame. covered: the whole
// key is in the frame (nothing to show).
func (u *Unit) frameGoals(items []frameItem, k string, now Term) (goals []Term, covered bool) {
	was := u.heapBaseAt(u.old, k, now.Sort, 0)
	if t, ok := u.old.heap[k]; ok {
		was = t
	}
	if now.S == was.S {
		return nil, true
	}
	if strings.HasPrefix(k, "F:box:") {
		return nil, true // boxed locals and interface boxes are private allocations
	}
	if strings.HasPrefix(k, "$") {
		name := k[strings.Index(k, ":")+1:]
		if i := strings.Index(name, "#"); i >= 0 {
			name = name[:i]
		}
		for _, it := range items {
			if it.ghost == name {
				return nil, true
			}
		}
		return []Term{Eq(now, was)}, false
	}
	var exemptRefs []Term
	var windows []Value
	for _, it := range items {
		switch {
		case it.all:
			return nil, true
		case it.prefix != "" && (k == it.prefix || strings.HasPrefix(k, it.prefix+".") || strings.HasPrefix(k, it.prefix+"[") || strings.HasPrefix(k, it.prefix+":")):
			return nil, true
		case it.lv != nil:
			for _, l := range flatten(it.lv.T) {
				if it.lv.kind == lvHeap || it.lv.kind == lvMem || it.lv.kind == lvMap || it.lv.kind == lvGlobal {
					if u.leafKey(*it.lv, l) == k || (it.lv.kind == lvMap && k == "MD:"+it.lv.keyT) {
						if it.lv.kind == lvGlobal {
							return nil, true
						}
						exemptRefs = append(exemptRefs, it.lv.ref)
					}
				}
			}
		case it.mem != nil:
			elem := it.mem.T.Underlying().(*types.Slice).Elem()
			if strings.HasPrefix(k, "M:"+typeKey(elem)+":") {
				windows = append(windows, *it.mem)
			}
		}
	}
	if strings.HasPrefix(k, "G:") {
		return []Term{Eq(now, was)}, false
	}
	if !now.Sort.isArray() || now.Sort.arrIdx() != SInt {
		return []Term{Eq(now, was)}, false
	}
	r := Term{"r!fr", SInt}
	ex := []Term{Le(r, u.clk0())}
	for _, e := range exemptRefs {
		ex = append(ex, Ne(r, e))
	}
	for _, w := range windows {
		ex = append(ex, Ne(r, w.base()))
	}
	goals = append(goals, Forall([]Term{r}, Imp(And(ex...), Eq(Select(now, r), Select(was, r)))))
	for _, w := range windows {
		j := Term{"j!fr", SInt}
		goals = append(goals, Forall([]Term{j}, Imp(Or(Lt(j, w.off()), Ge(j, Add(w.off(), w.slen()))), Eq(Select(Select(now, w.base()), j), Select(Select(was, w.base()), j)))))
	}
	return goals, false
}

// checkFrameAt emits the frame obligations for every heap key changed so far.
func (u *Unit) checkFrameAt(st *State, fr *frame, pos token.Pos, prefix string) {
	items, active := u.frameItems(fr)
	if !active {
		return
	}
	for _, k := range sortedKeys(st.heap) {
		goals, covered := u.frameGoals(items, k, st.heap[k])
		if covered {
			continue
		}
		for gi, g := range goals {
			name := prefix + k
			if gi > 0 {
				name = fmt.Sprintf("%s/window%d", name, gi)
			}
			u.oblige(st, name, "frame", nil, g, pos, "state outside the declared frame is unchanged")
		}
	}
}

func (u *Unit) checkFrame(st *State, fr *frame, pos token.Pos) {
	u.checkFrameAt(st, fr, pos, "frame:")
}

// frameAssume: the inductive frame invariant assumed for a key havocked at a loop head.
func (u *Unit) frameAssume(st *State, k string, now Term) {
	if len(u.frames) == 0 {
		return
	}
	items, active := u.frameItems(u.frames[0])
	if !active {
		return
	}
	goals, covered := u.frameGoals(items, k, now)
	if covered {
		return
	}
	for _, g := range goals {
		st.assume(g)
	}
}
