package main

// Frame checking: a function with a "pure" or "modifies" contract must leave every
// location outside its declared frame unchanged (callers rely on that).

import (
	"fmt"
	"go/token"
	"go/types"
	"strings"
)

type frameItem struct {
	all    bool
	prefix string // whole heap key prefix ("F:T:f")
	lv     *LV
	mem    *Value // mem(x): window of a slice
	ghost  string
}

func (u *Unit) frameItems(fr *frame) ([]frameItem, bool) {
	fc := u.fc
	if fc == nil || u.lit != nil {
		return nil, false
	}
	if !fc.Pure && len(fr.spec.Modifies) == 0 {
		return nil, false
	}
	var items []frameItem
	for _, c := range fr.spec.Modifies {
		for _, item := range splitTopCommas(c.Text) {
			item = strings.TrimSpace(item)
			switch {
			case item == "" || item == "nothing":
			case item == "all":
				items = append(items, frameItem{all: true})
			case strings.HasPrefix(item, "heap("):
				tf := item[5 : len(item)-1]
				i := strings.LastIndex(tf, ".")
				items = append(items, frameItem{prefix: "F:" + tf[:i] + ":" + tf[i+1:]})
			case strings.HasPrefix(item, "maps("):
				items = append(items, frameItem{prefix: "MD:" + mapsKey(item)}, frameItem{prefix: "MV:" + mapsKey(item)})
			case strings.HasPrefix(item, "mem("):
				ex, err := ParseSpec(item[4 : len(item)-1])
				if err != nil {
					panic(engineError(err.Error()))
				}
				v := u.specValAt(u.old, u.old, u.entryNames, ex, c, token.NoPos)
				items = append(items, frameItem{mem: &v})
			default:
				ex, err := ParseSpec(item)
				if err != nil {
					panic(engineError(err.Error()))
				}
				sg := ex.(*SGo)
				sc := &specCtx{u: u, st: u.old, cur: u.old, old: u.old, env: u.entryNames, bound: map[string]Value{}, c: c, fr: fr}
				lv, ok := sc.lv(sg.E, sg.Subs)
				if !ok {
					panic(engineError(fmt.Sprintf("%s:%d: modifies item %q is not a location", shortFile(c.File), c.Line, item)))
				}
				if lv.kind == lvGhostVar || lv.kind == lvGhostField {
					items = append(items, frameItem{ghost: lv.name})
				} else {
					l := lv
					items = append(items, frameItem{lv: &l})
				}
			}
		}
	}
	return items, true
}

func (u *Unit) checkFrame(st *State, fr *frame, pos token.Pos) {
	items, active := u.frameItems(fr)
	if !active {
		return
	}
	for _, it := range items {
		if it.all {
			return
		}
	}
	keys := map[string]bool{}
	for k := range st.heap {
		keys[k] = true
	}
	for _, k := range sortedKeys(keys) {
		now := st.heap[k]
		was := u.heapArr(u.old, k, now.Sort)
		if now.S == was.S {
			continue
		}
		if strings.HasPrefix(k, "F:box:") {
			continue // boxed locals and interface boxes are private allocations
		}
		if strings.HasPrefix(k, "$") {
			name := k[strings.Index(k, ":")+1:]
			ok := false
			for _, it := range items {
				if it.ghost == name {
					ok = true
				}
			}
			if !ok {
				u.oblige(st, "frame:"+k, "frame", nil, Eq(now, was), pos, "ghost state outside the declared frame is unchanged")
			}
			continue
		}
		covered := false
		var exemptRefs []Term
		var windows []Value
		for _, it := range items {
			switch {
			case it.prefix != "" && (k == it.prefix || strings.HasPrefix(k, it.prefix+".") || strings.HasPrefix(k, it.prefix+"[") || strings.HasPrefix(k, it.prefix+":")):
				covered = true
			case it.lv != nil:
				for _, l := range flatten(it.lv.T) {
					if it.lv.kind == lvHeap || it.lv.kind == lvMem || it.lv.kind == lvMap || it.lv.kind == lvGlobal {
						if u.leafKey(*it.lv, l) == k || (it.lv.kind == lvMap && k == "MD:"+it.lv.keyT) {
							if it.lv.kind == lvGlobal {
								covered = true
							} else {
								exemptRefs = append(exemptRefs, it.lv.ref)
							}
						}
					}
				}
			case it.mem != nil:
				elem := it.mem.T.Underlying().(*types.Slice).Elem()
				if strings.HasPrefix(k, "M:"+typeKey(elem)+":") {
					windows = append(windows, *it.mem)
				}
			}
		}
		if covered {
			continue
		}
		if strings.HasPrefix(k, "G:") {
			u.oblige(st, "frame:"+k, "frame", nil, Eq(now, was), pos, "package variable outside the declared frame is unchanged")
			continue
		}
		// arrays indexed by reference: unchanged except at exempt / freshly allocated references
		r := Term{"r!fr", SInt}
		var ex []Term
		ex = append(ex, Le(r, u.clk0()))
		for _, e := range exemptRefs {
			ex = append(ex, Ne(r, e))
		}
		for _, w := range windows {
			ex = append(ex, Ne(r, w.base()))
		}
		goal := Forall([]Term{r}, Imp(And(ex...), Eq(Select(now, r), Select(was, r))))
		u.oblige(st, "frame:"+k, "frame", nil, goal, pos, "heap outside the declared frame is unchanged")
		for wi, w := range windows {
			j := Term{"j!fr", SInt}
			g := Forall([]Term{j}, Imp(Or(Lt(j, w.off()), Ge(j, Add(w.off(), w.slen()))), Eq(Select(Select(now, w.base()), j), Select(Select(was, w.base()), j))))
			u.oblige(st, fmt.Sprintf("frame:%s/window%d", k, wi+1), "frame", nil, g, pos, "slice backing array unchanged outside the declared window")
		}
	}
}
