#!/bin/bash
# usage: tools/harmlesscheck.sh <ID> <outdir> : apply a behaviour-preserving patch and run EVERY check; any VIOLATION is a false alarm
ID=$1; OUT=$2
cd /repo || exit 2
if ! git diff --quiet -- . ':!verif_contracts.go' ':!cmd/desync/verif_contracts.go'; then echo "/repo not clean"; exit 2; fi
git apply "$OUT/patch.diff" || { echo "patch does not apply"; exit 2; }
export GOFLAGS=-mod=mod GOPROXY=off GOSUMDB=off GOTOOLCHAIN=local
go build ./... || echo BUILD-FAIL
cd /verif
for p in C01 C02 C03 C04 C05 C06 C07 C08 C09 C10 C11 C12 C13 C14 C15 C16 C17 C18 C19 C20; do
  out=$(timeout 900 ./bin/gocv check $p 2>&1); rc=$?
  if [ $rc -ne 0 ] || echo "$out" | grep -q "VIOLATION\|STALE"; then
    echo "== $p rc=$rc"; echo "$out" | grep "VIOLATION\|STALE\|^$p:" | head -8 | cut -c1-220
  fi
done
git -C /repo apply -R "$OUT/patch.diff" || echo REVERT-FAILED
git -C /verif checkout -- evidence 2>/dev/null
mkdir -p /verif/seeded/harmless-$ID && cp "$OUT"/patch.diff "$OUT"/meta.json /verif/seeded/harmless-$ID/ 2>/dev/null
echo "done harmless-$ID"
