#!/bin/bash
# usage: tools/harmlesscheck.sh <ID> <outdir> [NAME] : apply a behaviour-preserving patch to a scratch copy of /repo and
# run EVERY check against it; any VIOLATION is a false alarm. /repo itself is not touched.
ID=$1; OUT=$2; NAME=${3:-harmless-$ID}
export GOFLAGS=-mod=mod GOPROXY=off GOSUMDB=off GOTOOLCHAIN=local
T=$(mktemp -d /tmp/gocv-harmless-XXXXXX)
trap 'rm -rf "$T"' EXIT
rsync -a --exclude .git /repo/ "$T/repo/"
( cd "$T/repo" && git apply "$OUT/patch.diff" ) || { echo "patch does not apply"; exit 2; }
( cd "$T/repo" && go build ./... ) || echo BUILD-FAIL
mkdir -p "$T/verif"
for sub in stubs baseline replay; do cp -r /verif/$sub "$T/verif/" 2>/dev/null; done
cp /verif/known_findings.json "$T/verif/" 2>/dev/null
run() {
  p=$1
  out=$(timeout 900 /verif/bin/gocv check $p --repo "$T/repo" --verif "$T/verif" 2>&1); rc=$?
  if [ $rc -ne 0 ] || echo "$out" | grep -q "VIOLATION\|STALE\|UNDECIDED\|ENGINE"; then
    echo "== $p rc=$rc"; echo "$out" | grep "VIOLATION\|STALE\|UNDECIDED\|ENGINE\|^$p:" | head -8 | cut -c1-260
  fi
}
export -f run; export T
printf '%s\n' C01 C02 C03 C04 C05 C06 C07 C08 C09 C10 C11 C12 C13 C14 C15 C16 C17 C18 C19 C20 | xargs -P 6 -I{} bash -c 'run {}'
mkdir -p /verif/seeded/$NAME && cp "$OUT"/patch.diff "$OUT"/meta.json /verif/seeded/$NAME/ 2>/dev/null
echo "done $NAME"
