#!/bin/bash
# run every claimed check on the unchanged tree; any VIOLATION / engine problem here is a broken check
cd /verif || exit 2
bad=0
for p in $(python3 -c "import json;print(' '.join(c['property_id'] for c in json.load(open('MANIFEST.json'))['checks']))"); do
  out=$(timeout 900 ./check $p 2>&1); rc=$?
  line=$(echo "$out" | grep "^$p:" | cut -c1-150)
  if [ $rc -ne 0 ] || echo "$out" | grep -q "VIOLATION\|UNDECIDED\|STALE\|ENGINE"; then
    echo "PROBLEM $p rc=$rc: $line"; echo "$out" | grep "VIOLATION\|UNDECIDED\|STALE\|ENGINE" | head -5 | cut -c1-200; bad=1
  else
    echo "ok $line"
  fi
done
exit $bad
