#!/bin/bash
# usage: tools/seedcheck.sh <ID> <outdir> [dest-name] : confirm a sub-agent's change (applies to a scratch copy of /repo,
# /repo itself is not touched), run the property's check on it, keep it under seeded/
set -u
ID=$1; OUT=$2; NAME=${3:-$ID}
export GOFLAGS=-mod=mod GOPROXY=off GOSUMDB=off GOTOOLCHAIN=local
T=$(mktemp -d /tmp/gocv-seed-XXXXXX)
trap 'rm -rf "$T"' EXIT
rsync -a --exclude .git /repo/ "$T/repo/"
( cd "$T/repo" && git apply "$OUT/patch.diff" ) || { echo "patch does not apply"; exit 2; }
( cd "$T/repo" && go build ./... ) || echo BUILD-FAIL
mkdir -p "$T/verif"
for sub in stubs baseline replay; do cp -r /verif/$sub "$T/verif/" 2>/dev/null; done
cp /verif/known_findings.json "$T/verif/" 2>/dev/null
/verif/bin/gocv check $ID --repo "$T/repo" --verif "$T/verif" > /tmp/seedcheck-$NAME.txt 2>&1; rc=$?
grep -E "VIOLATION|KNOWN|UNDECIDED|STALE|REPAIRED|^$ID:" /tmp/seedcheck-$NAME.txt | cut -c1-220
echo "check rc=$rc"
mkdir -p /verif/seeded/$NAME
cp "$OUT"/patch.diff "$OUT"/meta.json /verif/seeded/$NAME/ 2>/dev/null
cp "$OUT"/demo* /verif/seeded/$NAME/ 2>/dev/null
grep -E "VIOLATION|^$ID:" /tmp/seedcheck-$NAME.txt | sed "s#$T/verif/replays#replays#" > /verif/seeded/$NAME/check_output.txt
echo "rc=$rc" >> /verif/seeded/$NAME/check_output.txt
