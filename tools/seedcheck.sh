#!/bin/bash
# usage: tools/seedcheck.sh <ID> <outdir> [dest-name] : confirm a sub-agent's change, run the check on it, keep it under seeded/
set -u
ID=$1; OUT=$2; NAME=${3:-$ID}
cd /repo || exit 2
if ! git diff --quiet -- . ':!verif_contracts.go' ':!cmd/desync/verif_contracts.go'; then echo "/repo not clean"; exit 2; fi
git apply "$OUT/patch.diff" || { echo "patch does not apply"; exit 2; }
export GOFLAGS=-mod=mod GOPROXY=off GOSUMDB=off GOTOOLCHAIN=local
go build ./... || echo BUILD-FAIL
cd /verif && ./check $ID > /tmp/seedcheck-$NAME.txt 2>&1; rc=$?
grep -E "VIOLATION|KNOWN|UNDECIDED|^$ID:" /tmp/seedcheck-$NAME.txt | cut -c1-220
echo "check rc=$rc"
git -C /repo apply -R "$OUT/patch.diff" || echo REVERT-FAILED
mkdir -p /verif/seeded/$NAME
cp "$OUT"/patch.diff "$OUT"/meta.json /verif/seeded/$NAME/ 2>/dev/null
cp "$OUT"/demo* /verif/seeded/$NAME/ 2>/dev/null
grep -E "VIOLATION|^$ID:" /tmp/seedcheck-$NAME.txt | sed "s#/verif/replays#replays#" > /verif/seeded/$NAME/check_output.txt
echo "rc=$rc" >> /verif/seeded/$NAME/check_output.txt
git -C /verif checkout -- evidence 2>/dev/null
