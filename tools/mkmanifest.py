#!/usr/bin/env python3
"""Regenerate MANIFEST.json from tools/claims.json (one entry per claimed property)."""
import json, subprocess
props = [json.loads(l) for l in open('/verif/properties.jsonl')]
claims = json.load(open('/verif/tools/claims.json'))
hooks = subprocess.run(['git','-C','/repo','log','--format=%H %s'],capture_output=True,text=True).stdout.splitlines()
hook_commits = [l.split()[0] for l in hooks if l.split(' ',1)[1].startswith('verif:')]
m = {"version": 1, "setup_cmd": "./setup.sh",
 "hooks": {"guard": "verif", "enable": "-tags verif (contract files verif_contracts*.go contain only //@ comments; read by gocv, never executed)",
   "baseline_off_cmd": "cd /repo && go test -mod=mod -vet=off -count=1 -timeout 25m ./...",
   "source_commits": hook_commits, "add_only": True},
 "engines": [{"name": "gocv", "path": "/verif/cmd/gocv", "serves_properties": sorted(claims.keys()),
   "kind_free_text": "contract-based deductive verifier for Go written for this task: weakest-precondition style symbolic execution of the real go/ast+go/types syntax of /repo, contracts as //@ comments in /repo/verif_contracts*.go (build tag verif) and /verif/stubs/*.spec, one SMT-LIB2 query per obligation, discharged by z3-new 5.1.0 / cvc5 1.0 / z3 4.8.12"}],
 "checks": [], "not_applicable": [],
 "notes": "See DESIGN.md (section 0a: as built). Every check rebuilds its verification conditions from /repo's working tree on every run; nothing is cached. A VIOLATION is a refuted or no longer generated obligation of the ledger of the unchanged tree (baseline/<ID>.json), named by obligation; where a replay template exists the refutation is re-run against the real code (go test -overlay) and the line carries no suffix when it reproduces, otherwise it ends with no-failing-input-found. Obligations at new call sites and units whose contract went stale (renamed or removed names it mentions, a new helper without contract) are UNDECIDED: printed on stderr, listed in the evidence, exit status 0. Open known findings (known_findings.json) print KNOWN-FINDING lines. Thorough mode asks the other solvers to confirm every answer, uses longer time limits and the larger bound for the one bounded clause (C13 bst layout), and re-runs the property's must-fail and no-alarm corpus (selftest/), recording the outcome in the evidence."}
for p in props:
    pid = p['id']
    if pid in claims:
        c = claims[pid]
        m['checks'].append({"property_id": pid, "quick_cmd": f"./check {pid}", "thorough_cmd": f"./check {pid} --thorough",
          "evidence_file": f"/verif/evidence/{pid}.json", "replay_cmd_template": "./check --replay {path}", "engine": "gocv",
          "level_claimed": {"category": "proof", "text": c['text'], "design_ref": c.get('design_ref', 'DESIGN.md section 4 ' + pid)},
          "level_note": c['note'], "technique": c.get('technique', "contract-based deductive verification: WP/symbolic execution of the real Go AST against //@ contracts, SMT (z3/cvc5)")})
    else:
        reason = json.load(open('/verif/tools/na.json')).get(pid, "contracts not yet brought to discharge in this build; see DESIGN.md section 8")
        m['not_applicable'].append({"property_id": pid, "reason": reason})
json.dump(m, open('/verif/MANIFEST.json','w'), indent=1)
print(len(m['checks']), 'claimed,', len(m['not_applicable']), 'not applicable')
