#!/usr/bin/env python3
"""tools/addfinding.py <id> <property> <obligation> <commit-line> <what>   (status fixed)
   tools/addfinding.py --canary <id> <prop> <file> <old> <new> <expect-regex>"""
import json, sys
if sys.argv[1] == '--canary':
    _, _, cid, prop, f, old, new, exp = sys.argv
    p = '/verif/selftest/corpus.json'
    c = json.load(open(p))
    c = [x for x in c if x.get('id') != cid]
    c.append({"id": cid, "prop": prop, "file": f, "old": old.encode().decode('unicode_escape'), "new": new.encode().decode('unicode_escape'), "expect": exp})
    json.dump(c, open(p, 'w'), indent=1)
    print('canary', cid)
else:
    fid, prop, ob, commit, what = sys.argv[1:6]
    p = '/verif/known_findings.json'
    k = json.load(open(p))
    k = [x for x in k if x.get('id') != fid]
    k.append({"id": fid, "property": prop, "obligation": ob, "status": "fixed", "commit": commit, "what": "fixed: property=%s %s %s" % (prop, commit.split()[0], what)})
    json.dump(k, open(p, 'w'), indent=1)
    print('finding', fid)
