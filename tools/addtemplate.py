#!/usr/bin/env python3
"""tools/addtemplate.py <obligation-regex> <demo-file> <dest-file-name> <test-regex> <pkg> <note>
registers a sub-agent's demonstration as a replay template (fail_confirms: passes on code with the property)."""
import json, shutil, sys
ob, src, dst, test, pkg, note = sys.argv[1:7]
shutil.copy(src, '/verif/replay/' + dst)
p = '/verif/replay/templates.json'
t = json.load(open(p))
t = [x for x in t if x.get('file') != dst]
t.append({"obligation": ob, "file": dst, "test": test, "pkg": pkg, "fail_confirms": True, "note": note})
json.dump(t, open(p, 'w'), indent=1)
print(len(t), 'templates')
