#!/usr/bin/env python3
"""Self-test corpus: deliberately broken bodies that compile but must fail a named obligation.

Usage: selftest/run.py [PROP ...]   (default: all)
Each entry of corpus.json: {"id", "prop", "file", "old", "new", "expect": regex on VIOLATION obligation names}
The patch is applied to a scratch copy of /repo (outside /repo and /verif), removed afterwards.
A corpus entry that verifies is an engine/contract weakness and makes this script exit 1.
"""
import json, os, re, shutil, subprocess, sys, tempfile
VERIF = os.path.dirname(os.path.dirname(os.path.abspath(__file__)))
corpus = json.loads(open(os.path.join(VERIF, 'selftest', 'corpus.json')).read(), strict=False)
want = set(sys.argv[1:])
env = dict(os.environ, GOFLAGS='-mod=mod', GOPROXY='off', GOSUMDB='off', GOTOOLCHAIN='local')
# changes written by independent sub-agents (seeded/<name>/patch.diff + meta.json): each must be reported
import glob
for d in sorted(glob.glob(os.path.join(VERIF, 'seeded', '*'))):
    try:
        meta = json.load(open(os.path.join(d, 'meta.json')))
    except Exception:
        continue
    if os.path.exists(os.path.join(d, 'MISSED')) or os.path.exists(os.path.join(d, 'ALARMS')) or os.path.exists(os.path.join(d, 'SUPERSEDED')):
        continue  # recorded as not detected / as a residual false alarm (see DESIGN.md): kept for reference, not a canary
    if meta.get('kind') == 'harmless':
        # a behaviour-preserving refactoring written by a sub-agent: no alarm allowed
        corpus.append({'id': 'seeded-' + os.path.basename(d), 'prop': meta['property'], 'patch': os.path.join(d, 'patch.diff'), 'harmless': 'patch'})
        continue
    corpus.append({'id': 'seeded-' + os.path.basename(d), 'prop': meta['property'], 'patch': os.path.join(d, 'patch.diff'), 'expect': '.'})
# harmless edits: must NOT raise an alarm (every line of every source file shifted by a comment block)
props_all = sorted({e['prop'] for e in corpus})
for pr in props_all:
    corpus.append({'id': 'harmless-shift-' + pr, 'prop': pr, 'harmless': 'shift'})
import concurrent.futures, threading, atexit
# work on a snapshot of /repo and of the check's inputs taken now, so that a long run is not disturbed by (and does
# not mix states of) edits made while it runs
SNAP = tempfile.mkdtemp(prefix='gocv-selftest-snap-')
atexit.register(lambda: shutil.rmtree(SNAP, ignore_errors=True))
shutil.copytree('/repo', os.path.join(SNAP, 'repo'), ignore=shutil.ignore_patterns('.git'))
for sub in ('stubs', 'baseline', 'replay'):
    shutil.copytree(os.path.join(VERIF, sub), os.path.join(SNAP, 'verif', sub))
shutil.copy(os.path.join(VERIF, 'known_findings.json'), os.path.join(SNAP, 'verif'))
shutil.copy(os.path.join(VERIF, 'bin', 'gocv'), os.path.join(SNAP, 'gocv'))
lock = threading.Lock()
bad = 0
ran = 0

def say(msg):
    with lock:
        print(msg, flush=True)

def run_one(e):
    """returns (ran, bad)"""
    tmp = tempfile.mkdtemp(prefix='gocv-selftest-')
    try:
        scratch = os.path.join(tmp, 'repo')
        shutil.copytree(os.path.join(SNAP, 'repo'), scratch)
        if e.get('harmless') == 'shift':
            import glob as _g
            for fn in _g.glob(os.path.join(scratch, '*.go')) + _g.glob(os.path.join(scratch, 'cmd', 'desync', '*.go')):
                if fn.endswith('_test.go') or fn.endswith('verif_contracts.go'):
                    continue
                src = open(fn).read()
                i = src.find('\npackage ')
                j = src.find('\n', i + 1)
                if src.startswith('package '):
                    i, j = -1, src.find('\n')
                if j > 0:
                    open(fn, 'w').write(src[:j + 1] + '\n// harmless edit: shifted\n// by three lines\n' + src[j + 1:])
        elif 'patch' in e:
            a = subprocess.run(['git', 'apply', e['patch']], cwd=scratch, capture_output=True, text=True)
            if a.returncode != 0:
                say(f"SELFTEST-STALE {e['id']}: patch does not apply: {a.stderr[:200]}")
                return 0, 1
        else:
            path = os.path.join(scratch, e['file'])
            src = open(path).read()
            if src.count(e['old']) != 1:
                say(f"SELFTEST-STALE {e['id']}: pattern occurs {src.count(e['old'])} times in {e['file']}")
                return 0, 1
            open(path, 'w').write(src.replace(e['old'], e['new']))
        b = subprocess.run(['go', 'build', './...'], cwd=scratch, env=env, capture_output=True, text=True)
        if b.returncode != 0:
            say(f"SELFTEST-NOBUILD {e['id']}: {b.stderr[:300]}")
            return 0, 1
        replays = os.path.join(tmp, 'verif')
        os.makedirs(os.path.join(replays, 'baseline'), exist_ok=True)
        # run against the scratch copy, with the ledger / stubs / known findings of the snapshot; outputs go to tmp
        for sub in ('stubs', 'baseline', 'replay'):
            shutil.copytree(os.path.join(SNAP, 'verif', sub), os.path.join(replays, sub), dirs_exist_ok=True)
        shutil.copy(os.path.join(SNAP, 'verif', 'known_findings.json'), replays)
        r = subprocess.run([os.path.join(SNAP, 'gocv'), 'check', e['prop'], '--repo', scratch, '--verif', replays],
                           env=env, capture_output=True, text=True)
        viol = re.findall(r'VIOLATION property=\S+ replay=\S*/([^/\s]+)\.json', r.stdout)
        if e.get('harmless'):
            if r.returncode == 0 and not viol:
                say(f"selftest ok   {e['id']:40s} no alarm on a harmless edit")
                return 1, 0
            say(f"SELFTEST-FALSE-ALARM {e['id']}: rc={r.returncode} {viol[:5]}")
            return 1, 1
        hit = [v for v in viol if re.search(e['expect'], v)]
        if r.returncode == 1 and hit:
            say(f"selftest ok   {e['id']:40s} fails {hit[0]}")
            return 1, 0
        say(f"SELFTEST-MISS {e['id']}: expected a violation matching /{e['expect']}/, got rc={r.returncode} {viol}\n" + r.stderr[-400:])
        return 1, 1
    finally:
        shutil.rmtree(tmp, ignore_errors=True)

todo = [e for e in corpus if not want or e['prop'] in want or e['id'] in want]
jobs = int(os.environ.get('SELFTEST_JOBS', '4'))
with concurrent.futures.ThreadPoolExecutor(max_workers=jobs) as ex:
    for a, b in ex.map(run_one, todo):
        ran += a
        bad += b
print(f"selftest: {ran} mutants run, {bad} problems")
sys.exit(1 if bad else 0)
